------------------------------ MODULE TraceRoles ------------------------------
(***************************************************************************)
(* Trace specification for C18.                                             *)
(*  "Case" lines: one request sent to a real handler (etcd.RPCServer or     *)
(*  brain.Server over a recording backend, the real revision syncer and a   *)
(*  scripted leader); what the handler did must be what the decision table  *)
(*  of Roles.tla prescribes.                                                *)
(*  "P" lines: steps of the follower read protocol executed on the real     *)
(*  revision syncer; a read must be served at a revision not older than the *)
(*  leader's committed revision when the read began.                        *)
(***************************************************************************)
EXTENDS RolesTable, IOUtils

Trace == ndJsonDeserialize(IOEnv.KB_TRACE)
VARIABLES l, viol, lr, mst, stv
tvars == <<l, viol, lr, mst, stv>>
E == Trace[l]
Is(e) == l <= Len(Trace) /\ E.e = e
V(cond, name) == IF cond \/ (\E v \in viol : v[1] = name) THEN {} ELSE {<<name, l>>}
RS == {"r1", "r2", "r3"}

TInit == l = 1 /\ viol = {} /\ lr = 5 /\ mst = [r \in RS |-> 0] /\ stv = [r \in RS |-> 0]

TCase ==
    /\ Is("Case") /\ l' = l + 1
    /\ LET d == Decision([api |-> E.api, m |-> E.m, kind |-> E.kind], E.role, E.proxy, E.lstate) IN
       viol' = viol \cup
         (CASE d = "execute" ->
                 V(~(E.err /\ E.code = "Unavailable"), "LeaderServes")
                 \cup V(CASE E.kind = "write" -> E.writes >= 1 [] E.kind = "watch" -> E.watches >= 1 [] OTHER -> E.reads >= 1, "LeaderServes")
            [] d = "forward" ->
                 V(E.writes = 0, "FollowerNeverWrites") \cup V(E.watches = 0, "FollowerNeverStreamsOwnHistory")
                 \cup V(E.ptxn + E.pwatch >= 1, "FollowerForwards")
            [] d = "reject" ->
                 V(E.writes = 0, "FollowerNeverWrites") \cup V(E.watches = 0, "FollowerNeverStreamsOwnHistory")
                 \cup V(E.err /\ E.code = "Unavailable" /\ E.ptxn = 0 /\ E.pwatch = 0, "FollowerRejectsUnavailable")
            [] d = "sync-read" ->
                 V(E.writes = 0, "FollowerNeverWrites")
                 \cup V(E.sets >= 1 /\ E.set_is_leader_rev /\ E.set_before_read /\ E.reads >= 1 /\ ~E.err, "FollowerReadsAtLeaderRevision")
            [] d = "fail" ->
                 V(E.writes = 0, "FollowerNeverWrites")
                 \cup V(E.err /\ E.reads = 0, "FollowerReadFailsWithoutLeader"))
    /\ UNCHANGED <<lr, mst, stv>>

TP ==
    /\ Is("P") /\ l' = l + 1
    /\ lr' = IF E.a = "LeaderCommit" THEN E.v ELSE lr
    /\ mst' = IF E.a = "Begin" THEN [mst EXCEPT ![E.r] = lr] ELSE mst
    /\ stv' = IF E.a = "Set" THEN [stv EXCEPT ![E.r] = E.v] ELSE stv
    \* a stale read either adopted a revision that was fetched before it began (it shared a fetch in
    \* flight), or adopted a fresh one that a late SetCurrentRevision of an older fetch lowered again
    /\ viol' = viol \cup (IF E.a = "Read" /\ E.v < mst[E.r]
                          THEN (IF stv[E.r] < mst[E.r] THEN V(FALSE, "ReadNotStaleSharedFetch") ELSE V(FALSE, "ReadNotStaleLoweredRevision"))
                          ELSE {})
                    \cup (IF E.a = "ReadError" THEN V(FALSE, "ProtocolReadServed") ELSE {})
                    \* the fetch came back and the read went on without storing the fetched revision
                    \cup (IF E.a = "NoSet" THEN V(FALSE, "FollowerAdoptsFetched") ELSE {})
\* the counterexample to LeaderRevisionMonotone (Roles.tla, Promotes = TRUE) on the real syncer and the real backend: the old
\* leader's answer to a follower read arrives after the node has taken over and committed writes of its own
TDerail == /\ Is("Derail") /\ l' = l + 1
           /\ viol' = viol \cup V(E.setup_ok => (E.committed_after_sync >= E.committed_before /\ E.created /\ E.resolved /\ E.listed = E.written), "LeaderNotDerailedByLateSync")
           /\ UNCHANGED <<lr, mst, stv>>
TReset == /\ Is("Reset") /\ l' = l + 1 /\ lr' = 5 /\ mst' = [r \in RS |-> 0] /\ stv' = [r \in RS |-> 0] /\ UNCHANGED viol
TNext == TCase \/ TP \/ TDerail \/ TReset
TSpec == TInit /\ [][TNext]_tvars
TraceAccepted == TLCGet("stats").diameter - 1 = Len(Trace)
NoViol(name) == \A v \in viol : v[1] # name
M_LeaderServes == NoViol("LeaderServes")
M_FollowerNeverWrites == NoViol("FollowerNeverWrites")
M_FollowerNeverStreamsOwnHistory == NoViol("FollowerNeverStreamsOwnHistory")
M_FollowerForwards == NoViol("FollowerForwards")
M_FollowerRejectsUnavailable == NoViol("FollowerRejectsUnavailable")
M_FollowerReadsAtLeaderRevision == NoViol("FollowerReadsAtLeaderRevision")
M_FollowerReadFailsWithoutLeader == NoViol("FollowerReadFailsWithoutLeader")
M_ReadNotStaleSharedFetch == NoViol("ReadNotStaleSharedFetch")
M_ReadNotStaleLoweredRevision == NoViol("ReadNotStaleLoweredRevision")
M_ProtocolReadServed == NoViol("ProtocolReadServed")
M_FollowerAdoptsFetched == NoViol("FollowerAdoptsFetched")
M_LeaderNotDerailedByLateSync == NoViol("LeaderNotDerailedByLateSync")
=============================================================================
