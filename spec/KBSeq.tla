------------------------------ MODULE KBSeq ------------------------------
(***************************************************************************)
(* Sequential (one request at a time) model of the kubebrain API over the   *)
(* STORED records, using the transcribed scanner of Scanner.tla for range   *)
(* reads, partitioned reads and compaction, and checked against the MVCC    *)
(* reference of KBDefs.tla over the full (never compacted) history.         *)
(*                                                                         *)
(* It serves C03 (reads = snapshot), C07 (compaction preserves reads, for   *)
(* every failure / crash position), C08 (floor), C13 (partition             *)
(* independence), C12/C16 (reference transcript of sequential histories)    *)
(* and C17 (expiry).  Its behaviours (hist) are replayed on every engine.   *)
(***************************************************************************)
EXTENDS Scanner, TLC, Json, SequencesExt

CONSTANTS
    Keys,          \* 1..N
    Vals,
    MaxOps,        \* length of the explored histories
    Base,          \* first revision is Base + 1
    ExpKinds,      \* SUBSET {"zero", "cur", "stale", "fut"}
    OpKinds,       \* SUBSET {"create", "update", "delete", "compact"}
    CompactKinds,  \* SUBSET {"zero", "cur", "cur-1", "cur-2", "old", "above"}
    EventKeys,     \* keys that are Event records (expire)
    Expiry,        \* TRUE: the engine has no native TTL, expiry happens inside compaction
    CompactAfter,  \* compaction requests are only issued after this many requests (generator bias; 0 in MC configs)
    DelFaultKinds, \* {} or SUBSET {"err", "cas", "die"}: a compaction may have one deletion fail / may be interrupted
    StreamBatch,   \* key-values per batch of a streamed range (300 in the code; 1 here makes every position a batch border)
    ErrIsAbsent,   \* FALSE (the code): an error of the iterator of a point lookup is an error, not "absent"
    ResetOnRestart,\* TRUE (the code): a worker that starts a partition over drops what it had collected
    StreamRestarts,\* FALSE (the code since D25): a worker whose iterator failed does not start over once a batch has been sent
    GenHist

VARIABLES idx, ver,     \* stored records
          hver,         \* ghost: every version ever written
          floor,        \* compaction record (0 = none)
          rev,          \* committed = dealt revision
          n,            \* operations done
          marks,        \* compaction marks (sequence of revisions, oldest first) -- C17
          expired,      \* ghost: set of keys removed by expiry
          lastFloors,   \* ghost: sequence of accepted compaction revisions
          hist
vars == <<idx, ver, hver, floor, rev, n, marks, expired, lastFloors, hist>>

KMin == MinS(Keys)
KMax == MaxS(Keys)

Init == /\ idx = [k \in Keys |-> NoIdx] /\ ver = [k \in Keys |-> {}] /\ hver = [k \in Keys |-> {}]
        /\ floor = 0 /\ rev = Base /\ n = 0 /\ marks = << >> /\ expired = {} /\ lastFloors = << >> /\ hist = << >>

H(o) == hist' = IF GenHist THEN Append(hist, o) ELSE hist

LatestK(k) == Latest(ver[k])
Live(k) == IsLive(LatestK(k))

ExpOf(kind, k) ==
    CASE kind = "zero"  -> 0
      [] kind = "cur"   -> IF LatestK(k) = NoVer THEN 1 ELSE LatestK(k).rev
      [] kind = "stale" -> IF LatestK(k) = NoVer \/ LatestK(k).rev <= 1 THEN 1 ELSE LatestK(k).rev - 1
      [] kind = "fut"   -> rev + 50

Put(k, r, v, del) ==
    /\ idx'  = [idx  EXCEPT ![k] = [rev |-> r, del |-> del]]
    /\ ver'  = [ver  EXCEPT ![k] = @ \cup {[rev |-> r, val |-> v]}]
    /\ hver' = [hver EXCEPT ![k] = @ \cup {[rev |-> r, val |-> v]}]

Resp(op, k, exp, v, succ, hdr, kvrev, kvval, err) ==
    [op |-> op, k |-> k, exp |-> exp, v |-> v, succ |-> succ, hdr |-> hdr, kvrev |-> kvrev, kvval |-> kvval, err |-> err]

\* create, or update with expectation 0                        txn.go:33-76, creator/naive.go
DoCreate(op, k, v) ==
    LET r == rev + 1  l == LatestK(k) IN
    /\ rev' = r
    /\ IF idx[k] = NoIdx \/ (idx[k].del /\ idx[k].rev < r)
       THEN /\ Put(k, r, v, FALSE) /\ H(Resp(op, k, 0, v, TRUE, r, 0, "-", ""))
       ELSE /\ UNCHANGED <<idx, ver, hver>>
            /\ IF op = "update" /\ IsLive(l)
               THEN H(Resp(op, k, 0, v, FALSE, IF l.rev > r THEN l.rev ELSE r, l.rev, l.val, ""))
               ELSE H(Resp(op, k, 0, v, FALSE, r, 0, "-", ""))

DoUpdate(k, v, exp) ==
    LET r == rev + 1  l == LatestK(k) IN
    /\ rev' = r
    /\ IF r < exp THEN UNCHANGED <<idx, ver, hver>> /\ H(Resp("update", k, exp, v, FALSE, 0, 0, "-", "drift"))
       ELSE IF idx[k] = [rev |-> exp, del |-> FALSE]
       THEN Put(k, r, v, FALSE) /\ H(Resp("update", k, exp, v, TRUE, r, 0, "-", ""))
       ELSE /\ UNCHANGED <<idx, ver, hver>>
            /\ IF IsLive(l) THEN H(Resp("update", k, exp, v, FALSE, IF l.rev > r THEN l.rev ELSE r, l.rev, l.val, ""))
                            ELSE H(Resp("update", k, exp, v, FALSE, r, 0, "-", ""))

DoDelete(k, exp) ==
    LET r == rev + 1  l == LatestK(k) IN
    /\ rev' = r
    /\ IF ~IsLive(l) THEN UNCHANGED <<idx, ver, hver>> /\ H(Resp("delete", k, exp, "-", FALSE, r, 0, "-", ""))
       ELSE IF r < exp THEN UNCHANGED <<idx, ver, hver>> /\ H(Resp("delete", k, exp, "-", FALSE, 0, 0, "-", "drift"))
       ELSE IF exp > 0 /\ exp # l.rev
       THEN UNCHANGED <<idx, ver, hver>> /\ H(Resp("delete", k, exp, "-", FALSE, IF l.rev > r THEN l.rev ELSE r, l.rev, l.val, ""))
       ELSE IF idx[k] = [rev |-> l.rev, del |-> FALSE]
       THEN Put(k, r, TOMB, TRUE) /\ H(Resp("delete", k, exp, "-", TRUE, r, l.rev, l.val, ""))
       ELSE UNCHANGED <<idx, ver, hver>> /\ H(Resp("delete", k, exp, "-", FALSE, IF l.rev > r THEN l.rev ELSE r, l.rev, l.val, ""))

Write ==
    /\ n < MaxOps
    /\ n' = n + 1
    /\ \E k \in Keys :
         \/ ("create" \in OpKinds /\ \E v \in Vals : DoCreate("create", k, v))
         \/ ("update" \in OpKinds /\ \E v \in Vals, e \in ExpKinds :
                IF ExpOf(e, k) = 0 THEN DoCreate("update", k, v) ELSE DoUpdate(k, v, ExpOf(e, k)))
         \/ ("delete" \in OpKinds /\ \E e \in ExpKinds : DoDelete(k, ExpOf(e, k)))
    /\ UNCHANGED <<floor, marks, expired, lastFloors>>

\* ---- compaction                                              compact.go, scanner.go
ReqRev(kind) ==
    CASE kind = "zero"  -> 0
      [] kind = "cur"   -> rev
      [] kind = "cur-1" -> IF rev > Base + 1 THEN rev - 1 ELSE rev
      [] kind = "cur-2" -> IF rev > Base + 2 THEN rev - 2 ELSE rev
      [] kind = "old"   -> Base + 1
      [] kind = "above" -> rev + 7

Clamp(req) == IF req = 0 \/ req > rev THEN rev ELSE req

\* the timeout revision: with Expiry, every mark older than the TTL is consumed and the newest of
\* them is used; aged = how many of the OLDEST marks have aged beyond the TTL (the explored
\* behaviours let either none or all of them age between two requests)
TimeoutRev(aged) == IF aged = 0 THEN 0 ELSE marks[aged]

MaxDels == 3 * Cardinality(Keys) + MaxOps
\* crash = number of deletions attempted before the compactor dies (MaxDels = never dies);
\* bad = index of the one deletion that fails (0 = none) with outcome fk
CompactF(kind, aged, crash, bad, fk) ==
    LET R == Clamp(ReqRev(kind))
        texp == IF Expiry THEN TimeoutRev(aged) ELSE 0
        run == WorkerRun(Records(idx, ver, KMin, KMax + 1), R, 0, TRUE, texp, EventKeys)
        m == Len(run.dels)
        fate == [i \in 1..m |-> IF i = bad THEN fk ELSE "ok"]
        st == ApplyDeletes(idx, ver, run.dels, fate, 1, IF crash > m THEN m ELSE crash, 0) IN
    /\ n < MaxOps /\ n' = n + 1
    /\ (crash <= m \/ crash = MaxDels) /\ bad <= m
    /\ idx' = st.idx /\ ver' = st.ver
    /\ floor' = IF R > floor THEN R ELSE floor
    /\ marks' = SubSeq(Append(marks, R), aged + 1, Len(marks) + 1)
    /\ expired' = expired \cup {k \in EventKeys : texp > 0 /\ st.idx[k] = NoIdx /\ st.ver[k] = {} /\ (idx[k] # NoIdx \/ ver[k] # {})}
    /\ lastFloors' = Append(lastFloors, floor')
    /\ H([op |-> "compact", req |-> ReqRev(kind), hdr |-> R, aged |-> aged, floor |-> floor', texp |-> texp,
          crash |-> crash, bad |-> bad, fk |-> fk, ndels |-> m])
    /\ UNCHANGED <<hver, rev>>

Compact(kind, aged) ==
    IF DelFaultKinds = {}
    THEN CompactF(kind, aged, MaxDels, 0, "ok")
    ELSE \/ CompactF(kind, aged, MaxDels, 0, "ok")
         \/ \E crash \in 0..MaxDels : ("die" \in DelFaultKinds /\ CompactF(kind, aged, crash, 0, "ok"))
         \/ \E bad \in 1..MaxDels, fk \in DelFaultKinds \ {"die"} : CompactF(kind, aged, MaxDels, bad, fk)

\* End: the single successor of a complete history (so that a generator prints it exactly once)
End == n = MaxOps /\ n' = MaxOps + 1 /\ UNCHANGED <<idx, ver, hver, floor, rev, marks, expired, lastFloors, hist>>
Next ==
    \/ End
    \/ Write
    \/ ("compact" \in OpKinds /\ n >= CompactAfter /\ \E kind \in CompactKinds : \E aged \in (IF Expiry THEN {0, Len(marks)} ELSE {0}) : Compact(kind, aged))

Spec == Init /\ [][Next]_vars

-----------------------------------------------------------------------------
\* PROPERTIES

Revs == (Base + 1)..rev
Bounds == KMin..(KMax + 1)
Recs == Records(idx, ver, KMin, KMax + 1)

\* the reference history: versions of expired Event keys are gone for good
RefVer == [k \in Keys |-> IF k \in expired THEN {v \in hver[k] : \E u \in ver[k] : u.rev = v.rev} ELSE hver[k]]

\* ---- C03: a read at R >= floor returns the MVCC snapshot at R
ToKvs(res) == res
ScanIsSnapshot ==
    \A R \in Revs : R >= floor =>
        \A lo \in Bounds, hi \in Bounds : lo < hi =>
            \A lim \in 0..(Cardinality(Keys) + 1) :
                RangeLimited(Slice(Recs, <<lo, 0>>, <<hi, 0>>), R, lim) = RangeRef(RefVer, Keys, R, lo, hi, lim)

\* point read: descending lookup from (k, R), first hit            range.go:91-121
PointRead(k, R) ==
    LET c == {v \in ver[k] : R = 0 \/ v.rev <= R} IN
    IF c = {} THEN [found |-> FALSE, rev |-> 0, val |-> "-"]
    ELSE LET v == CHOOSE v \in c : \A w \in c : w.rev <= v.rev IN
         IF v.val = TOMB THEN [found |-> FALSE, rev |-> 0, val |-> "-"] ELSE [found |-> TRUE, rev |-> v.rev, val |-> v.val]
\* the same lookup when the first Next of its iterator fails (a timeout, a region error): the code passes the error on; only
\* the end of the iteration means "absent". ErrIsAbsent = TRUE is the lookup that answers "absent" for any error.
PointReadFaulty(k, R) ==
    IF ErrIsAbsent THEN [err |-> FALSE, res |-> [found |-> FALSE, rev |-> 0, val |-> "-"]]
    ELSE [err |-> TRUE, res |-> [found |-> FALSE, rev |-> 0, val |-> "-"]]
PointFaultInvariant ==
    \A k \in Keys : \A R \in Revs \cup {0} : (R = 0 \/ R >= floor) =>
        LET a == PointReadFaulty(k, R) IN ~a.err => a.res = PointRef(RefVer, k, R)
PointIsSnapshot ==
    \A k \in Keys : \A R \in Revs \cup {0} : (R = 0 \/ R >= floor) => PointRead(k, R) = PointRef(RefVer, k, R)

IndexAgrees == \A k \in Keys : Writable(idx[k], ver[k])

\* ---- C08
FloorMonotone == \A i \in 1..Len(lastFloors) : i > 1 => lastFloors[i] >= lastFloors[i - 1]
FloorAccepted == lastFloors # << >> => floor = lastFloors[Len(lastFloors)]

\* ---- C13: for every placement of <= 2 borders on stored or well-formed internal keys
Positions == {<<k, r>> : k \in Keys, r \in {0} \cup Revs}
PartitionInvariant ==
    \A R \in Revs : R >= floor =>
        LET whole == WorkerRun(Recs, R, 0, FALSE, 0, {}).out IN
        /\ \A b1 \in Positions : PartitionedRun(Recs, <<KMin, 0>>, <<KMax + 1, 0>>, <<b1>>, R) = whole
        /\ \A b1 \in Positions, b2 \in Positions :
              PosLess(b1, b2) => PartitionedRun(Recs, <<KMin, 0>>, <<KMax + 1, 0>>, <<b1, b2>>, R) = whole
\* streamed ranges over the ADVERTISED (aligned) partitions: every key exactly once
StreamInvariant ==
    \A R \in Revs : R >= floor =>
        LET whole == WorkerRun(Recs, R, 0, FALSE, 0, {}).out IN
        \A b1 \in Positions :
            LET a == AdjustBorder(b1) IN
            StreamRun(Recs, <<KMin, 0>>, a, R) \o StreamRun(Recs, a, <<KMax + 1, 0>>, R) = whole

\* ... also when the iterator of a worker fails once, anywhere, with batches of StreamBatch key-values: a stream that ends
\* without error carries every key exactly once; one that ends with an error carries no key twice
StreamFaultInvariant ==
    \A R \in Revs : R >= floor =>
        LET whole == WorkerRun(Recs, R, 0, FALSE, 0, {}).out IN
        \A f \in 0..Len(Recs) :
            LET s == StreamWithFault(Recs, R, StreamBatch, f, StreamRestarts) IN
            /\ NoDup(s.out)
            /\ (~s.err => s.out = whole)
            /\ ListWithFault(Recs, R, f, ResetOnRestart) = whole

\* ---- C07: compaction at R, interrupted after any number of deletions and with any single
\* deletion failing (certain error => key skipped; failed compare => only that deletion),
\* leaves every read at R' >= R unchanged
SnapAll(vr, R) == [k \in Keys |-> LET v == NewestLE(vr[k], R) IN IF IsLive(v) THEN v ELSE NoVer]
CompactionSafeAt(R) ==
    LET run == WorkerRun(Recs, R, 0, TRUE, 0, {})
        m == Len(run.dels) IN
    \A crash \in 0..m : \A bad \in 0..m : \A kind \in {"err", "cas"} :
        LET fate == [i \in 1..m |-> IF i = bad THEN kind ELSE "ok"]
            st == ApplyDeletes(idx, ver, run.dels, fate, 1, crash, 0) IN
        /\ \A R2 \in R..rev : SnapAll(st.ver, R2) = SnapAll(ver, R2)
        /\ \A k \in Keys : (st.idx[k] = NoIdx /\ idx[k] # NoIdx) => idx[k].del    \* only tombstoned indexes go
        /\ \A k \in Keys : Writable(st.idx[k], st.ver[k])
CompactionSafe == \A R \in Revs : R >= floor => CompactionSafeAt(R)

\* ---- C17 (with Expiry): only Event keys expire, wholly
OnlyEventsExpire == expired \subseteq EventKeys
\* an expired key is gone wholly (index and every version) unless it was written again afterwards;
\* either way index and versions stay consistent (the key is writable / re-creatable)
ExpiredAbsent == \A k \in EventKeys : Writable(idx[k], ver[k])
NonEventsKeepHistory ==
    \A k \in Keys \ EventKeys : \A R \in Revs : R >= floor =>
        (LET v == NewestLE(ver[k], R) w == NewestLE(hver[k], R) IN IsLive(w) => v = w)

-----------------------------------------------------------------------------
Behaviour == [base |-> Base, nkeys |-> Cardinality(Keys), ops |-> hist, final |-> [idx |-> idx, ver |-> ver, floor |-> floor, rev |-> rev]]
Done == n = MaxOps + 1
Dump == Done => PrintT(<<"BEHAVIOUR", ToJson(Behaviour)>>)
View == <<idx, ver, hver, floor, rev, n, marks, expired>>
=============================================================================
