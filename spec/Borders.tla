------------------------------ MODULE Borders ------------------------------
(***************************************************************************)
(* C07, last sentence: "keys outside the configured compaction ranges are   *)
(* not touched".  backend.getCompactBorders (compact.go:107-127) turns the   *)
(* prefix and the skipped prefixes into scan ranges: it collects the two     *)
(* borders [p/, PrefixEnd(p/)) of every prefix, sorts all borders and scans  *)
(* between border 1 and 2, 3 and 4, ...                                      *)
(*                                                                         *)
(* Prefixes form a tree, so their intervals are nested or disjoint.  The    *)
(* model takes a small laminar family of intervals over key positions:      *)
(* the main prefix, prefixes below it (also nested ones), and one sibling    *)
(* that passes option.Validate because the main prefix is a STRING prefix   *)
(* of it ("/registry" and "/registry2").  TLC enumerates every list of up   *)
(* to MaxSkipped skipped prefixes (repetitions allowed: the flag can be      *)
(* given twice) and compares the ranges the code scans with the ranges the  *)
(* configuration means: under the main prefix and under no skipped prefix.  *)
(***************************************************************************)
EXTENDS Integers, Sequences, FiniteSets, TLC, Json

CONSTANTS MaxSkipped,
          Pairing,      \* "cursor": the code (compact.go:107-150, after the repair of D22);
                        \* "sorted-pairs": the code before the repair -- all borders sorted and paired two by two
          GenHist

\* intervals [lo, hi) over positions; Main is the prefix the backend is in charge of
Main == <<1, 9>>
Family == { <<2, 4>>, <<4, 8>>, <<5, 7>>, <<2, 3>>, <<9, 11>> }    \* <<9,11>>: the sibling "/registry2"
Keys == 1..10
Under(k, iv) == iv[1] <= k /\ k < iv[2]

VARIABLES skipped, done
vars == <<skipped, done>>
Init == skipped \in UNION {[1..n -> Family] : n \in 0..MaxSkipped} /\ done = FALSE
Next == ~done /\ done' = TRUE /\ UNCHANGED skipped

\* ---- the code: all borders, sorted, paired
Borders == <<Main[1], Main[2]>> \o [i \in 1..(2 * Len(skipped)) |-> skipped[(i + 1) \div 2][IF i % 2 = 1 THEN 1 ELSE 2]]
RECURSIVE AscSort(_)
AscSort(s) == IF s = << >> THEN << >>
              ELSE LET m == CHOOSE i \in 1..Len(s) : \A j \in 1..Len(s) : s[i] <= s[j] IN
                   <<s[m]>> \o AscSort([j \in 1..(Len(s) - 1) |-> IF j < m THEN s[j] ELSE s[j + 1]])
Sorted == AscSort(Borders)
CodeRanges == [i \in 1..(Len(Sorted) \div 2) |-> <<Sorted[2 * i - 1], Sorted[2 * i]>>]
CodeScans(k) == \E i \in 1..Len(CodeRanges) : Under(k, CodeRanges[i])

\* ---- what the configuration means
Meant(k) == Under(k, Main) /\ \A i \in 1..Len(skipped) : ~Under(k, skipped[i])

\* ---- the repaired code: skipped ranges below the main prefix in key order; a cursor walks from the start of
\* the main range; what lies between the cursor and the next skipped range is scanned; a range that ends at or
\* before the cursor (nested in or equal to an earlier one) changes nothing
Below == SelectSeq(skipped, LAMBDA iv : Main[1] <= iv[1] /\ iv[2] <= Main[2])
RECURSIVE SortIv(_)
SortIv(s) == IF s = << >> THEN << >>
             ELSE LET m == CHOOSE i \in 1..Len(s) : \A j \in 1..Len(s) : s[i][1] <= s[j][1] IN
                  <<s[m]>> \o SortIv([j \in 1..(Len(s) - 1) |-> IF j < m THEN s[j] ELSE s[j + 1]])
RECURSIVE Walk(_, _, _)
Walk(cur, rest, acc) ==
    IF rest = << >> THEN (IF cur < Main[2] THEN Append(acc, <<cur, Main[2]>>) ELSE acc)
    ELSE LET iv == Head(rest) IN
         IF iv[2] <= cur THEN Walk(cur, Tail(rest), acc)
         ELSE Walk(iv[2], Tail(rest), IF iv[1] > cur THEN Append(acc, <<cur, iv[1]>>) ELSE acc)
CursorRanges == Walk(Main[1], SortIv(Below), << >>)
CursorScans(k) == \E i \in 1..Len(CursorRanges) : Under(k, CursorRanges[i])

Scans(k) == IF Pairing = "sorted-pairs" THEN CodeScans(k) ELSE CursorScans(k)
OnlyConfiguredRanges == \A k \in Keys : Scans(k) => Meant(k)
AllConfiguredRanges  == \A k \in Keys : Meant(k) => Scans(k)
\* the configurations for which the pairing is right: skipped prefixes below the main prefix, pairwise disjoint
WellFormed == /\ \A i \in 1..Len(skipped) : Main[1] <= skipped[i][1] /\ skipped[i][2] <= Main[2]
              /\ \A i, j \in 1..Len(skipped) : i # j => (skipped[i][2] <= skipped[j][1] \/ skipped[j][2] <= skipped[i][1])
RightWhenWellFormed == WellFormed => (\A k \in Keys : CodeScans(k) <=> Meant(k))

Dump == done => PrintT(<<"BEHAVIOUR", ToJson([skipped |-> skipped, scans |-> {k \in Keys : Scans(k)}, meant |-> {k \in Keys : Meant(k)}])>>)
=============================================================================
