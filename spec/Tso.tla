-------------------------------- MODULE Tso --------------------------------
(***************************************************************************)
(* C02: "every write attempt is stamped with a revision no other attempt    *)
(* ever receives" -- the revision allocator on its own                       *)
(* (pkg/backend/tso/tso.go), with the calls that reach it from several       *)
(* goroutines: Deal (every write attempt; one atomic add) and Commit         *)
(* (the sequencer, the election callback and the follower's revision sync    *)
(* all end in SetCurrentRevision).  Commit publishes the revision and then,  *)
(* "in case of leader transfer", lifts the allocator to it when it is        *)
(* behind: it loads the allocator, compares, and swaps only if the           *)
(* allocator is still what it loaded -- two steps, and Deals can fall        *)
(* between them.                                                             *)
(***************************************************************************)
EXTENDS Integers, Sequences, FiniteSets, TLC, Json

CONSTANTS Dealers, Committers, MaxDeals,
          Ahead,      \* how far above the allocator a Commit may name its revision (e.g. {0, 2, 3})
          CasCommit,  \* TRUE (the code): compare-and-swap against the value loaded; FALSE: a plain store
          GenHist

VARIABLES dealt,     \* the allocator
          committed, \* the published revision
          got,       \* the revisions handed out, in order: sequence of [p, v]
          cpc, cpre, cval, \* per committer: "idle" / "loaded" / "done"; the allocator value it loaded; its revision
          hist
vars == <<dealt, committed, got, cpc, cpre, cval, hist>>

Init == /\ dealt = 0 /\ committed = 0 /\ got = << >>
        /\ cpc = [c \in Committers |-> "idle"] /\ cpre = [c \in Committers |-> 0] /\ cval = [c \in Committers |-> 0]
        /\ hist = << >>
H(o) == hist' = IF GenHist THEN Append(hist, o) ELSE hist

Deal(p) == /\ Len(got) < MaxDeals
           /\ dealt' = dealt + 1
           /\ got' = Append(got, [p |-> p, v |-> dealt + 1])
           /\ H([a |-> "Deal", p |-> p, v |-> dealt + 1])
           /\ UNCHANGED <<committed, cpc, cpre, cval>>
\* first half of Commit: publish, load the allocator                         yield point: tso.commit
CommitVal(c, d) == dealt + d
CommitLoad(c) == /\ cpc[c] = "idle"
                  /\ \E d \in Ahead :
                       /\ committed' = IF CommitVal(c, d) > committed THEN CommitVal(c, d) ELSE committed   \* never moves back (D27)
                       /\ cval' = [cval EXCEPT ![c] = CommitVal(c, d)]
                       /\ cpre' = [cpre EXCEPT ![c] = dealt]
                       /\ H([a |-> "CommitLoad", p |-> c, v |-> CommitVal(c, d)])
                  /\ cpc' = [cpc EXCEPT ![c] = "loaded"]
                  /\ UNCHANGED <<dealt, got>>
\* second half: lift the allocator if it was behind
CommitCas(c) == /\ cpc[c] = "loaded"
                /\ dealt' = IF cpre[c] < cval[c]
                            THEN (IF CasCommit THEN (IF dealt = cpre[c] THEN cval[c] ELSE dealt) ELSE cval[c])
                            ELSE dealt
                /\ cpc' = [cpc EXCEPT ![c] = "done"]
                /\ H([a |-> "CommitCas", p |-> c, v |-> cval[c]])
                /\ UNCHANGED <<committed, got, cpre, cval>>

Next == (\E p \in Dealers : Deal(p)) \/ (\E c \in Committers : CommitLoad(c) \/ CommitCas(c))
Spec == Init /\ [][Next]_vars

\* no revision is handed out twice; along one dealer they increase
UniqueDeals == \A i, j \in 1..Len(got) : i # j => got[i].v # got[j].v
DealsIncrease == \A i, j \in 1..Len(got) : i < j => got[i].v < got[j].v
\* the allocator never goes back, and neither does the published revision
AllocatorMonotone == [][dealt' >= dealt /\ committed' >= committed]_vars

Done == Len(got) = MaxDeals /\ \A c \in Committers : cpc[c] = "done"
Dump == Done => PrintT(<<"BEHAVIOUR", ToJson([steps |-> hist])>>)
=============================================================================
