------------------------------ MODULE Requests ------------------------------
(***************************************************************************)
(* C20: the abstract request space of both APIs.  A request is a handler    *)
(* name plus one CLASS per field; the conformance harness instantiates every *)
(* class with concrete bytes / numbers and sends the request to the real     *)
(* handler of one long-lived node that runs with the real Prometheus client. *)
(*                                                                          *)
(* Obligations (judged on the recorded trace by TraceRequests.tla):          *)
(*   Answered    every request gets a response or an error -- never a panic  *)
(*   StillLive   after ANY request sequence a fresh create is acknowledged,  *)
(*               becomes readable and the committed revision reaches it      *)
(*   MetricLabelsConsistent  a metric name is always emitted with the same   *)
(*               set of label names                                          *)
(* and, for the requests whose fate the handlers' validation fixes,          *)
(*   Validated   malformed requests are rejected with an error                *)
(***************************************************************************)
EXTENDS Integers, Sequences, FiniteSets, TLC, Json

KeyClass   == {"empty", "normal", "ff", "lowbytes", "dollar", "nomagic"}
ValClass   == {"empty", "normal", "marker"}
RevClass   == {"zero", "past", "current", "future", "negative", "magic"}
EndClass   == {"empty", "below", "equal", "normal", "ff"}
LimitClass == {"zero", "small", "huge", "negative"}
TxnClass   == {"create", "update", "delete", "delete0", "compact", "empty", "mismatch", "twocmp", "putonly", "nested"}

\* a fault of the storage engine while the request runs (one call of that kind fails): the request must still be answered --
\* with an error or a response --, no metric may be emitted with another label set on the error path, and the node goes on
FaultClass == {"iteropen", "next", "get", "commit", "del"}
Faulted ==
       [h : {"etcd.Txn"}, txn : {"create", "update", "delete", "delete0"}, key : {"normal"}, val : {"normal"}, rev : {"current"}, fault : FaultClass]
  \cup [h : {"etcd.Range"}, key : {"normal"}, end : {"empty", "normal"}, rev : {"zero", "past"}, limit : {"zero", "small"}, countonly : BOOLEAN, fault : FaultClass]
  \cup [h : {"brain.Create"}, key : {"normal"}, val : {"normal"}, fault : FaultClass]
  \cup [h : {"brain.Delete", "brain.Get"}, key : {"normal"}, rev : {"zero", "current"}, fault : FaultClass]
  \cup [h : {"brain.Compact"}, rev : {"current"}, fault : FaultClass]
  \cup [h : {"brain.Range", "brain.RangeStream"}, key : {"normal"}, end : {"normal"}, rev : {"zero"}, limit : {"zero", "small"}, fault : FaultClass]
  \cup [h : {"brain.Count"}, key : {"normal"}, end : {"normal"}, fault : FaultClass]

\* request space, by handler
Reqs == Faulted \cup
       [h : {"etcd.Txn"}, txn : TxnClass, key : KeyClass, val : ValClass, rev : RevClass]
  \cup [h : {"etcd.Range"}, key : KeyClass, end : EndClass, rev : RevClass, limit : LimitClass, countonly : BOOLEAN]
  \cup [h : {"etcd.Watch"}, key : KeyClass, end : EndClass, rev : RevClass, msg : {"create", "cancel", "none"}]
  \cup [h : {"etcd.Compact", "etcd.Put", "etcd.DeleteRange"}, key : {"normal"}, rev : RevClass]
  \cup [h : {"brain.Create"}, key : KeyClass, val : ValClass]
  \cup [h : {"brain.Update"}, key : KeyClass, val : ValClass, rev : RevClass, kvnil : BOOLEAN]
  \cup [h : {"brain.Delete"}, key : KeyClass, rev : RevClass]
  \cup [h : {"brain.Compact"}, rev : RevClass]
  \cup [h : {"brain.Get"}, key : KeyClass, rev : RevClass]
  \cup [h : {"brain.Range", "brain.RangeStream"}, key : KeyClass, end : EndClass, rev : RevClass, limit : LimitClass]
  \cup [h : {"brain.Count", "brain.ListPartition"}, key : KeyClass, end : EndClass]
  \cup [h : {"brain.Watch"}, key : KeyClass, rev : RevClass]

\* requests the handlers' own validation must reject (pkg/server/brain/*.go, backend/range.go)
MustReject(r) ==
    CASE r.h = "brain.Create" -> r.key = "empty" \/ r.val = "empty"
      [] r.h = "brain.Update" -> r.kvnil \/ r.key = "empty" \/ r.val = "empty"
      [] r.h \in {"brain.Delete", "brain.Get", "brain.Watch"} -> r.key = "empty"
      [] r.h = "brain.Compact" -> r.rev = "zero"
      [] r.h \in {"brain.Range", "brain.Count", "brain.ListPartition", "brain.RangeStream"} -> r.key = "empty" \/ r.end = "empty"
      [] r.h \in {"etcd.Put", "etcd.DeleteRange"} -> TRUE
      [] r.h = "etcd.Txn" -> r.txn \in {"empty", "mismatch", "twocmp", "putonly", "nested"}
      [] OTHER -> FALSE

VARIABLE req
Init == req \in Reqs
Next == UNCHANGED req
Dump == PrintT(<<"BEHAVIOUR", ToJson(req)>>)
\* sanity of the space itself
EveryHandlerHasAcceptableRequests == \A h \in {r.h : r \in Reqs} \ {"etcd.Put", "etcd.DeleteRange"} : \E r \in Reqs : r.h = h /\ ~MustReject(r)
=============================================================================
