------------------------------ MODULE Requests ------------------------------
(***************************************************************************)
(* C20: the abstract request space of both APIs.  A request is a handler    *)
(* name plus one CLASS per field; the conformance harness instantiates every *)
(* class with concrete bytes / numbers and sends the request to the real     *)
(* handler of one long-lived node that runs with the real Prometheus client. *)
(*                                                                          *)
(* Obligations (judged on the recorded trace by TraceRequests.tla):          *)
(*   Answered    every request gets a response or an error -- never a panic  *)
(*   StillLive   after ANY request sequence a fresh create is acknowledged,  *)
(*               becomes readable and the committed revision reaches it      *)
(*   MetricLabelsConsistent  a metric name is always emitted with the same   *)
(*               set of label names                                          *)
(* and, for the requests whose fate the handlers' validation fixes,          *)
(*   Validated   malformed requests are rejected with an error                *)
(***************************************************************************)
EXTENDS Integers, Sequences, FiniteSets, TLC, Json

KeyClass   == {"empty", "normal", "ff", "lowbytes", "dollar", "nomagic"}
ValClass   == {"empty", "normal", "marker"}
RevClass   == {"zero", "past", "current", "future", "negative", "magic"}
EndClass   == {"empty", "below", "equal", "normal", "ff"}
LimitClass == {"zero", "small", "huge", "negative"}
TxnClass   == {"create", "update", "delete", "delete0", "compact", "empty", "mismatch", "twocmp", "putonly", "nested"}

\* request space, by handler
Reqs ==
       [h : {"etcd.Txn"}, txn : TxnClass, key : KeyClass, val : ValClass, rev : RevClass]
  \cup [h : {"etcd.Range"}, key : KeyClass, end : EndClass, rev : RevClass, limit : LimitClass, countonly : BOOLEAN]
  \cup [h : {"etcd.Watch"}, key : KeyClass, end : EndClass, rev : RevClass, msg : {"create", "cancel", "none"}]
  \cup [h : {"etcd.Compact", "etcd.Put", "etcd.DeleteRange"}, key : {"normal"}, rev : RevClass]
  \cup [h : {"brain.Create"}, key : KeyClass, val : ValClass]
  \cup [h : {"brain.Update"}, key : KeyClass, val : ValClass, rev : RevClass, kvnil : BOOLEAN]
  \cup [h : {"brain.Delete"}, key : KeyClass, rev : RevClass]
  \cup [h : {"brain.Compact"}, rev : RevClass]
  \cup [h : {"brain.Get"}, key : KeyClass, rev : RevClass]
  \cup [h : {"brain.Range", "brain.RangeStream"}, key : KeyClass, end : EndClass, rev : RevClass, limit : LimitClass]
  \cup [h : {"brain.Count", "brain.ListPartition"}, key : KeyClass, end : EndClass]
  \cup [h : {"brain.Watch"}, key : KeyClass, rev : RevClass]

\* requests the handlers' own validation must reject (pkg/server/brain/*.go, backend/range.go)
MustReject(r) ==
    CASE r.h = "brain.Create" -> r.key = "empty" \/ r.val = "empty"
      [] r.h = "brain.Update" -> r.kvnil \/ r.key = "empty" \/ r.val = "empty"
      [] r.h \in {"brain.Delete", "brain.Get", "brain.Watch"} -> r.key = "empty"
      [] r.h = "brain.Compact" -> r.rev = "zero"
      [] r.h \in {"brain.Range", "brain.Count", "brain.ListPartition", "brain.RangeStream"} -> r.key = "empty" \/ r.end = "empty"
      [] r.h \in {"etcd.Put", "etcd.DeleteRange"} -> TRUE
      [] r.h = "etcd.Txn" -> r.txn \in {"empty", "mismatch", "twocmp", "putonly", "nested"}
      [] OTHER -> FALSE

VARIABLE req
Init == req \in Reqs
Next == UNCHANGED req
Dump == PrintT(<<"BEHAVIOUR", ToJson(req)>>)
\* sanity of the space itself
EveryHandlerHasAcceptableRequests == \A h \in {r.h : r \in Reqs} \ {"etcd.Put", "etcd.DeleteRange"} : \E r \in Reqs : r.h = h /\ ~MustReject(r)
=============================================================================
