------------------------------ MODULE Etcd ------------------------------
(***************************************************************************)
(* C16: the etcd-facing transaction endpoint.                               *)
(*   Shape   transcription of the recognisers isCreate / isDelete /         *)
(*           isUpdate / isCompact of pkg/server/etcd/kv.go                  *)
(*   KB      what kubebrain executes for a recognised shape                 *)
(*   Ref     what etcd semantics prescribe for the same transaction         *)
(* TLC enumerates every structurally valid transaction of the bounded       *)
(* space over every small store and checks that a recognised transaction    *)
(* is executed exactly as etcd would, and that everything else is rejected. *)
(***************************************************************************)
EXTENDS Integers, Sequences, FiniteSets, TLC, Json

CONSTANTS Keys,        \* user keys, e.g. {1, 2}
          CompactKey,  \* stands for "compact_rev_key"
          RevSpace,    \* revisions a compare may name
          MaxCmp, MaxSucc, MaxFail,
          StrictKeys   \* TRUE: recognisers require the keys of compare / success / failure to agree
                       \*       and a guarded delete to name a revision > 0 (the repaired recognisers)

AllKeys == Keys \cup {CompactKey}
Cmp == [target : {"MOD", "VERSION", "CREATE"}, result : {"EQUAL", "GREATER"}, key : AllKeys, rev : RevSpace]
Op  == [kind : {"put", "range", "delrange"}, key : AllKeys]
SeqsUpTo(S, n) == UNION {[1..m -> S] : m \in 0..n}
Txn == [cmp : SeqsUpTo(Cmp, MaxCmp), succ : SeqsUpTo(Op, MaxSucc), fail : SeqsUpTo(Op, MaxFail)]

\* a store: key -> [mod, val] (mod = 0: absent)
Absent == [mod |-> 0, val |-> "-"]
Stores == [Keys -> {Absent, [mod |-> 2, val |-> "a"], [mod |-> 4, val |-> "b"]}]
Cur == 5      \* the committed revision; a write gets Cur + 1

-----------------------------------------------------------------------------
\* the recognisers, in the order Txn() tries them                         kv.go:160-221
IsCreate(t) ==
    /\ Len(t.cmp) = 1 /\ t.cmp[1].target = "MOD" /\ t.cmp[1].result = "EQUAL" /\ t.cmp[1].rev = 0
    /\ Len(t.fail) = 0 /\ Len(t.succ) = 1 /\ t.succ[1].kind = "put"
    /\ (StrictKeys => t.cmp[1].key = t.succ[1].key)
IsDeleteUnguarded(t) ==
    /\ Len(t.cmp) = 0 /\ Len(t.fail) = 0 /\ Len(t.succ) = 2
    /\ t.succ[1].kind = "range" /\ t.succ[2].kind = "delrange"
    /\ (StrictKeys => t.succ[1].key = t.succ[2].key)
IsDeleteGuarded(t) ==
    /\ Len(t.cmp) = 1 /\ t.cmp[1].target = "MOD" /\ t.cmp[1].result = "EQUAL"
    /\ Len(t.fail) = 1 /\ t.fail[1].kind = "range"
    /\ Len(t.succ) = 1 /\ t.succ[1].kind = "delrange"
    /\ (StrictKeys => (t.cmp[1].key = t.succ[1].key /\ t.fail[1].key = t.succ[1].key /\ t.cmp[1].rev > 0))
IsUpdate(t) ==
    /\ Len(t.cmp) = 1 /\ t.cmp[1].target = "MOD" /\ t.cmp[1].result = "EQUAL"
    /\ Len(t.succ) = 1 /\ t.succ[1].kind = "put"
    /\ Len(t.fail) = 1 /\ t.fail[1].kind = "range"
    /\ (StrictKeys => (t.cmp[1].key = t.succ[1].key /\ t.fail[1].key = t.succ[1].key))
IsCompact(t) ==
    /\ Len(t.cmp) = 1 /\ t.cmp[1].target = "VERSION" /\ t.cmp[1].result = "EQUAL"
    /\ Len(t.succ) = 1 /\ t.succ[1].kind = "put"
    /\ Len(t.fail) = 1 /\ t.fail[1].kind = "range"
    /\ t.cmp[1].key = CompactKey

Shape(t) == IF IsCreate(t) THEN "create"
            ELSE IF IsDeleteUnguarded(t) THEN "delete0"
            ELSE IF IsDeleteGuarded(t) THEN "delete"
            ELSE IF IsUpdate(t) THEN "update"
            ELSE IF IsCompact(t) THEN "compact"
            ELSE "unsupported"

\* ---- what kubebrain executes: [succ, store, kv (failure-branch / previous kv), err]
Get(st, k) == IF k \in Keys THEN st[k] ELSE Absent
PutK(st, k) == IF k \in Keys THEN [st EXCEPT ![k] = [mod |-> Cur + 1, val |-> "v"]] ELSE st
DelK(st, k) == IF k \in Keys THEN [st EXCEPT ![k] = Absent] ELSE st
R(succ, st, kv, err) == [succ |-> succ, store |-> st, kv |-> kv, err |-> err]

KB(t, st) ==
    LET s == Shape(t) IN
    CASE s = "create" ->      \* Create(put): key and value of the put
            LET k == t.succ[1].key IN
            IF Get(st, k) = Absent THEN R(TRUE, PutK(st, k), Absent, FALSE) ELSE R(FALSE, st, Absent, FALSE)
      [] s = "update" ->      \* Update(rev, key OF THE COMPARE, value of the put)
            LET k == t.cmp[1].key  rev == t.cmp[1].rev IN
            IF rev = 0
            THEN (IF Get(st, k) = Absent THEN R(TRUE, PutK(st, k), Absent, FALSE) ELSE R(FALSE, st, Get(st, k), FALSE))
            ELSE IF rev > Cur + 1 THEN R(FALSE, st, Absent, TRUE)                 \* expectation from the future: error
            ELSE (IF Get(st, k).mod = rev THEN R(TRUE, PutK(st, k), Absent, FALSE) ELSE R(FALSE, st, Get(st, k), FALSE))
      [] s = "delete" ->      \* Delete(key of the delete-range, revision of the compare); revision 0 = "the latest"
            LET k == t.succ[1].key  rev == t.cmp[1].rev IN
            IF Get(st, k) = Absent THEN R(FALSE, st, Absent, FALSE)
            ELSE IF rev > Cur + 1 THEN R(FALSE, st, Absent, TRUE)
            ELSE IF rev = 0 \/ Get(st, k).mod = rev THEN R(TRUE, DelK(st, k), Get(st, k), FALSE)
            ELSE R(FALSE, st, Get(st, k), FALSE)
      [] s = "delete0" ->
            LET k == t.succ[2].key IN
            IF Get(st, k) = Absent THEN R(FALSE, st, Absent, FALSE) ELSE R(TRUE, DelK(st, k), Get(st, k), FALSE)
      [] s = "compact" -> R(FALSE, st, Absent, FALSE)
      [] OTHER -> R(FALSE, st, Absent, TRUE)

\* ---- what etcd semantics prescribe
Holds(c, st) ==
    LET kv == Get(st, c.key)
        lhs == CASE c.target = "MOD" -> kv.mod
                 [] c.target = "CREATE" -> kv.mod              \* (abstract: created where last modified)
                 [] c.target = "VERSION" -> IF kv = Absent THEN 0 ELSE 1 IN
    IF c.result = "EQUAL" THEN lhs = c.rev ELSE lhs > c.rev
RECURSIVE Exec(_, _)
Exec(ops, st) == IF ops = << >> THEN st
                 ELSE LET o == Head(ops) IN
                      Exec(Tail(ops), IF o.kind = "put" THEN PutK(st, o.key) ELSE IF o.kind = "delrange" THEN DelK(st, o.key) ELSE st)
FirstRangeKv(ops, st) == IF \E i \in 1..Len(ops) : ops[i].kind = "range"
                         THEN Get(st, ops[CHOOSE i \in 1..Len(ops) : ops[i].kind = "range" /\ \A j \in 1..(i-1) : ops[j].kind # "range"].key)
                         ELSE Absent
Ref(t, st) ==
    LET ok == \A i \in 1..Len(t.cmp) : Holds(t.cmp[i], st)
        ops == IF ok THEN t.succ ELSE t.fail IN
    R(ok, Exec(ops, st), FirstRangeKv(ops, st), FALSE)

-----------------------------------------------------------------------------
VARIABLES txn, st
Init == txn \in Txn /\ st \in Stores
Next == UNCHANGED <<txn, st>>
\* generator: one (transaction, store) pair per simulated trace
Dump == PrintT(<<"BEHAVIOUR", ToJson([txn |-> txn, st |-> st])>>)

\* a recognised transaction is executed exactly as etcd would execute it: same success flag, same
\* effect on the store, same key-value in the failure branch
\* (an unguarded delete of a missing key is the recorded deviation D16: etcd reports success)
RecognisedIsEtcd ==
    LET s == Shape(txn)  kb == KB(txn, st)  ref == Ref(txn, st) IN
    (s \in {"create", "update", "delete", "delete0"} /\ ~kb.err) =>
        /\ kb.store = ref.store
        /\ (s # "delete0" => kb.succ = ref.succ)
        /\ (~kb.succ /\ s \in {"update", "delete"} => kb.kv = ref.kv)
\* everything else is rejected and has no effect
UnsupportedRejected == Shape(txn) = "unsupported" => (KB(txn, st).err /\ KB(txn, st).store = st)
\* the transactions Kubernetes issues are recognised
K8sCreate(k) == [cmp |-> <<[target |-> "MOD", result |-> "EQUAL", key |-> k, rev |-> 0]>>, succ |-> <<[kind |-> "put", key |-> k]>>, fail |-> << >>]
K8sUpdate(k, r) == [cmp |-> <<[target |-> "MOD", result |-> "EQUAL", key |-> k, rev |-> r]>>, succ |-> <<[kind |-> "put", key |-> k]>>, fail |-> <<[kind |-> "range", key |-> k]>>]
K8sDelete(k, r) == [cmp |-> <<[target |-> "MOD", result |-> "EQUAL", key |-> k, rev |-> r]>>, succ |-> <<[kind |-> "delrange", key |-> k]>>, fail |-> <<[kind |-> "range", key |-> k]>>]
K8sDelete0(k) == [cmp |-> << >>, succ |-> <<[kind |-> "range", key |-> k], [kind |-> "delrange", key |-> k]>>, fail |-> << >>]
K8sShapesRecognised ==
    \A k \in Keys : /\ Shape(K8sCreate(k)) = "create" /\ Shape(K8sDelete0(k)) = "delete0"
                    /\ \A r \in RevSpace : Shape(K8sUpdate(k, r)) = "update" /\ (r > 0 => Shape(K8sDelete(k, r)) = "delete")
=============================================================================
