------------------------------ MODULE KubeBrain ------------------------------
(***************************************************************************)
(* The kubebrain leader as a concurrent program around an atomic KV engine. *)
(*                                                                         *)
(* One action = one "gate to gate" segment of one process of the            *)
(* implementation: an engine call (kv.commit / kv.iter / kv.get / kv.del),  *)
(* or a verif yield point (deal, notify, seq.poll, hub.item,                *)
(* watch.subscribed, watch.cacheread, watch.processed, retry.step ...).     *)
(* The conformance harness replays behaviours of this module on the real    *)
(* backend by opening exactly these gates in the order TLC chose.           *)
(*                                                                         *)
(* Families (switched off by empty constant sets):                          *)
(*   Writers    create / update / delete               pkg/backend/txn.go    *)
(*   Sequencer  slot ring -> committed, cache, batches  backend.go:208-270   *)
(*   Faults     engine answers on commit               storage/errors.go     *)
(*   Retry      repair of unknown-outcome writes       retry/retry.go        *)
(*   Hub        fan-out, slow subscriber close         watcherhub.go         *)
(*   Watchers   subscribe / cache read / process       watch.go, ring.go     *)
(*   Readers    point + range reads at a revision      range.go, scanner.go  *)
(*   Compactor  floor record + record-by-record scan   compact.go, scanner.go*)
(***************************************************************************)
EXTENDS Scanner, TLC, Json, SequencesExt

CONSTANTS
    Keys,                 \* key numbers, e.g. 1..2
    Vals,                 \* values written by clients
    Writers,              \* writer processes (strings)
    OpsPer,               \* operations per writer
    Base,                 \* revisions 1..Base belong to the initial history
    InitStates,           \* allowed initial key states: SUBSET {"none","live","deleted","compacted"}
    Fut,                  \* an expected revision from the future
    ExpSet,               \* expected revisions clients may name
    ConflictCarriesValue, \* engine parameter (memkv, badger: TRUE; tikv: FALSE)
    FaultKinds,           \* SUBSET {"err","unka","unkn","rerr"}
    FaultBudget,          \* max injected faults per behaviour
    Watchers,             \* watcher processes (strings)
    WatchStarts,          \* start revisions watchers may name
    WatchPrefixes,        \* prefix ids watchers may name
    PrefixOf,             \* [prefix id -> set of keys that start with it]
    CacheSize,            \* capacity of the event cache ring
    SubCap,               \* capacity of a subscriber buffer
    EventBatch,           \* 0: the sequencer hands its batch to the hub only when the next slot is empty; n > 0: also as soon as
                          \* the batch holds n events (300 in the code: eventBatchSize)
    RingCap,              \* 0: one slot per revision (no wrap-around); n > 0: the write-result ring has n slots, revision r
                          \*    uses slot r % n (backend.go:41 watchersChanCapacity = 100000; txn.go:290-294)
    ClearInvalid,         \* TRUE (the code): the sequencer empties the slot of every event it consumes, valid or not
    SeqDetail,            \* TRUE: cache insert is a separate sequencer step
    TsoDetail,            \* TRUE (needs SeqDetail): tso.Commit is two steps: store the committed revision and load the
                          \*       deal revision; then compare-and-swap the deal revision (tso.go:58-70)
    Readers,              \* reader processes (strings)
    ReadRevs,             \* revisions a read may name (0 = the current one)
    MaxReads,             \* reads per reader
    SnapAtTs,             \* engine parameter: TRUE: the iterator reads the snapshot of the timestamp fetched at the
                          \*   start of the scan (TiKV); FALSE: the snapshot is taken when the iterator is opened
    Compactors,           \* compactor processes (strings), at most one
    CompactRevs,          \* revisions a compaction request may name
    MaxCompacts,          \* compaction requests per compactor
    DelFaults,            \* SUBSET {"err","cas","die"}: faults of compaction deletes
    RecordDetail,         \* TRUE (needs CompactDetail): reading and raising the compaction record are separate steps
                          \*       (CRecGet / CRecCas in backend.setCompactRecord, CScanGet / CScanPut in scanner.checkCompactRace)
    CompactDetail,        \* TRUE: the compactor takes one step per engine deletion (CStart / CIter / CDel);
                          \*       FALSE: one request is one atomic step (CompactReq)
    LateCompact,          \* generator bias: compaction requests only arrive once every writer has returned (they then race
                          \*       the sequencer and the repair loop); FALSE in every model-checking config
    EagerSeq,             \* generator bias: every event is flushed and broadcast before the next write starts
    FixedOps,             \* << >>, or the operation sequence every writer issues (generator configs)
    LazyWatchers,         \* watchers whose forwarding loop only runs when nothing else can (generator bias
                          \*       towards buffer overflow; {} in every model-checking config)
    AtomicWrites,         \* TRUE: nothing interleaves with a write request once it has started
                          \*       (watch / read families: the write path is explored by its own configs)
    GenHist               \* TRUE: carry the schedule in hist (generator configs)

NoEv == [rev |-> 0]
Procs == Writers \cup Watchers \cup Readers \cup Compactors

VARIABLES
    idx, ver,             \* the engine contents under the prefix
    hver,                 \* ghost: every version ever written (never compacted)
    floor,                \* compaction record (0 = none)
    dealt, committed,     \* TSO counters
    slot,                 \* [rev -> NoEv | event]
    wpc, wloc, wops, wi,  \* writers: pc, locals, operation list, index of current op
    seqpc, seqev, batch,  \* sequencer
    tsopre,               \* the deal revision tso.Commit loaded (TsoDetail)
    chan,                 \* batches flushed by the sequencer, not yet broadcast
    cache,                \* event cache (sequence, newest last, length <= CacheSize)
    retryQ, rpc, rloc,    \* repair queue and repair loop
    faults,               \* injected faults so far
    subs,                 \* [Watchers -> [reg, closed, buf, hand]]
    xpc, xloc, xreq,      \* watchers: pc, locals, request
    outClosed,            \* [Watchers -> BOOLEAN] client channel closed
    delivered,            \* [Watchers -> sequence of events forwarded to the client]
    emitted,              \* ghost: sequence of all valid events the sequencer consumed
    kinit,                \* ghost: initial state name of every key
    acked,                \* ghost: set of returned write operations
    maxRet,               \* ghost: max revision among returned operations
    rdpc, rdloc, rdreq,   \* readers
    reads,                \* ghost: set of completed reads
    cpc, cloc, creq, cn,  \* compactor
    fin,                  \* set by the single successor of a complete behaviour (generator support)
    hist

wvars   == <<wpc, wloc, wops, wi>>
seqvars == <<seqpc, seqev, batch, tsopre>>
xvars   == <<subs, xpc, xloc, xreq, outClosed, delivered>>
rvars   == <<retryQ, rpc, rloc>>
rdvars  == <<rdpc, rdloc, rdreq, reads>>
cvars   == <<cpc, cloc, creq, cn, fin>>
store   == <<idx, ver, hver>>
vars    == <<idx, ver, hver, floor, dealt, committed, slot, wpc, wloc, wops, wi, seqpc, seqev, batch,
             tsopre, chan, cache, retryQ, rpc, rloc, faults, subs, xpc, xloc, xreq, outClosed,
             delivered, emitted, kinit, acked, maxRet, rdpc, rdloc, rdreq, reads, cpc, cloc, creq, cn, fin, hist>>

MaxRev == Base + OpsPer * Cardinality(Writers) * 2 + 4 + FaultBudget   \* every attempt and every repair gets one

SlotIx(r) == IF RingCap = 0 THEN r ELSE r % RingCap
\* the ring never overflows: fewer than RingCap revisions are dealt and not yet committed (notify panics otherwise)
RingNeverFull == RingCap = 0 \/ dealt - committed < RingCap
\* assumption of every configuration with a small ring: a revision is only dealt while the ring has room (the real ring
\* has 100000 slots; a writer that finds it full panics, txn.go:290-293)
RingRoom == RingCap = 0 \/ dealt - committed < RingCap - 1

-----------------------------------------------------------------------------
\* Initial history of one key
InitKey(s) ==
    CASE s = "none"      -> [idx |-> NoIdx, ver |-> {}]
      [] s = "live"      -> [idx |-> [rev |-> 1, del |-> FALSE], ver |-> {[rev |-> 1, val |-> "a"]}]
      [] s = "live2"     -> [idx |-> [rev |-> 2, del |-> FALSE], ver |-> {[rev |-> 1, val |-> "a"], [rev |-> 2, val |-> "b"]}]
      [] s = "deleted"   -> [idx |-> [rev |-> 2, del |-> TRUE],  ver |-> {[rev |-> 1, val |-> "a"], [rev |-> 2, val |-> TOMB]}]
      [] s = "compacted" -> [idx |-> NoIdx, ver |-> {[rev |-> 1, val |-> "a"], [rev |-> 2, val |-> TOMB]}]
      [] s = "recreated" -> [idx |-> [rev |-> 3, del |-> FALSE], ver |-> {[rev |-> 1, val |-> "a"], [rev |-> 2, val |-> TOMB], [rev |-> 3, val |-> "c"]}]

OpSet == [type : {"create"}, key : Keys, val : Vals, exp : {0}]
    \cup [type : {"update"}, key : Keys, val : Vals, exp : ExpSet]
    \cup [type : {"delete"}, key : Keys, val : {"-"}, exp : ExpSet]

WLocInit == [rev |-> 0, mod |-> 0, oldval |-> "-", old |-> NoIdx, res |-> "none", floorRev |-> 0,
             diff |-> FALSE, engDone |-> TRUE, kvrev |-> 0, kvval |-> "-", hdr |-> 0]

WatchReqSet == [start : WatchStarts, prefix : WatchPrefixes]
XLocInit == [last |-> 0, res |-> "none", find |-> "none", evs |-> << >>, newest |-> 0, listed |-> FALSE, lrev |-> 0, lsnap |-> << >>]
RdLocInit == [rev |-> 0, hdr |-> 0, seen |-> 0, fl0 |-> 0, n |-> 0, snapI |-> << >>, snapV |-> << >>]
CLocInit == [seen |-> 0, rev |-> 0, todo |-> << >>, sidx |-> [k \in Keys |-> NoIdx], skip |-> 0, dead |-> FALSE, snapI |-> << >>, snapV |-> << >>]
SubInit  == [reg |-> FALSE, closed |-> FALSE, buf |-> << >>, hand |-> << >>, hasHand |-> FALSE]

Init ==
    /\ \E ks \in [Keys -> InitStates] :
          /\ kinit = ks
          /\ idx  = [k \in Keys |-> InitKey(ks[k]).idx]
          /\ ver  = [k \in Keys |-> InitKey(ks[k]).ver]
          /\ hver = [k \in Keys |-> InitKey(ks[k]).ver]
    /\ floor = 0
    /\ dealt = Base /\ committed = Base
    /\ slot = [r \in (IF RingCap = 0 THEN (Base+1)..MaxRev ELSE 0..(RingCap - 1)) |-> NoEv]
    /\ IF FixedOps = << >> THEN wops \in [Writers -> [1..OpsPer -> OpSet]]
                         ELSE wops = [w \in Writers |-> FixedOps]
    /\ wpc = [w \in Writers |-> "idle"]
    /\ wloc = [w \in Writers |-> WLocInit]
    /\ wi = [w \in Writers |-> 1]
    /\ seqpc = "poll" /\ seqev = NoEv /\ batch = << >> /\ tsopre = 0
    /\ chan = << >> /\ cache = << >>
    /\ retryQ = << >> /\ rpc = "idle" /\ rloc = [ev |-> NoEv, rev |-> 0, val |-> "-"]
    /\ faults = 0
    /\ subs = [w \in Watchers |-> SubInit]
    /\ xpc = [w \in Watchers |-> "start"]
    /\ xloc = [w \in Watchers |-> XLocInit]
    /\ xreq \in [Watchers -> WatchReqSet]
    /\ outClosed = [w \in Watchers |-> FALSE]
    /\ delivered = [w \in Watchers |-> << >>]
    /\ emitted = << >>
    /\ acked = {} /\ maxRet = 0
    /\ rdpc = [r \in Readers |-> "idle"]
    /\ rdloc = [r \in Readers |-> RdLocInit]
    /\ rdreq = [r \in Readers |-> [kind |-> "none", rev |-> 0, key |-> 0]]
    /\ reads = {}
    /\ cpc = [c \in Compactors |-> "idle"]
    /\ cloc = [c \in Compactors |-> CLocInit]
    /\ creq = [c \in Compactors |-> 0]
    /\ cn = [c \in Compactors |-> 0]
    /\ fin = FALSE
    /\ hist = << >>

-----------------------------------------------------------------------------
\* history (generator configs only)
H(p, a, g) == hist' = IF GenHist THEN Append(hist, [p |-> p, a |-> a, g |-> g, f |-> "", x |-> 0]) ELSE hist
\* f: the engine answer chosen for a commit ("ok", "err", "unka", "unkn"); x: an integer argument
HF(p, a, g, f, x) == hist' = IF GenHist THEN Append(hist, [p |-> p, a |-> a, g |-> g, f |-> f, x |-> x]) ELSE hist

Op(w) == wops[w][wi[w]]

LatestK(k) == Latest(ver[k])

\* does the key currently satisfy the condition of op o ?
\* (an unguarded delete is "delete the version I read": its implicit expectation is the
\*  revision m it observed, see DESIGN section 6, C01)
Matches(o, m, vs) ==
    LET l == Latest(vs) IN
    CASE o.type = "create" -> ~IsLive(l)
      [] o.type = "update" /\ o.exp = 0 -> ~IsLive(l)
      [] o.type = "update" -> IsLive(l) /\ l.rev = o.exp
      [] o.type = "delete" /\ o.exp = 0 -> IsLive(l) /\ (m = 0 \/ l.rev = m)
      [] o.type = "delete" -> IsLive(l) /\ l.rev = o.exp

\* every in-flight writer on key k learns whether the key differs from its expectation now
DiffUpdate(loc, k, ix, vs) ==
    [w \in Writers |->
        IF wpc[w] # "idle" /\ Op(w).key = k
        THEN [loc[w] EXCEPT !.diff = @ \/ ~Matches(Op(w), loc[w].mod, vs)]
        ELSE loc[w]]

\* a successful engine write of key k: new index record and new version
Apply(k, newidx, newver) ==
    /\ idx'  = [idx  EXCEPT ![k] = newidx]
    /\ ver'  = [ver  EXCEPT ![k] = @ \cup {newver}]
    /\ hver' = [hver EXCEPT ![k] = @ \cup {newver}]

\* engine answer classes for a commit whose conditions hold
\*   "ok"   applied, reported
\*   "err"  not applied, certain error            (fault)
\*   "unka" applied, outcome reported unknown      (fault)
\*   "unkn" not applied, outcome reported unknown  (fault)
Answers == IF faults < FaultBudget THEN {"ok"} \cup (FaultKinds \ {"rerr"}) ELSE {"ok"}   \* ("rerr" is a fault of a read, see DeleteGet)
ReadAnswers == {"ok"} \cup (IF faults < FaultBudget THEN FaultKinds \cap {"rerr"} ELSE {})
IsFault(a) == a # "ok"
Applied(a) == a \in {"ok", "unka"}
ResOf(a) == CASE a = "ok" -> "ok" [] a = "err" -> "err" [] OTHER -> "unk"

-----------------------------------------------------------------------------
\* WRITERS

\* generator bias: lazy watchers subscribe before the first write starts
SeqIdle0 == seqpc = "poll" /\ batch = << >> /\ (SlotIx(committed + 1) \in DOMAIN slot => slot[SlotIx(committed + 1)] = NoEv)
CanStart == /\ \A x \in LazyWatchers : xpc[x] # "start"
            /\ (EagerSeq => (SeqIdle0 /\ chan = << >>))
IsCreateLike(o) == o.type = "create" \/ (o.type = "update" /\ o.exp = 0)

\* start of an operation: remember what had already returned (real-time order) and whether
\* the key matches the expectation right now
Begin(w, loc) ==
    [loc EXCEPT !.floorRev = maxRet,
                !.diff = ~Matches(Op(w), 0, ver[Op(w).key])]

\* create / update with expectation 0: allocate                          gate: deal
CreateDeal(w) ==
    /\ wpc[w] = "idle" /\ wi[w] <= OpsPer /\ IsCreateLike(Op(w)) /\ CanStart
    /\ RingRoom /\ dealt' = dealt + 1
    /\ wloc' = [wloc EXCEPT ![w] = [Begin(w, WLocInit) EXCEPT !.rev = dealt + 1, !.engDone = FALSE]]
    /\ wpc' = [wpc EXCEPT ![w] = "c_pine"]
    /\ H(w, "CreateDeal", "deal")
    /\ UNCHANGED <<store, floor, committed, slot, wops, wi, seqvars, chan, cache, rvars, faults, xvars, acked, maxRet, emitted, kinit, rdvars, cvars>>

\* outcome of a conditional commit on key k whose condition is cond
\*   sets idx/ver/hver, wloc[w].res, next pc
CondCommit(w, act, cond, newidx, newver, pcOk, pcCas, extra) ==
    LET k == Op(w).key IN
    IF cond
    THEN \E a \in Answers :
           /\ faults' = IF IsFault(a) THEN faults + 1 ELSE faults
           /\ IF Applied(a) THEN Apply(k, newidx, newver) ELSE UNCHANGED store
           /\ LET vs2 == IF Applied(a) THEN ver[k] \cup {newver} ELSE ver[k]
                  ix2 == IF Applied(a) THEN newidx ELSE idx[k]
                  l1  == DiffUpdate(wloc, k, ix2, vs2) IN
              wloc' = [l1 EXCEPT ![w] = [@ EXCEPT !.res = ResOf(a), !.engDone = TRUE]]
           /\ wpc' = [wpc EXCEPT ![w] = pcOk]
           /\ HF(w, act, "kv.commit", a, 0)
    ELSE /\ UNCHANGED <<store, faults>>
         /\ wloc' = [wloc EXCEPT ![w] = extra]
         /\ wpc' = [wpc EXCEPT ![w] = pcCas]
         /\ HF(w, act, "kv.commit", "ok", 0)

\* put-if-absent of the index + put of the version                      gate: kv.commit
CreatePine(w) ==
    /\ wpc[w] = "c_pine"
    /\ LET k == Op(w).key  r == wloc[w].rev IN
       CondCommit(w, "CreatePine", idx[k] = NoIdx,
                  [rev |-> r, del |-> FALSE], [rev |-> r, val |-> Op(w).val],
                  "notify",
                  IF ConflictCarriesValue
                  THEN (IF idx[k].del /\ idx[k].rev < r THEN "c_cas" ELSE "notify")
                  ELSE "c_get",
                  IF ConflictCarriesValue
                  THEN (IF idx[k].del /\ idx[k].rev < r
                        THEN [wloc[w] EXCEPT !.old = idx[k]]
                        ELSE [wloc[w] EXCEPT !.old = idx[k], !.res = "cas", !.engDone = TRUE])
                  ELSE wloc[w])
    /\ UNCHANGED <<floor, dealt, committed, slot, wops, wi, seqvars, chan, cache, rvars, xvars, acked, maxRet, emitted, kinit, rdvars, cvars>>

\* engines whose conflict carries no value: read the index               gate: kv.get
CreateGet(w) ==
    /\ wpc[w] = "c_get"
    /\ \E a \in ReadAnswers :
      /\ faults' = IF a = "rerr" THEN faults + 1 ELSE faults
      /\ HF(w, "CreateGet", "kv.get", IF a = "rerr" THEN "rerr" ELSE "", 0)
      /\ LET k == Op(w).key  r == wloc[w].rev IN
       IF a = "rerr"       \* the lookup fails: the create ends with "unavailable"
       THEN /\ wpc' = [wpc EXCEPT ![w] = "notify"]
            /\ wloc' = [wloc EXCEPT ![w].res = "err", ![w].engDone = TRUE]
       ELSE IF idx[k] = NoIdx
       THEN /\ wpc' = [wpc EXCEPT ![w] = "c_pine2"] /\ wloc' = wloc
       ELSE IF idx[k].del /\ idx[k].rev < r
       THEN /\ wpc' = [wpc EXCEPT ![w] = "c_cas"]
            /\ wloc' = [wloc EXCEPT ![w].old = idx[k]]
       ELSE /\ wpc' = [wpc EXCEPT ![w] = "notify"]
            /\ wloc' = [wloc EXCEPT ![w].old = idx[k], ![w].res = "cas", ![w].engDone = TRUE]
    /\ UNCHANGED <<store, floor, dealt, committed, slot, wops, wi, seqvars, chan, cache, rvars, xvars, acked, maxRet, emitted, kinit, rdvars, cvars>>

\* index vanished between conflict and read: put-if-absent again          gate: kv.commit
CreatePine2(w) ==
    /\ wpc[w] = "c_pine2"
    /\ LET k == Op(w).key  r == wloc[w].rev IN
       CondCommit(w, "CreatePine2", idx[k] = NoIdx,
                  [rev |-> r, del |-> FALSE], [rev |-> r, val |-> Op(w).val],
                  "notify", "notify",
                  [wloc[w] EXCEPT !.res = "cas", !.engDone = TRUE])
    /\ UNCHANGED <<floor, dealt, committed, slot, wops, wi, seqvars, chan, cache, rvars, xvars, acked, maxRet, emitted, kinit, rdvars, cvars>>

\* compare-and-swap over the tombstoned index that was observed            gate: kv.commit
CreateCas(w) ==
    /\ wpc[w] = "c_cas"
    /\ LET k == Op(w).key  r == wloc[w].rev IN
       CondCommit(w, "CreateCas", idx[k] = wloc[w].old,
                  [rev |-> r, del |-> FALSE], [rev |-> r, val |-> Op(w).val],
                  "notify", "c_reget", wloc[w])
    /\ UNCHANGED <<floor, dealt, committed, slot, wops, wi, seqvars, chan, cache, rvars, xvars, acked, maxRet, emitted, kinit, rdvars, cvars>>

\* the compare-and-swap lost: was the tombstoned index compacted meanwhile (the key is still
\* absent: put-if-absent again), or did somebody write the key (a genuine conflict)?   gate: kv.get
CreateReGet(w) ==
    /\ wpc[w] = "c_reget"
    /\ \E a \in ReadAnswers :
      /\ faults' = IF a = "rerr" THEN faults + 1 ELSE faults
      /\ HF(w, "CreateReGet", "kv.get", IF a = "rerr" THEN "rerr" ELSE "", 0)
      /\ LET k == Op(w).key IN
       IF a = "rerr"       \* it cannot be told whether the key is absent: "unavailable", not a failed condition
       THEN /\ wpc' = [wpc EXCEPT ![w] = "notify"]
            /\ wloc' = [wloc EXCEPT ![w].res = "err", ![w].engDone = TRUE]
       ELSE IF idx[k] = NoIdx
       THEN /\ wpc' = [wpc EXCEPT ![w] = "c_pine2"] /\ wloc' = wloc
       ELSE /\ wpc' = [wpc EXCEPT ![w] = "notify"]
            /\ wloc' = [wloc EXCEPT ![w].res = "cas", ![w].engDone = TRUE]
    /\ UNCHANGED <<store, floor, dealt, committed, slot, wops, wi, seqvars, chan, cache, rvars, xvars, acked, maxRet, emitted, kinit, rdvars, cvars>>

\* update with expectation > 0: allocate; refuse expectations from the future   gate: deal
UpdateDeal(w) ==
    /\ wpc[w] = "idle" /\ wi[w] <= OpsPer /\ Op(w).type = "update" /\ Op(w).exp > 0 /\ CanStart
    /\ RingRoom /\ dealt' = dealt + 1
    /\ LET l0 == [Begin(w, WLocInit) EXCEPT !.rev = dealt + 1] IN
       IF dealt + 1 < Op(w).exp
       THEN /\ wloc' = [wloc EXCEPT ![w] = [l0 EXCEPT !.res = "drift"]]
            /\ wpc' = [wpc EXCEPT ![w] = "notify"]
       ELSE /\ wloc' = [wloc EXCEPT ![w] = [l0 EXCEPT !.engDone = FALSE]]
            /\ wpc' = [wpc EXCEPT ![w] = "u_cas"]
    /\ H(w, "UpdateDeal", "deal")
    /\ UNCHANGED <<store, floor, committed, slot, wops, wi, seqvars, chan, cache, rvars, faults, xvars, acked, maxRet, emitted, kinit, rdvars, cvars>>

UpdateCas(w) ==
    /\ wpc[w] = "u_cas"
    /\ LET k == Op(w).key  r == wloc[w].rev IN
       CondCommit(w, "UpdateCas", idx[k] = [rev |-> Op(w).exp, del |-> FALSE],
                  [rev |-> r, del |-> FALSE], [rev |-> r, val |-> Op(w).val],
                  "notify", "notify",
                  [wloc[w] EXCEPT !.res = "cas", !.engDone = TRUE])
    /\ UNCHANGED <<floor, dealt, committed, slot, wops, wi, seqvars, chan, cache, rvars, xvars, acked, maxRet, emitted, kinit, rdvars, cvars>>

\* delete: read the newest version                                          gate: kv.iter
\* (fault kind "rerr": the engine's iterator fails -- a timeout, a region error; the request ends with that error, but the
\*  revision it takes next is still reported to the sequencer)
DeleteGet(w) ==
    /\ wpc[w] = "idle" /\ wi[w] <= OpsPer /\ Op(w).type = "delete" /\ CanStart
    /\ \E a \in {"ok"} \cup (IF faults < FaultBudget THEN FaultKinds \cap {"rerr"} ELSE {}) :
        /\ LET k == Op(w).key  l == LatestK(k)  l0 == Begin(w, WLocInit) IN
           wloc' = [wloc EXCEPT ![w] =
                      IF a = "rerr" THEN [l0 EXCEPT !.res = "err"]
                      ELSE IF IsLive(l) THEN [l0 EXCEPT !.mod = l.rev, !.oldval = l.val]
                      ELSE [l0 EXCEPT !.res = "notfound"]]
        /\ faults' = IF a = "rerr" THEN faults + 1 ELSE faults
        /\ HF(w, "DeleteGet", "kv.iter", IF a = "rerr" THEN "rerr" ELSE "", 0)
    /\ wpc' = [wpc EXCEPT ![w] = "d_deal"]
    /\ UNCHANGED <<store, floor, dealt, committed, slot, wops, wi, seqvars, chan, cache, rvars, xvars, acked, maxRet, emitted, kinit, rdvars, cvars>>

\* delete: allocate, local checks                                           gate: deal
DeleteDeal(w) ==
    /\ wpc[w] = "d_deal"
    /\ RingRoom /\ dealt' = dealt + 1
    /\ LET r == dealt + 1  e == Op(w).exp  m == wloc[w].mod IN
       IF wloc[w].res \in {"notfound", "err"}
       THEN /\ wloc' = [wloc EXCEPT ![w].rev = r] /\ wpc' = [wpc EXCEPT ![w] = "notify"]
       ELSE IF r < e
       THEN /\ wloc' = [wloc EXCEPT ![w].rev = r, ![w].res = "drift"] /\ wpc' = [wpc EXCEPT ![w] = "notify"]
       ELSE IF e > 0 /\ e # m
       THEN /\ wloc' = [wloc EXCEPT ![w].rev = r, ![w].res = "cas"] /\ wpc' = [wpc EXCEPT ![w] = "notify"]
       ELSE /\ wloc' = [wloc EXCEPT ![w].rev = r, ![w].engDone = FALSE] /\ wpc' = [wpc EXCEPT ![w] = "d_cas"]
    /\ H(w, "DeleteDeal", "deal")
    /\ UNCHANGED <<store, floor, committed, slot, wops, wi, seqvars, chan, cache, rvars, faults, xvars, acked, maxRet, emitted, kinit, rdvars, cvars>>

DeleteCas(w) ==
    /\ wpc[w] = "d_cas"
    /\ LET k == Op(w).key  r == wloc[w].rev IN
       CondCommit(w, "DeleteCas", idx[k] = [rev |-> wloc[w].mod, del |-> FALSE],
                  [rev |-> r, del |-> TRUE], [rev |-> r, val |-> TOMB],
                  "notify", "notify",
                  [wloc[w] EXCEPT !.res = "cas", !.engDone = TRUE])
    /\ UNCHANGED <<floor, dealt, committed, slot, wops, wi, seqvars, chan, cache, rvars, xvars, acked, maxRet, emitted, kinit, rdvars, cvars>>

\* the event a write attempt reports
EventOf(w) ==
    LET o == Op(w)  l == wloc[w] IN
    [rev |-> l.rev, valid |-> l.res = "ok", unc |-> l.res = "unk",
     verb |-> IF o.type = "delete" THEN EvDelete ELSE IF IsCreateLike(o) THEN EvCreate ELSE EvPut,
     key |-> o.key,
     val |-> IF o.type = "delete" THEN l.oldval ELSE o.val,
     prev |-> IF o.type = "delete" THEN l.mod ELSE o.exp]

AckRec(w, hdr, kvrev, kvval) ==
    [w |-> w, i |-> wi[w], type |-> Op(w).type, key |-> Op(w).key, exp |-> Op(w).exp, val |-> Op(w).val,
     rev |-> wloc[w].rev, res |-> wloc[w].res, diff |-> wloc[w].diff,
     hdr |-> hdr, kvrev |-> kvrev, kvval |-> kvval]

Return(w, hdr, kvrev, kvval) ==
    /\ acked' = acked \cup {AckRec(w, hdr, kvrev, kvval)}
    /\ maxRet' = IF wloc[w].rev > maxRet THEN wloc[w].rev ELSE maxRet
    /\ wi' = [wi EXCEPT ![w] = @ + 1]
    /\ wpc' = [wpc EXCEPT ![w] = "idle"]

\* fill the slot; return unless a failed condition needs the newest version   gate: notify
Notify(w) ==
    /\ wpc[w] = "notify"
    /\ slot' = [slot EXCEPT ![SlotIx(wloc[w].rev)] = EventOf(w)]
    /\ IF wloc[w].res = "cas" /\ Op(w).type # "create"
       THEN /\ wpc' = [wpc EXCEPT ![w] = "reget"]
            /\ UNCHANGED <<acked, maxRet, wi>>
       ELSE Return(w, wloc[w].rev,
                   IF Op(w).type = "delete" /\ wloc[w].res = "ok" THEN wloc[w].mod ELSE 0,
                   IF Op(w).type = "delete" /\ wloc[w].res = "ok" THEN wloc[w].oldval ELSE "-")
    /\ H(w, "Notify", "notify")
    /\ UNCHANGED <<store, floor, dealt, committed, wloc, wops, seqvars, chan, cache, rvars, faults, xvars, emitted, kinit, rdvars, cvars>>

\* failed condition of update / delete: read the newest version and return     gate: kv.iter
\* (fault kind "rerr": an update answers with the error; a delete answers "not succeeded" with the version it had read first)
ReGet(w) ==
    /\ wpc[w] = "reget"
    /\ \E a \in ReadAnswers :
      /\ faults' = IF a = "rerr" THEN faults + 1 ELSE faults
      /\ HF(w, "ReGet", "kv.iter", IF a = "rerr" THEN "rerr" ELSE "", 0)
      /\ LET l == LatestK(Op(w).key)  r == wloc[w].rev IN
         IF a = "rerr" /\ Op(w).type = "update"
         THEN /\ acked' = acked \cup {[AckRec(w, r, 0, "-") EXCEPT !.res = "err"]}
              /\ maxRet' = IF r > maxRet THEN r ELSE maxRet
              /\ wi' = [wi EXCEPT ![w] = @ + 1]
              /\ wpc' = [wpc EXCEPT ![w] = "idle"]
         ELSE IF a = "rerr"
         THEN Return(w, r, wloc[w].mod, wloc[w].oldval)
         ELSE IF IsLive(l)
         THEN Return(w, IF l.rev > r THEN l.rev ELSE r, l.rev, l.val)
         ELSE Return(w, r, 0, "-")     \* deleted meanwhile: no current key-value (update and, since the repair of D23, delete)
    /\ UNCHANGED <<store, floor, dealt, committed, slot, wloc, wops, seqvars, chan, cache, rvars, xvars, emitted, kinit, rdvars, cvars>>

WriterNext(w) ==
    \/ CreateDeal(w) \/ CreatePine(w) \/ CreateGet(w) \/ CreatePine2(w) \/ CreateCas(w) \/ CreateReGet(w)
    \/ UpdateDeal(w) \/ UpdateCas(w)
    \/ DeleteGet(w) \/ DeleteDeal(w) \/ DeleteCas(w)
    \/ Notify(w) \/ ReGet(w)

-----------------------------------------------------------------------------
\* SEQUENCER  (backend.collectStorageWriteEvents)

CacheAdd(c, e) == IF Len(c) < CacheSize THEN Append(c, e) ELSE Append(Tail(c), e)

WatchEv(e) == [type |-> e.verb, key |-> e.key, rev |-> e.rev, val |-> e.val,
               kvrev |-> IF e.verb = EvDelete THEN e.prev ELSE e.rev]

\* consume slot committed+1                                                gate: seq.poll
SeqPoll ==
    /\ seqpc = "poll"
    /\ (EventBatch = 0 \/ Len(batch) < EventBatch)
    /\ SlotIx(committed + 1) \in DOMAIN slot
    /\ slot[SlotIx(committed + 1)] # NoEv
    \* (the code takes whatever event it finds in that slot for the next one: it does not look at its revision)
    /\ LET e == slot[SlotIx(committed + 1)] IN
       /\ slot' = IF e.valid \/ ClearInvalid THEN [slot EXCEPT ![SlotIx(e.rev)] = NoEv] ELSE slot
       /\ committed' = e.rev
       /\ tsopre' = IF TsoDetail THEN dealt ELSE tsopre
       /\ IF ~e.valid
          THEN /\ retryQ' = IF e.unc THEN Append(retryQ, e) ELSE retryQ
               /\ seqpc' = IF TsoDetail THEN "tso" ELSE seqpc
               /\ UNCHANGED <<seqev, batch, cache>>
          ELSE IF SeqDetail
               THEN /\ seqpc' = IF TsoDetail THEN "tso" ELSE "cacheadd"
                    /\ seqev' = e
                    /\ UNCHANGED <<batch, cache, retryQ>>
               ELSE /\ cache' = CacheAdd(cache, WatchEv(e))
                    /\ batch' = Append(batch, WatchEv(e))
                    /\ UNCHANGED <<seqpc, seqev, retryQ>>
       /\ emitted' = IF e.valid THEN Append(emitted, WatchEv(e)) ELSE emitted
    /\ H("seq", "SeqPoll", "seq.poll")
    /\ UNCHANGED <<store, floor, dealt, wvars, chan, rpc, rloc, faults, xvars, acked, maxRet, kinit, rdvars, cvars>>

\* second half of tso.Commit: "in case of leader transfer" the deal revision is raised to the committed one,
\* by compare-and-swap against the value loaded before -- a revision dealt in between must survive
\*                                                                                gate: tso.commit
SeqTso ==
    /\ seqpc = "tso"
    /\ dealt' = IF tsopre < committed /\ dealt = tsopre THEN committed ELSE dealt
    /\ tsopre' = 0
    /\ seqpc' = IF seqev = NoEv THEN "poll" ELSE "cacheadd"
    /\ H("seq", "SeqTso", "tso.commit")
    /\ UNCHANGED <<store, floor, committed, slot, wvars, seqev, batch, chan, cache, rvars, faults, xvars, acked, maxRet, emitted, kinit, rdvars, cvars>>

\* insert into the event cache                                              gate: seq.cacheadd
SeqCacheAdd ==
    /\ seqpc = "cacheadd"
    /\ cache' = CacheAdd(cache, WatchEv(seqev))
    /\ batch' = Append(batch, WatchEv(seqev))
    /\ seqpc' = "poll" /\ seqev' = NoEv
    /\ H("seq", "SeqCacheAdd", "seq.cacheadd")
    /\ UNCHANGED <<store, floor, dealt, committed, slot, wvars, tsopre, chan, rvars, faults, xvars, acked, maxRet, emitted, kinit, rdvars, cvars>>

\* next slot empty and something pending: hand the batch to the hub          gate: seq.poll
SeqFlush ==
    /\ seqpc = "poll" /\ batch # << >>
    /\ \/ (SlotIx(committed + 1) \in DOMAIN slot => slot[SlotIx(committed + 1)] = NoEv)
       \/ (EventBatch > 0 /\ Len(batch) >= EventBatch)     \* a full batch goes out although more is waiting
    /\ chan' = Append(chan, batch)
    /\ batch' = << >>
    /\ H("seq", "SeqFlush", "seq.poll")
    /\ UNCHANGED <<store, floor, dealt, committed, slot, wvars, seqpc, seqev, tsopre, cache, rvars, faults, xvars, acked, maxRet, emitted, kinit, rdvars, cvars>>

SeqNext == SeqPoll \/ SeqTso \/ SeqCacheAdd \/ SeqFlush

-----------------------------------------------------------------------------
\* REPAIR LOOP  (retry.asyncFifoRetryImpl)

\* look at the head; read the newest stored version of its key            gates: retry.step, kv.iter
\* (fault kind "rerr": the read fails; the entry stays where it is and is looked at again in the next round)
RetryGet ==
    /\ rpc = "idle" /\ retryQ # << >>
    /\ \E a \in ReadAnswers :
      /\ faults' = IF a = "rerr" THEN faults + 1 ELSE faults
      /\ HF("retry", "RetryGet", "retry.step", IF a = "rerr" THEN "rerr" ELSE "", 0)
      /\ LET e == Head(retryQ)  l == LatestK(e.key) IN
         IF a = "rerr"
         THEN UNCHANGED <<retryQ, rpc, rloc>>
         ELSE IF l = NoVer \/ l.rev # e.rev
         THEN \* not ours any more (or never landed): nothing to repair, drop the entry
              /\ retryQ' = Tail(retryQ) /\ UNCHANGED <<rpc, rloc>>
         ELSE /\ rloc' = [ev |-> e, rev |-> 0, val |-> l.val]
              /\ rpc' = "deal" /\ UNCHANGED retryQ
    /\ UNCHANGED <<store, floor, dealt, committed, slot, wvars, seqvars, chan, cache, xvars, acked, maxRet, emitted, kinit, rdvars, cvars>>

RetryDeal ==
    /\ rpc = "deal"
    /\ RingRoom /\ dealt' = dealt + 1
    /\ rloc' = [rloc EXCEPT !.rev = dealt + 1]
    /\ rpc' = "commit"
    /\ H("retry", "RetryDeal", "retry.deal")
    /\ UNCHANGED <<store, floor, committed, slot, wvars, seqvars, chan, cache, retryQ, faults, xvars, acked, maxRet, emitted, kinit, rdvars, cvars>>

\* rewrite the same value at a fresh revision under CAS on the index           gate: kv.commit
RetryCommit ==
    /\ rpc = "commit"
    /\ LET e == rloc.ev  k == e.key  r == rloc.rev  tomb == rloc.val = TOMB
           cond == idx[k] = [rev |-> e.rev, del |-> tomb] IN
       IF cond
       THEN \E a \in Answers :
              /\ faults' = IF IsFault(a) THEN faults + 1 ELSE faults
              /\ IF Applied(a) THEN Apply(k, [rev |-> r, del |-> tomb], [rev |-> r, val |-> rloc.val])
                               ELSE UNCHANGED store
              /\ wloc' = IF Applied(a)
                         THEN DiffUpdate(wloc, k, [rev |-> r, del |-> tomb], ver[k] \cup {[rev |-> r, val |-> rloc.val]})
                         ELSE wloc
              /\ rloc' = [rloc EXCEPT !.val = ResOf(a)]
              /\ HF("retry", "RetryCommit", "kv.commit", a, 0)
       ELSE /\ UNCHANGED <<store, faults, wloc>>
            /\ rloc' = [rloc EXCEPT !.val = "cas"]
            /\ HF("retry", "RetryCommit", "kv.commit", "ok", 0)
    /\ rpc' = "notify"
    /\ UNCHANGED <<floor, dealt, committed, slot, wpc, wops, wi, seqvars, chan, cache, retryQ, xvars, acked, maxRet, emitted, kinit, rdvars, cvars>>

\* report the repair revision (valid iff the rewrite succeeded), pop              gate: notify
RetryNotify ==
    /\ rpc = "notify"
    /\ LET e == rloc.ev IN
       slot' = [slot EXCEPT ![SlotIx(rloc.rev)] =
                  [e EXCEPT !.rev = rloc.rev, !.valid = rloc.val = "ok", !.unc = rloc.val = "unk"]]
    \* unless the rewrite succeeded or lost its compare, the operation is still unresolved: it stays queued
    \* (an uncertain rewrite is queued as well, under its own revision, by the sequencer)
    /\ retryQ' = IF rloc.val \in {"err", "unk"} THEN retryQ ELSE Tail(retryQ)
    /\ rpc' = "idle"
    /\ H("retry", "RetryNotify", "notify")
    /\ UNCHANGED <<store, floor, dealt, committed, wvars, seqvars, chan, cache, rloc, faults, xvars, acked, maxRet, emitted, kinit, rdvars, cvars>>

RetryNext == RetryGet \/ RetryDeal \/ RetryCommit \/ RetryNotify

-----------------------------------------------------------------------------
\* HUB  (WatcherHub.Stream) -- repaired behaviour: a subscriber whose buffer is full is closed
\* before the next batch is dispatched.                                       gate: hub.item

HubDeliver ==
    /\ chan # << >>
    /\ LET item == Head(chan) IN
       subs' = [w \in Watchers |->
                     LET s == subs[w] IN
                     IF ~s.reg \/ s.closed THEN s
                     ELSE IF ~s.hasHand /\ s.buf = << >> /\ xpc[w] = "running"
                          THEN [s EXCEPT !.hand = item, !.hasHand = TRUE]   \* the receiver is waiting
                     ELSE IF Len(s.buf) < SubCap THEN [s EXCEPT !.buf = Append(@, item)]
                     ELSE [s EXCEPT !.closed = TRUE]]
    /\ chan' = Tail(chan)
    /\ H("hub", "HubDeliver", "hub.item")
    /\ UNCHANGED <<store, floor, dealt, committed, slot, wvars, seqvars, cache, rvars, faults, xpc, xloc, xreq, outClosed, delivered, acked, maxRet, emitted, kinit, rdvars, cvars>>

-----------------------------------------------------------------------------
\* WATCHERS  (backend.Watch / processEvents)

WritersDone == \A w \in Writers : wpc[w] = "idle" /\ wi[w] > OpsPer
SeqIdle == seqpc = "poll" /\ batch = << >> /\ (SlotIx(committed + 1) \in DOMAIN slot => slot[SlotIx(committed + 1)] = NoEv)

InPrefix(p, k) == k \in PrefixOf[p]
FilterPrefix(evs, p) == SelectSeq(evs, LAMBDA e : InPrefix(p, e.key))
\* batches are revision ordered: dropping the leading events below r
FilterRev(evs, r) == SelectSeq(evs, LAMBDA e : e.rev >= r)

WUnch == <<store, floor, dealt, committed, slot, wvars, seqvars, chan, cache, rvars, faults, xreq, acked, maxRet, emitted, kinit, rdvars, cvars>>

ListMark == 999   \* start value that stands for "list first, then watch from the list revision + 1"
\* a watcher whose request names start = ListMark first lists its prefix (atomically: the range read
\* samples the committed revision R and returns the snapshot at R) and then watches from R + 1
StartOf(w) == IF xreq[w].start = ListMark THEN xloc[w].lrev + 1 ELSE xreq[w].start
ListFirst(w) ==
    /\ xpc[w] = "start" /\ xreq[w].start = ListMark /\ ~xloc[w].listed
    /\ xloc' = [xloc EXCEPT ![w].listed = TRUE, ![w].lrev = committed,
                             ![w].lsnap = [k \in Keys |-> IF k \in PrefixOf[xreq[w].prefix] /\ IsLive(NewestLE(ver[k], committed))
                                                          THEN NewestLE(ver[k], committed) ELSE NoVer]]
    /\ H(w, "ListFirst", "start")
    /\ UNCHANGED <<WUnch, subs, xpc, outClosed, delivered>>

\* register with the hub                    (first segment of Watch(); ends at watch.subscribed)
Subscribe(w) ==
    /\ xpc[w] = "start" /\ (xreq[w].start = ListMark => xloc[w].listed)
    /\ subs' = [subs EXCEPT ![w].reg = TRUE]
    /\ xpc' = [xpc EXCEPT ![w] = IF StartOf(w) = 0 THEN "decide" ELSE "cacheread"]
    /\ xloc' = [xloc EXCEPT ![w].last = StartOf(w), ![w].find = IF StartOf(w) = 0 THEN "zero" ELSE "none"]
    /\ H(w, "Subscribe", "start")
    /\ UNCHANGED <<WUnch, outClosed, delivered>>

\* look the start revision up in the event cache (Ring.FindEvents)        gate: watch.subscribed
CacheRead(w) ==
    /\ xpc[w] = "cacheread"
    /\ LET S == StartOf(w) IN
       xloc' = [xloc EXCEPT ![w] =
                  IF cache = << >> THEN [@ EXCEPT !.find = "empty"]
                  ELSE IF S > cache[Len(cache)].rev THEN [@ EXCEPT !.find = "high"]
                  ELSE IF S < cache[1].rev THEN [@ EXCEPT !.find = "low"]
                  ELSE [@ EXCEPT !.find = "slice", !.evs = FilterRev(cache, S), !.newest = cache[Len(cache)].rev]]
    /\ xpc' = [xpc EXCEPT ![w] = "decide"]
    /\ H(w, "CacheRead", "watch.subscribed")
    /\ UNCHANGED <<WUnch, subs, outClosed, delivered>>

\* refuse, or forward the cached events and start the forwarding loop; Watch() returns
\*                                          gate: watch.cacheread (watch.subscribed when start = 0)
Decide(w) ==
    /\ xpc[w] = "decide"
    /\ LET f == xloc[w].find  S == StartOf(w)
           refuse == (f = "empty" /\ S <= committed) \/ f = "low"
           evs == IF f = "slice" THEN FilterPrefix(xloc[w].evs, xreq[w].prefix) ELSE << >> IN
       IF refuse
       THEN /\ xpc' = [xpc EXCEPT ![w] = "refused"]
            /\ xloc' = [xloc EXCEPT ![w].res = "refused"]
            /\ subs' = [subs EXCEPT ![w].closed = TRUE, ![w].buf = << >>]
            /\ UNCHANGED delivered
       ELSE /\ xpc' = [xpc EXCEPT ![w] = "running"]
            /\ xloc' = [xloc EXCEPT ![w].res = "ok",
                                     ![w].last = IF evs # << >> THEN xloc[w].newest + 1 ELSE S]
            /\ delivered' = [delivered EXCEPT ![w] = @ \o evs]
            \* the forwarding loop immediately takes the oldest buffered batch, if any
            /\ subs' = [subs EXCEPT ![w] = IF subs[w].buf # << >>
                                           THEN [subs[w] EXCEPT !.hand = Head(subs[w].buf), !.hasHand = TRUE, !.buf = Tail(subs[w].buf)]
                                           ELSE subs[w]]
    /\ H(w, "Decide", IF StartOf(w) = 0 THEN "watch.subscribed" ELSE "watch.cacheread")
    /\ UNCHANGED <<WUnch, outClosed>>

\* the forwarding loop handles the batch it holds and takes the next one      gate: watch.process
Process(w) ==
    /\ xpc[w] = "running" /\ subs[w].hasHand
    /\ (w \in LazyWatchers => (subs[w].closed \/ (WritersDone /\ SeqIdle /\ chan = << >>)))
    /\ delivered' = [delivered EXCEPT ![w] = @ \o FilterPrefix(FilterRev(subs[w].hand, xloc[w].last), xreq[w].prefix)]
    /\ subs' = [subs EXCEPT ![w] = IF subs[w].buf # << >>
                                   THEN [subs[w] EXCEPT !.hand = Head(subs[w].buf), !.buf = Tail(subs[w].buf)]
                                   ELSE [subs[w] EXCEPT !.hand = << >>, !.hasHand = FALSE]]
    /\ H(w, "Process", "watch.process")
    /\ UNCHANGED <<WUnch, xpc, xloc, outClosed>>

\* subscriber channel closed and drained: close the client channel           gate: watch.closing
CloseOut(w) ==
    /\ xpc[w] = "running" /\ subs[w].closed /\ ~subs[w].hasHand /\ subs[w].buf = << >>
    /\ xpc' = [xpc EXCEPT ![w] = "closed"]
    /\ outClosed' = [outClosed EXCEPT ![w] = TRUE]
    /\ H(w, "CloseOut", "watch.closing")
    /\ UNCHANGED <<WUnch, subs, xloc, delivered>>

WatcherNext(w) == ListFirst(w) \/ Subscribe(w) \/ CacheRead(w) \/ Decide(w) \/ Process(w) \/ CloseOut(w)

-----------------------------------------------------------------------------
\* READERS (backend.List / backend.Get): a range read takes the committed revision as its header (and
\* as its read revision when the request names none), fetches the engine timestamp, compares its
\* revision with the compaction record, opens an iterator and scans the snapshot it gets.
\*                                                     range.go:33-170, scanner.go:87-131, 231-262
KeyLo == MinS(Keys)
KeyHi == MaxS(Keys)
ReadReqs == [kind : {"list"}, rev : ReadRevs, key : {0}] \cup [kind : {"get"}, rev : ReadRevs, key : Keys]
RUnch == <<store, floor, dealt, committed, slot, wvars, seqvars, chan, cache, rvars, faults, xvars, acked, maxRet, emitted, kinit, cvars>>
RangeOf(ix, vs, R) == WorkerRun(Records(ix, vs, KeyLo, KeyHi + 1), R, 0, FALSE, 0, {}).out
PointOf(vs, k, R) == LET v == IF R = 0 THEN Latest(vs[k]) ELSE NewestLE(vs[k], R) IN
                     IF IsLive(v) THEN <<[k |-> k, rev |-> v.rev, val |-> v.val]>> ELSE << >>
\* the header of a response never stays behind the data in it (Get: range.go:61-63, List: range.go:165-171)
HdrOver(h, res) == MaxS({h} \cup {res[i].rev : i \in 1..Len(res)})
ReadDone(r, refused, res) ==
    /\ reads' = reads \cup {[p |-> r, refused |-> refused, n |-> rdloc[r].n, kind |-> rdreq[r].kind, key |-> rdreq[r].key, req |-> rdreq[r].rev,
                             rev |-> rdloc[r].rev, hdr |-> HdrOver(rdloc[r].hdr, res), cm0 |-> rdloc[r].hdr, seen |-> rdloc[r].seen, fl0 |-> rdloc[r].fl0, fl1 |-> floor, res |-> res]}
    /\ rdpc' = [rdpc EXCEPT ![r] = "idle"]

\* request accepted: header and read revision                    parks at: kv.get (list) / kv.iter (get)
RInvoke(r) ==
    /\ rdpc[r] = "idle" /\ ~fin /\ rdloc[r].n < MaxReads
    /\ \E q \in ReadReqs :
         /\ rdreq' = [rdreq EXCEPT ![r] = q]
         /\ rdloc' = [rdloc EXCEPT ![r] = [rev |-> IF q.rev = 0 /\ q.kind = "list" THEN committed ELSE q.rev, hdr |-> committed,
                                            seen |-> maxRet, fl0 |-> floor, n |-> rdloc[r].n + 1,
                                            snapI |-> IF SnapAtTs THEN idx ELSE << >>, snapV |-> IF SnapAtTs THEN ver ELSE << >>]]
         /\ rdpc' = [rdpc EXCEPT ![r] = IF q.kind = "list" THEN "r_check" ELSE "r_iter"]
         /\ HF(r, "RInvoke", "start", q.kind, q.rev * 16 + q.key)
    /\ UNCHANGED <<RUnch, reads>>

\* the read revision against the compaction record                                        gate: kv.get
RCheck(r) ==
    /\ rdpc[r] = "r_check"
    /\ IF floor > rdloc[r].rev
       THEN ReadDone(r, TRUE, << >>)
       ELSE rdpc' = [rdpc EXCEPT ![r] = "r_iter"] /\ reads' = reads
    /\ H(r, "RCheck", "kv.get")
    /\ UNCHANGED <<RUnch, rdloc, rdreq>>

\* the iterator is opened and the snapshot scanned                                          gate: kv.iter
RIter(r) ==
    /\ rdpc[r] = "r_iter"
    /\ LET si == IF SnapAtTs /\ rdreq[r].kind = "list" THEN rdloc[r].snapI ELSE idx
           sv == IF SnapAtTs /\ rdreq[r].kind = "list" THEN rdloc[r].snapV ELSE ver IN
       ReadDone(r, FALSE, IF rdreq[r].kind = "list" THEN RangeOf(si, sv, rdloc[r].rev) ELSE PointOf(sv, rdreq[r].key, rdloc[r].rev))
    /\ H(r, "RIter", "kv.iter")
    /\ UNCHANGED <<RUnch, rdloc, rdreq>>

ReaderNext(r) == RInvoke(r) \/ RCheck(r) \/ RIter(r)
ReadersIdle == \A r \in Readers : rdpc[r] = "idle"

-----------------------------------------------------------------------------
\* COMPACTOR (backend.Compact): one request = clamp, raise the record, scan and delete. Atomic here;
\* the record-by-record behaviour incl. failures and crashes is explored in KBSeq.tla / Scanner.tla.
CompactReq(c) ==
    /\ ~CompactDetail /\ ~fin /\ (LateCompact => \A w \in Writers : wpc[w] = "idle" /\ wi[w] > OpsPer)
    /\ cn[c] < MaxCompacts
    /\ \E req \in CompactRevs :
         LET R0 == IF req = 0 \/ req > committed THEN committed ELSE req
             R  == IF retryQ # << >> /\ Head(retryQ).rev - 1 < R0 THEN Head(retryQ).rev - 1 ELSE R0
             run == WorkerRun(Records(idx, ver, KeyLo, KeyHi + 1), R, 0, TRUE, 0, {})
             st == ApplyDeletes(idx, ver, run.dels, [i \in 1..Len(run.dels) |-> "ok"], 1, Len(run.dels), 0) IN
         /\ idx' = st.idx /\ ver' = st.ver
         /\ floor' = IF R > floor THEN R ELSE floor
         /\ creq' = [creq EXCEPT ![c] = R]
         /\ HF(c, "CompactReq", "start", "", req)
    /\ cn' = [cn EXCEPT ![c] = @ + 1]
    /\ UNCHANGED <<hver, dealt, committed, slot, wvars, seqvars, chan, cache, rvars, faults, xvars, acked, maxRet, emitted, kinit, rdvars, cpc, cloc, fin>>

\* ---- the same request, one step per engine deletion (CompactDetail)
\* the revision backend.Compact settles on: the request clamped to the committed revision and
\* kept below the oldest unresolved operation                                   compact.go:30-43
ClampRev(req) == LET R0 == IF req = 0 \/ req > committed THEN committed ELSE req IN
                 IF retryQ # << >> /\ Head(retryQ).rev - 1 < R0 THEN Head(retryQ).rev - 1 ELSE R0
DelAnswers == IF faults < FaultBudget THEN {"ok"} \cup DelFaults ELSE {"ok"}
CUnch == <<hver, dealt, committed, slot, wpc, wops, wi, seqvars, chan, cache, rvars, xvars, acked, maxRet, emitted, kinit, rdvars, fin>>

\* request accepted: clamp, raise the record, fetch the timestamp, check the record again, ask
\* for the partitions; the worker is about to open its iterator                 parks at: kv.iter
CStart(c) ==
    /\ CompactDetail /\ ~fin /\ cpc[c] = "idle" /\ cn[c] < MaxCompacts
    /\ \E req \in CompactRevs :
         LET R == ClampRev(req) IN
         /\ floor' = IF RecordDetail THEN floor ELSE IF R > floor THEN R ELSE floor
         /\ creq' = [creq EXCEPT ![c] = R]
         \* (the engine timestamp is fetched here: an engine whose iterators read the snapshot of that
         \*  timestamp -- TiKV -- fixes what the worker will see now, the others when the iterator is opened)
         /\ cloc' = [cloc EXCEPT ![c] = [CLocInit EXCEPT !.rev = R, !.snapI = IF SnapAtTs THEN idx ELSE << >>,
                                                          !.snapV = IF SnapAtTs THEN ver ELSE << >>]]
         /\ HF(c, "CStart", "start", "", req)
    /\ cpc' = [cpc EXCEPT ![c] = IF RecordDetail THEN "c_rget" ELSE "c_iter"]
    /\ UNCHANGED <<idx, ver, wloc, faults, cn, CUnch>>

\* ---- the compaction record, step by step (RecordDetail)                 compact.go:70-105, scanner.go:612-630
CRUnch == <<idx, ver, wloc, faults, creq, CUnch>>
\* backend.setCompactRecord reads the record; a record that is already higher is left alone             gate: kv.get
CRecGet(c) ==
    /\ cpc[c] = "c_rget"
    /\ cloc' = [cloc EXCEPT ![c].seen = floor]
    /\ cpc' = [cpc EXCEPT ![c] = IF floor > cloc[c].rev THEN "c_sget" ELSE "c_rcas"]
    /\ H(c, "CRecGet", "kv.get")
    /\ UNCHANGED <<floor, cn, CRUnch>>
\* ... and raises it by put-if-absent / compare-and-swap against what it read; a lost compare ends the request   gate: kv.commit
CRecCas(c) ==
    /\ cpc[c] = "c_rcas"
    /\ IF floor = cloc[c].seen
       THEN /\ floor' = cloc[c].rev /\ cpc' = [cpc EXCEPT ![c] = "c_sget"] /\ cn' = cn
       ELSE /\ floor' = floor /\ cpc' = [cpc EXCEPT ![c] = "idle"] /\ cn' = [cn EXCEPT ![c] = @ + 1]
    /\ H(c, "CRecCas", "kv.commit")
    /\ UNCHANGED <<cloc, CRUnch>>
\* the scanner reads the record again (after fetching the engine timestamp)                                gate: kv.get
CScanGet(c) ==
    /\ cpc[c] = "c_sget"
    /\ cpc' = [cpc EXCEPT ![c] = IF floor >= cloc[c].rev THEN "c_iter" ELSE "c_sput"]
    /\ cloc' = [cloc EXCEPT ![c].snapI = IF SnapAtTs THEN idx ELSE << >>, ![c].snapV = IF SnapAtTs THEN ver ELSE << >>]
    /\ H(c, "CScanGet", "kv.get")
    /\ UNCHANGED <<floor, cn, CRUnch>>
\* ... and, finding it lower than its own revision, writes it unconditionally                                gate: kv.commit
CScanPut(c) ==
    /\ cpc[c] = "c_sput"
    /\ floor' = cloc[c].rev
    /\ cpc' = [cpc EXCEPT ![c] = "c_iter"]
    /\ H(c, "CScanPut", "kv.commit")
    /\ UNCHANGED <<cloc, cn, CRUnch>>

\* the worker opens its iterator: the engine hands it a snapshot; everything it will delete is
\* decided by that snapshot (Scanner!WorkerRun)                                  gate: kv.iter
CIter(c) ==
    /\ cpc[c] = "c_iter"
    /\ LET si == IF SnapAtTs THEN cloc[c].snapI ELSE idx
           sv == IF SnapAtTs THEN cloc[c].snapV ELSE ver
           run == WorkerRun(Records(si, sv, KeyLo, KeyHi + 1), cloc[c].rev, 0, TRUE, 0, {}) IN
       /\ cloc' = [cloc EXCEPT ![c].todo = run.dels, ![c].sidx = si, ![c].snapI = << >>, ![c].snapV = << >>]
       /\ cpc' = [cpc EXCEPT ![c] = IF run.dels = << >> THEN "idle" ELSE "c_del"]
       /\ cn' = [cn EXCEPT ![c] = IF run.dels = << >> THEN @ + 1 ELSE @]
    /\ H(c, "CIter", "kv.iter")
    /\ UNCHANGED <<idx, ver, floor, wloc, faults, creq, CUnch>>

\* one deletion: an old version / a tombstone (unconditional), or a tombstoned index record
\* (compare-and-delete against the snapshot value).  A failed deletion makes the worker skip the
\* rest of that key (except a lost compare-and-delete); "die": the worker ends here.
\*                                                                         gate: kv.del / kv.delcur
CDel(c) ==
    /\ cpc[c] = "c_del"
    /\ LET d == Head(cloc[c].todo)  k == d.k IN
       \E a \in DelAnswers :
         LET applied == a = "ok" /\ (d.r > 0 \/ idx[k] = cloc[c].sidx[k])
             newskip == IF a = "err" \/ (a = "cas" /\ d.op = "del") THEN k ELSE cloc[c].skip
             rest    == IF a = "die" THEN << >> ELSE SelectSeq(Tail(cloc[c].todo), LAMBDA x : x.k # newskip)
             idx2    == IF applied /\ d.r = 0 THEN [idx EXCEPT ![k] = NoIdx] ELSE idx
             ver2    == IF applied /\ d.r > 0 THEN [ver EXCEPT ![k] = {v \in @ : v.rev # d.r}] ELSE ver
         IN
         /\ faults' = IF a # "ok" THEN faults + 1 ELSE faults
         /\ idx' = idx2 /\ ver' = ver2
         /\ wloc' = DiffUpdate(wloc, k, idx2[k], ver2[k])
         /\ cloc' = [cloc EXCEPT ![c].todo = rest, ![c].skip = newskip, ![c].dead = (a = "die")]
         /\ cpc' = [cpc EXCEPT ![c] = IF rest = << >> THEN "idle" ELSE "c_del"]
         /\ cn' = [cn EXCEPT ![c] = IF rest = << >> THEN @ + 1 ELSE @]
         /\ HF(c, "CDel", IF d.op = "del" THEN "kv.del" ELSE "kv.delcur", a, 0)
    /\ UNCHANGED <<floor, creq, CUnch>>

CompactorNext(c) == CompactReq(c) \/ CStart(c) \/ CRecGet(c) \/ CRecCas(c) \/ CScanGet(c) \/ CScanPut(c) \/ CIter(c) \/ CDel(c)
CompactorsIdle == \A c \in Compactors : cpc[c] = "idle"

Quiescent == CompactorsIdle /\ ReadersIdle /\ WritersDone /\ SeqIdle /\ retryQ = << >> /\ rpc = "idle"
AllDone0 == /\ Quiescent /\ (Watchers = {} \/ chan = << >>)    \* (nobody consumes chan without watchers)
           /\ \A w \in Watchers : /\ xpc[w] \in {"running", "refused", "closed"}
                                  /\ ~subs[w].hasHand /\ subs[w].buf = << >>
                                  /\ (subs[w].closed => xpc[w] # "running")

AllDone == AllDone0

\* the single successor of a complete behaviour: a generator prints it exactly once
Finish ==
    /\ ~fin /\ AllDone0
    /\ fin' = TRUE
    /\ UNCHANGED <<store, floor, dealt, committed, slot, wvars, seqvars, chan, cache, rvars, faults, xvars, acked, maxRet, emitted, kinit, rdvars, cpc, cloc, creq, cn, hist>>

-----------------------------------------------------------------------------
WriterBusy == \E w \in Writers : wpc[w] # "idle"
Next ==
    IF AtomicWrites /\ WriterBusy
    THEN \E w \in Writers : wpc[w] # "idle" /\ WriterNext(w)
    ELSE \/ \E w \in Writers : WriterNext(w)
         \/ SeqNext
         \/ RetryNext
         \/ (Watchers # {} /\ HubDeliver)
         \/ \E w \in Watchers : WatcherNext(w)
         \/ \E c \in Compactors : CompactorNext(c)
         \/ \E r \in Readers : ReaderNext(r)
         \/ Finish

Fairness == /\ WF_vars(SeqNext) /\ WF_vars(RetryNext)
            /\ \A w \in Writers : WF_vars(WriterNext(w))
Spec == Init /\ [][Next]_vars /\ Fairness

-----------------------------------------------------------------------------
\* PROPERTIES

\* ---- C01
IndexAgrees == \A k \in Keys : IndexAgreesK(idx[k], ver[k])

AckedOk == {a \in acked : a.res = "ok"}

\* the predecessor of revision r in the full history of key k
Pred(k, r) == NewestLE(hver[k], r - 1)
PredLive(k, r) == NewestLE({v \in hver[k] : v.val # TOMB}, r - 1)
ChainOk(k, r, type, exp) ==
    LET p == Pred(k, r) IN
    CASE type = "create" -> ~IsLive(p)
      [] type = "update" /\ exp = 0 -> ~IsLive(p)
      [] type = "update" -> IsLive(p) /\ p.rev = exp
      [] type = "delete" /\ exp = 0 -> IsLive(p)
      [] type = "delete" -> IsLive(p) /\ p.rev = exp
Chain == \A a \in AckedOk : (\E v \in hver[a.key] : v.rev = a.rev) /\ ChainOk(a.key, a.rev, a.type, a.exp)

\* two writers conditioned on the same revision never both succeed
OneWinner == \A a, b \in AckedOk : (a # b /\ a.key = b.key /\ a.exp > 0) => a.exp # b.exp

\* a write that reported a failed condition or a certain error left the key unchanged
FailedLeavesKey ==
    \A a \in acked : a.res \in {"cas", "err", "notfound", "drift"} => \A v \in hver[a.key] : v.rev # a.rev

\* a condition is reported failed only if the key differed at some moment in flight
FailedOnlyIfDiffered == \A a \in acked : a.res \in {"cas", "notfound"} => a.diff

\* (C16, under concurrency) the key-value in a failure answer is a stored live version of the key.
\* (etcd reads the failure branch atomically with the compare, so its answer never carries the expected revision;
\*  kubebrain reads again after the refused commit, so it can: update(exp 4) refused while the key is absent, the key
\*  created at 4, then the re-read -- TLC finds this at once. What the trace specification demands instead is that the
\*  answer is not OLDER than the version that refused the commit: monitor FailedReturnsCurrent.)
FailedKvStored == \A a \in acked : (a.res = "cas" /\ a.kvrev > 0) =>
                      \E v \in hver[a.key] : v.rev = a.kvrev /\ v.val = a.kvval /\ v.val # TOMB

\* ---- C02
RealTimeOrder == \A w \in Writers : (wloc[w].rev > 0 /\ wpc[w] # "idle") => wloc[w].rev > wloc[w].floorRev
PerKeyIncreasing == \A k \in Keys : \A v, u \in hver[k] : v # u => v.rev # u.rev
HeaderCoversData == \A a \in acked : a.hdr >= a.kvrev /\ a.hdr >= a.rev
UniqueRevision == \A a, b \in acked : a # b => a.rev # b.rev

\* ---- C04
NoOvertake == \A w \in Writers : (wpc[w] # "idle" /\ wloc[w].rev > 0 /\ ~wloc[w].engDone) => committed < wloc[w].rev
NoOvertakeRetry == rpc = "commit" => committed < rloc.rev
Resolved == Quiescent => committed = dealt
EventuallyResolved == <>[](committed = dealt)

\* ---- C09
AckedDurable ==
    Quiescent => \A a \in AckedOk :
        \E v \in hver[a.key] : v.rev = a.rev /\ (a.type = "delete" <=> v.val = TOMB)
\* no unknown outcome is ever acknowledged as success or as a definite conflict: by construction the
\* response class of an "unk" commit is "unk"; what is checked is convergence:
\* at quiescence every stored version newer than Base has an event, or is an unacknowledged landed
\* write that was superseded (dropped from the repair queue because the key moved on)
Applies(evs, m0) ==   \* replay events over a key->[rev,val] map
    LET RECURSIVE A(_, _)
        A(s, m) == IF s = << >> THEN m
                   ELSE LET e == Head(s) IN
                        A(Tail(s), [m EXCEPT ![e.key] = IF e.type = EvDelete THEN NoVer ELSE [rev |-> e.rev, val |-> e.val]])
    IN A(evs, m0)
Snap0 == [k \in Keys |-> LET v == NewestLE(hver[k], Base) IN IF IsLive(v) THEN v ELSE NoVer]
SnapNow == [k \in Keys |-> LET v == Latest(hver[k]) IN IF IsLive(v) THEN v ELSE NoVer]
Converged == Quiescent => Applies(emitted, Snap0) = SnapNow

\* compaction never advances to an unresolved (unknown-outcome, not yet repaired) revision
CompactClamp == \A i \in 1..Len(retryQ) : floor < retryQ[i].rev
\* and therefore never removes what the repair has to read: the newest version of a queued key
RepairStillPossible == \A i \in 1..Len(retryQ) : LET e == retryQ[i] IN
                          (\E v \in hver[e.key] : v.rev = e.rev) => (\E v \in ver[e.key] : v.rev = e.rev)

\* ---- C08 under concurrency: whatever compaction requests overlap, the record only rises
FloorNeverLowered == [][floor' >= floor]_vars

\* ---- C07 under concurrency: whatever the compactor has deleted so far, every read at or above the
\* floor sees what the full history prescribes, and every key stays writable
SeenAt(vs, r) == LET v == NewestLE(vs, r) IN IF IsLive(v) THEN v ELSE NoVer
ReadsPreserved == \A k \in Keys : \A r \in floor..MaxRev : SeenAt(ver[k], r) = SeenAt(hver[k], r)
StaysWritable == \A k \in Keys : Writable(idx[k], ver[k])

\* ---- C03 / C04 / C08 under concurrency: what a read process returned
\* a range read that was answered with data at a revision that is still at or above the floor returned
\* exactly the snapshot of the full history at that revision -- judged against everything written up
\* to NOW, so a version at or below a readable revision that lands later is caught as well
ReadJudged(x) == ~x.refused /\ x.rev > 0 /\ x.rev <= x.cm0 /\ x.rev >= x.fl1
\* C02, last clause, for reads
HeaderCoversReads == \A x \in reads : \A i \in 1..Len(x.res) : x.hdr >= x.res[i].rev
ReadIsSnapshotC == \A x \in reads : ReadJudged(x) =>
                      IF x.kind = "list" THEN x.res = RangeRef(hver, Keys, x.rev, KeyLo, KeyHi + 1, 0).kvs
                                         ELSE x.res = PointOf(hver, x.key, x.rev)
\* a range read that names no revision is served at the revision of its header.
\* (NOT claimed, because it does not hold and no listed property asks for it: x.hdr >= x.seen. A write is
\*  acknowledged when its event is handed to the sequencer; the committed revision follows later, so a
\*  List without revision issued right after an acknowledged write can be served below that write.)
ReadAtHeader == \A x \in reads : (x.req = 0 /\ x.kind = "list") => x.rev = x.hdr
\* refused only below the record; below the record at the start: refused
RefusedBelowFloor == \A x \in reads : /\ (x.refused => x.rev < x.fl1)
                                       /\ ((x.kind = "list" /\ x.rev < x.fl0) => x.refused)

\* every emitted event describes a stored version
EventsMatchWrites ==
    \A i \in 1..Len(emitted) :
        LET e == emitted[i] IN
        /\ \E v \in hver[e.key] : v.rev = e.rev /\ (e.type = EvDelete <=> v.val = TOMB) /\ (e.type # EvDelete => v.val = e.val)
        \* a delete event carries the last LIVE value before it (a repaired delete follows its own,
        \* unacknowledged tombstone)
        /\ e.type = EvDelete => (LET p == PredLive(e.key, e.rev) IN p.val = e.val /\ p.rev = e.kvrev)
        /\ i > 1 => emitted[i-1].rev < e.rev
AckedEmitted == Quiescent => \A a \in AckedOk : \E i \in 1..Len(emitted) : emitted[i].rev = a.rev

\* ---- C05
Expected(w) == FilterPrefix(FilterRev(emitted, StartOf(w)), xreq[w].prefix)
DeliveredIsPrefix ==
    \A w \in Watchers : StartOf(w) > 0 /\ xpc[w] # "start" => IsPrefix(delivered[w], Expected(w))
\* a watch from "now" (start 0) delivers a gap-free run of the matching events
IsInfix(s, t) == \E i \in 0..(Len(t) - Len(s)) : SubSeq(t, i + 1, i + Len(s)) = s
DeliveredIsInfix ==
    \A w \in Watchers : xreq[w].start = 0 => IsInfix(delivered[w], FilterPrefix(emitted, xreq[w].prefix))
RefusedDeliversNothing == \A w \in Watchers : xloc[w].res = "refused" => delivered[w] = << >>
CompleteAtQuiescence ==
    AllDone => \A w \in Watchers : (xpc[w] = "running" /\ StartOf(w) > 0) => delivered[w] = Expected(w)

\* ---- C06: list at R, watch from R + 1: the list result plus the delivered events is the snapshot
\* at the revision of the last delivered event
ListWatchAgree ==
    \A w \in Watchers : (xreq[w].start = ListMark /\ xloc[w].listed /\ delivered[w] # << >>) =>
        LET R2 == delivered[w][Len(delivered[w])].rev
            snap == [k \in Keys |-> IF k \in PrefixOf[xreq[w].prefix] /\ IsLive(NewestLE(hver[k], R2)) THEN NewestLE(hver[k], R2) ELSE NoVer]
        IN Applies(delivered[w], xloc[w].lsnap) = snap

-----------------------------------------------------------------------------
\* generator support: one JSON object per complete behaviour
Final == [idx |-> idx, ver |-> ver, floor |-> floor, committed |-> committed, dealt |-> dealt, acked |-> acked,
          delivered |-> delivered, xres |-> [w \in Watchers |-> xloc[w].res], closed |-> outClosed,
          retryQ |-> Len(retryQ), emitted |-> emitted, reads |-> reads]
Behaviour == [kinit |-> kinit, wops |-> wops, xreq |-> xreq, steps |-> hist, final |-> Final]
Dump == fin => PrintT(<<"BEHAVIOUR", ToJson(Behaviour)>>)

View == <<idx, ver, floor, dealt, committed, slot, wpc, wloc, wops, wi, seqpc, seqev, batch, tsopre, chan, cache,
          retryQ, rpc, rloc, faults, subs, xpc, xloc, xreq, outClosed, delivered, emitted, acked, maxRet, cpc, cloc, cn, rdpc, rdloc, rdreq, reads>>
=============================================================================
