------------------------------ MODULE StorageRace ------------------------------
(***************************************************************************)
(* The engine contract for CONCURRENT write batches (C11, and the premise   *)
(* of C01 "on every storage engine"): a batch's conditions are evaluated    *)
(* and its effects applied in one atomic step at Commit.  Two clients       *)
(* assemble a batch each (BeginBatchWrite ... ops), in any interleaving,     *)
(* then commit; an engine may make the second client wait (memkv holds its   *)
(* lock from BeginBatchWrite to Commit) or report a conflict as a failed     *)
(* condition (optimistic engines), but whatever it answers must be           *)
(* explainable by running the two batches one after the other.              *)
(*                                                                         *)
(* AtomicCommit = FALSE models an adapter that evaluates the conditions     *)
(* when the operation is added to the batch: TLC then finds the lost         *)
(* update (two compare-and-swaps from the same value both succeed).          *)
(***************************************************************************)
EXTENDS Integers, Sequences, FiniteSets, TLC, Json

CONSTANTS KeyPos, Vals, AtomicCommit, GenHist
Absent == "<absent>"
Clients == {"A", "B"}

OpSet == [o : {"pine"}, k : KeyPos, v : Vals, old : {Absent}]
    \cup [o : {"cas"}, k : KeyPos, v : Vals, old : Vals]
    \cup [o : {"put"}, k : KeyPos, v : Vals, old : {Absent}]
    \cup [o : {"del"}, k : KeyPos, v : {Absent}, old : {Absent}]
CondHolds(m, op) ==
    CASE op.o = "pine" -> m[op.k] = Absent
      [] op.o = "cas"  -> m[op.k] # Absent /\ m[op.k] = op.old
      [] OTHER -> TRUE
Effect(m, op) == IF op.o = "del" THEN [m EXCEPT ![op.k] = Absent] ELSE [m EXCEPT ![op.k] = op.v]

VARIABLES kv0,    \* initial contents
          kv,     \* contents
          op,     \* [Clients -> the single operation of the client's batch]
          pc,     \* [Clients -> "begin" | "added" | "done"]
          seen,   \* [Clients -> condition as evaluated when the operation was added] (AtomicCommit = FALSE)
          res     \* [Clients -> "" | "ok" | "cas"]
vars == <<kv0, kv, op, pc, seen, res>>

Init == /\ kv0 \in [KeyPos -> Vals \cup {Absent}] /\ kv = kv0
        /\ op \in [Clients -> OpSet]
        /\ pc = [c \in Clients |-> "begin"] /\ seen = [c \in Clients |-> TRUE] /\ res = [c \in Clients |-> ""]

Add(c) == /\ pc[c] = "begin" /\ pc' = [pc EXCEPT ![c] = "added"]
          /\ seen' = [seen EXCEPT ![c] = CondHolds(kv, op[c])]
          /\ UNCHANGED <<kv0, kv, op, res>>
Commit(c) ==
    /\ pc[c] = "added" /\ pc' = [pc EXCEPT ![c] = "done"]
    /\ LET holds == IF AtomicCommit THEN CondHolds(kv, op[c]) ELSE seen[c] IN
       /\ kv' = IF holds THEN Effect(kv, op[c]) ELSE kv
       /\ res' = [res EXCEPT ![c] = IF holds THEN "ok" ELSE "cas"]
    /\ UNCHANGED <<kv0, op, seen>>
Next == \E c \in Clients : Add(c) \/ Commit(c)

Done == \A c \in Clients : pc[c] = "done"
\* outcome of running batch x, then batch y, atomically each
Serial(m, x, y) ==
    LET hx == CondHolds(m, x)  m1 == IF hx THEN Effect(m, x) ELSE m
        hy == CondHolds(m1, y) m2 == IF hy THEN Effect(m1, y) ELSE m1 IN
    [rx |-> IF hx THEN "ok" ELSE "cas", ry |-> IF hy THEN "ok" ELSE "cas", m |-> m2]
\* an optimistic engine may also refuse the later of two conflicting batches outright
Explained(m0, a, b, ra, rb, m) ==
    \/ LET s == Serial(m0, a, b) IN s.rx = ra /\ s.ry = rb /\ s.m = m
    \/ LET s == Serial(m0, b, a) IN s.rx = rb /\ s.ry = ra /\ s.m = m
    \/ (a.k = b.k /\ ra = "ok" /\ rb = "cas" /\ CondHolds(m0, a) /\ m = Effect(m0, a))
    \/ (a.k = b.k /\ rb = "ok" /\ ra = "cas" /\ CondHolds(m0, b) /\ m = Effect(m0, b))
Serializable == Done => Explained(kv0, op["A"], op["B"], res["A"], res["B"], kv)

\* generator: one line per (initial contents, pair of operations)
Dump == Done => PrintT(<<"BEHAVIOUR", ToJson([init |-> kv0, a |-> op["A"], b |-> op["B"]])>>)
\* (cases only: the interleaving is the engine's)
GenInit == /\ kv0 \in [KeyPos -> Vals \cup {Absent}] /\ kv = kv0 /\ op \in [Clients -> OpSet]
           /\ pc = [c \in Clients |-> "done"] /\ seen = [c \in Clients |-> TRUE] /\ res = [c \in Clients |-> ""]
GenNext == UNCHANGED vars
=============================================================================
