------------------------------ MODULE MetricsReg ------------------------------
(***************************************************************************)
(* C20: "no request can crash a node, with production metrics enabled".     *)
(* The production metrics client (pkg/metrics/prometheus) creates a vector   *)
(* per metric name on first use: look the name up under the read lock; on a  *)
(* miss take the write lock, look it up AGAIN, and only then create and      *)
(* register it.  Registering one name twice makes the Prometheus client      *)
(* panic, inside whatever request handler emitted the metric.               *)
(*                                                                         *)
(* Two or three request goroutines emit the same not-yet-known metric.      *)
(* DoubleCheck = FALSE is the getter without the second lookup: TLC finds    *)
(* the double registration.                                                 *)
(***************************************************************************)
EXTENDS Integers, Sequences, FiniteSets, TLC, Json

CONSTANTS Threads, DoubleCheck, GenHist

VARIABLES known,      \* the name is in the map
          registered, \* times the name was registered with the Prometheus registry
          lock,       \* holder of the write lock ("" = free)
          pc,         \* [Threads -> "start" | "missed" | "locked" | "done"]
          hist
vars == <<known, registered, lock, pc, hist>>

Init == known = FALSE /\ registered = 0 /\ lock = "" /\ pc = [t \in Threads |-> "start"] /\ hist = << >>
H(t, a) == hist' = IF GenHist THEN Append(hist, [t |-> t, a |-> a]) ELSE hist

\* lookup under the read lock                                      parks at: metrics.miss (on a miss)
Lookup(t) == /\ pc[t] = "start" /\ lock = ""
             /\ pc' = [pc EXCEPT ![t] = IF known THEN "done" ELSE "missed"]
             /\ H(t, "Lookup") /\ UNCHANGED <<known, registered, lock>>
\* take the write lock, look again, create and register, release                  gate: metrics.miss
Create(t) == /\ pc[t] = "missed" /\ lock = ""
             /\ IF DoubleCheck /\ known
                THEN UNCHANGED <<known, registered>>
                ELSE known' = TRUE /\ registered' = registered + 1
             /\ pc' = [pc EXCEPT ![t] = "done"]
             /\ H(t, "Create") /\ UNCHANGED lock
Next == \E t \in Threads : Lookup(t) \/ Create(t)

RegisteredOnce == registered <= 1
Done == \A t \in Threads : pc[t] = "done"
Dump == Done => PrintT(<<"BEHAVIOUR", ToJson([steps |-> hist])>>)
=============================================================================
