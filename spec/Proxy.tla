------------------------------- MODULE Proxy -------------------------------
(***************************************************************************)
(* C18, part 3: "... or forwards it to the leader".                         *)
(*                                                                         *)
(* A node that is not leader and has the etcd proxy enabled                 *)
(* (pkg/server/service/etcdproxy/etcd_proxy.go) keeps one etcd client       *)
(* connected to the node its election view names as leader. A loop          *)
(* (checkLeaderLoop, once a second) looks at the connection and at the      *)
(* view: a dead connection is dropped; a new name in the view replaces the  *)
(* client -- and ends every watch that streams through the old one. Write   *)
(* transactions and watches that reach the follower's etcd endpoint travel  *)
(* through that client.                                                     *)
(*                                                                         *)
(* The model has the follower f, two serving nodes, the real leadership     *)
(* (which the election view follows with a delay) and one step per          *)
(* critical section of the code: LeaderChange / ViewUpdate (the election),  *)
(* Tick (updateClient), Down (a node stops serving), Txn and StartWatch     *)
(* (requests at the follower), Write (a client of the leader itself).       *)
(***************************************************************************)
EXTENDS Integers, Sequences, FiniteSets, TLC, Json

CONSTANTS Nodes,        \* serving nodes, e.g. {"a", "b"}
          MaxSteps,     \* bound on the length of a behaviour
          StickyClient, \* FALSE (the code): a new name in the view replaces the client; TRUE: the client is kept (what it must not do)
          GenHist

None == "none"
VARIABLES leader,    \* the node that leads, or None
          view,      \* the follower's election view: a node, or None
          conn,      \* the node the follower's client is connected to, or None
          up,        \* the nodes that serve
          applied,   \* sequence of [by, led]: who applied a write, and who led at that moment
          watches,   \* open proxied watches: set of [id, src]
          nwatch, closedW, \* watch ids handed out; ids of watches that were ended by the proxy
          last,      \* outcome of the last request at the follower
          steps, hist
vars == <<leader, view, conn, up, applied, watches, nwatch, closedW, last, steps, hist>>

Init == /\ leader \in Nodes /\ view = leader /\ conn = leader /\ up = Nodes
        /\ applied = << >> /\ watches = {} /\ nwatch = 0 /\ closedW = {} /\ last = "-" /\ steps = 0
        /\ hist = IF GenHist THEN <<[a |-> "Init", n |-> leader]>> ELSE << >>

H(o) == /\ hist' = IF GenHist THEN Append(hist, o) ELSE hist
        /\ steps' = steps + 1

\* the election: leadership moves (or is lost), the follower's view catches up later
LeaderChange(n) == /\ n \in (up \cup {None}) /\ n # leader
                   /\ leader' = n
                   /\ H([a |-> "LeaderChange", n |-> n])
                   /\ UNCHANGED <<view, conn, up, applied, watches, nwatch, closedW, last>>
ViewUpdate == /\ view # leader
              /\ view' = leader
              /\ H([a |-> "ViewUpdate", n |-> leader])
              /\ UNCHANGED <<leader, conn, up, applied, watches, nwatch, closedW, last>>
\* a node stops serving (its process dies); it also stops leading
Down(n) == /\ n \in up
           /\ up' = up \ {n}
           /\ leader' = IF leader = n THEN None ELSE leader
           /\ H([a |-> "Down", n |-> n])
           /\ UNCHANGED <<view, conn, applied, watches, nwatch, closedW, last>>

\* updateClient: the connection is probed; the view is compared with the name the client was made for
Tick ==
    LET dead == conn # None /\ conn \notin up
        moved == view \notin {None, conn} /\ ~StickyClient
        newconn == IF dead THEN None                                   \* (this round only drops the client)
                   ELSE IF moved THEN (IF view \in up THEN view ELSE None)
                   ELSE conn IN
    /\ conn' = newconn
    \* every watch through a client that is replaced or dropped is ended
    /\ closedW' = IF newconn # conn THEN closedW \cup {w.id : w \in watches} ELSE closedW
    /\ watches' = IF newconn # conn THEN {} ELSE watches
    /\ H([a |-> "Tick", n |-> newconn])
    /\ UNCHANGED <<leader, view, up, applied, nwatch, last>>

\* a write transaction arrives at the follower's etcd endpoint
Txn ==
    /\ IF conn # None /\ conn \in up /\ conn = leader
       THEN /\ applied' = Append(applied, [by |-> conn, led |-> leader])
            /\ last' = "applied"
       ELSE /\ applied' = applied
            /\ last' = "refused"          \* no client, a dead one, or a node that does not lead: an error, nothing written
    /\ H([a |-> "Txn", n |-> conn])
    /\ UNCHANGED <<leader, view, conn, up, watches, nwatch, closedW>>
\* a watch arrives at the follower's etcd endpoint
StartWatch ==
    /\ nwatch < 2
    /\ IF conn # None /\ conn \in up /\ conn = leader
       THEN /\ watches' = watches \cup {[id |-> nwatch + 1, src |-> conn]}
            /\ last' = "streaming"
       ELSE /\ watches' = watches
            /\ last' = "refused"
    /\ nwatch' = nwatch + 1
    /\ H([a |-> "StartWatch", n |-> conn])
    /\ UNCHANGED <<leader, view, conn, up, applied, closedW>>
\* a client of the leader itself writes (the proxied watches see the event)
Write == /\ leader # None
         /\ applied' = Append(applied, [by |-> leader, led |-> leader])
         /\ H([a |-> "Write", n |-> leader])
         /\ UNCHANGED <<leader, view, conn, up, watches, nwatch, closedW, last>>

Next == /\ steps < MaxSteps
        /\ \/ \E n \in Nodes \cup {None} : LeaderChange(n)
           \/ ViewUpdate \/ Tick \/ Txn \/ StartWatch \/ Write
           \/ \E n \in Nodes : Down(n)
Spec == Init /\ [][Next]_vars

\* ---- what the property demands
\* a write is applied only by the node that leads at that moment (never by the follower, which is not in Nodes)
OnlyLeaderApplies == \A i \in 1..Len(applied) : applied[i].by = applied[i].led
\* a proxied watch streams from the node the client is connected to: it does not outlive the client it was started on
WatchFollowsClient == \A w \in watches : w.src = conn
\* once the loop has seen the new view, the follower no longer talks to the old node
TickAdoptsView == [][(Tick /\ view \in up /\ conn \in up \cup {None}) => conn' = view]_vars

Done == steps = MaxSteps
Dump == Done => PrintT(<<"BEHAVIOUR", ToJson([steps |-> hist])>>)
View == <<leader, view, conn, up, Len(applied), watches, nwatch, closedW, last, steps>>
=============================================================================
