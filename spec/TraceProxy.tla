----------------------------- MODULE TraceProxy -----------------------------
(***************************************************************************)
(* Trace specification for C18, part 3 (Proxy.tla): "X" lines are the steps *)
(* of a behaviour of Proxy.tla executed on the real etcd proxy of a         *)
(* follower against two real etcd gRPC servers.                             *)
(*                                                                         *)
(* The scripted part of the state (leader, view, up) is recomputed from the *)
(* lines. The proxy's own part (the node its client is connected to, and    *)
(* which watches that client carries) is driven by a loop with its own      *)
(* clock: one round a second, logged or not. The specification therefore    *)
(* keeps the SET of states Proxy.tla allows for it (`worlds`): before every *)
(* observation zero, one or two unlogged rounds of Tick may have happened   *)
(* (two rounds reach the fixed point: drop a dead client, connect to the    *)
(* view); a logged Tick is at least one. An observation keeps the worlds it *)
(* is consistent with; it is a violation when none is left.                 *)
(***************************************************************************)
EXTENDS Integers, Sequences, FiniteSets, TLC, Json, IOUtils

Trace == ndJsonDeserialize(IOEnv.KB_TRACE)
None == "none"
AllNodes == {"a", "b"}
VARIABLES l, viol, leader, view, up, worlds
tvars == <<l, viol, leader, view, up, worlds>>
E == Trace[l]
Is(a) == l <= Len(Trace) /\ E.e = "X" /\ E.a = a
Adv == l' = l + 1
V(cond, name) == IF cond \/ (\E v \in viol : v[1] = name) THEN {} ELSE {<<name, l>>}

TInit == l = 1 /\ viol = {} /\ leader = None /\ view = None /\ up = AllNodes /\ worlds = {[conn |-> None, ws |-> << >>]}

\* one round of the loop: Tick of Proxy.tla (StickyClient = FALSE) on one world
Round(w) ==
    LET dead == w.conn # None /\ w.conn \notin up
        moved == view \notin {None, w.conn}
        nc == IF dead THEN None ELSE IF moved THEN (IF view \in up THEN view ELSE None) ELSE w.conn IN
    [conn |-> nc, ws |-> IF nc # w.conn THEN [i \in DOMAIN w.ws |-> [w.ws[i] EXCEPT !.live = FALSE]] ELSE w.ws]
Rounds(W) == {Round(w) : w \in W}
\* zero, one or two unlogged rounds
Drift(W) == W \cup Rounds(W) \cup Rounds(Rounds(W))

Applies(c) == c # None /\ c \in up /\ c = leader
ObsOf(c) == IF c = None THEN "none" ELSE IF c \notin up THEN "dead" ELSE IF c = leader THEN "leader" ELSE c
\* the worlds an observation is consistent with; none left: the observation contradicts the model (the step then keeps all)
Kept(W, P(_)) == {w \in W : P(w)}
Pick(W, K) == IF K = {} THEN W ELSE K

TStart == /\ Is("Init") /\ Adv
          /\ leader' = E.n /\ view' = E.n /\ up' = AllNodes /\ worlds' = {[conn |-> E.n, ws |-> << >>]} /\ UNCHANGED viol
TLeader == /\ Is("LeaderChange") /\ Adv /\ leader' = E.n /\ UNCHANGED <<viol, view, up, worlds>>
TView == /\ Is("ViewUpdate") /\ Adv /\ view' = leader
         /\ viol' = viol \cup V(E.n = leader, "ProxyScript")
         /\ UNCHANGED <<leader, up, worlds>>
TDown == /\ Is("Down") /\ Adv /\ up' = up \ {E.n} /\ leader' = IF leader = E.n THEN None ELSE leader
         /\ UNCHANGED <<viol, view, worlds>>
\* a logged round (the driver waited for at least one): the follower's client points where a world says
TTick ==
    /\ Is("Tick") /\ Adv
    /\ LET Ok(w) == E.obs = ObsOf(w.conn)
           W == Drift(Rounds(worlds))
           K == Kept(W, Ok) IN
       /\ worlds' = Pick(W, K)
       /\ viol' = viol \cup V(K # {}, "ProxyTickAdoptsView")
    /\ UNCHANGED <<leader, view, up>>
TTxn ==
    /\ Is("Txn") /\ Adv
    /\ LET Ok(w) == E.ok = Applies(w.conn) /\ E.by = (IF Applies(w.conn) THEN w.conn ELSE "none")
           W == Drift(worlds)
           K == Kept(W, Ok) IN
       /\ worlds' = Pick(W, K)
       /\ viol' = viol \cup V(K # {}, "ProxyTxnOutcome")
                       \cup V(E.ok => (E.stored_rev = E.resp_rev /\ E.stored = "v"), "ProxyTxnFaithful")
                       \cup V(~E.ok => E.stored_rev = 0, "ProxyRefusedNotWritten")
                       \cup V(E.by \in {"none", leader}, "OnlyLeaderApplies")
                       \cup V(E.fwrites = 0, "FollowerNeverWrites") \cup V(E.fwatch = 0, "FollowerNeverStreamsOwnHistory")
    /\ UNCHANGED <<leader, view, up>>
TWrite == /\ Is("Write") /\ Adv /\ UNCHANGED <<viol, leader, view, up, worlds>>
WatchChecks ==
    V(E.fwrites = 0, "FollowerNeverWrites") \cup V(E.fwatch = 0, "FollowerNeverStreamsOwnHistory")
    \* what arrives through the proxy is what the leader announced: in order, once, nothing else, no gap
    \cup V(E.holes = 0 /\ E.wrong = 0 /\ E.dups = 0 /\ E.disorder = 0, "ProxyWatchFaithful")
TStartWatch ==
    /\ Is("StartWatch") /\ Adv
    /\ worlds' = {[w EXCEPT !.ws = Append(@, [src |-> w.conn, live |-> w.conn # None])] : w \in Drift(worlds)}
    /\ viol' = viol \cup WatchChecks \cup V(E.created, "ProxyWatchAnswered")
    /\ UNCHANGED <<leader, view, up>>
TWatchState ==
    /\ (Is("WatchState") \/ Is("WatchEnd")) /\ Adv
    /\ LET Streams(w) == w.ws[E.id].live /\ w.ws[E.id].src = leader /\ w.ws[E.id].src \in up
           \* a watch does not outlive the client it was started on; while it streams from the node that leads it is not
           \* ended and (at the end of the behaviour, after a settling time) has got everything
           Ok(w) == /\ (~w.ws[E.id].live => E.canceled)
                    /\ (Streams(w) => ~E.canceled)
                    /\ ((E.a = "WatchEnd" /\ Streams(w)) => E.missing = 0)
           W == Drift(worlds)
           K == Kept(W, Ok) IN
       /\ worlds' = Pick(W, K)
       /\ viol' = viol \cup WatchChecks \cup V(K # {}, "ProxyWatchEndsWithClient")
    /\ UNCHANGED <<leader, view, up>>
TReset == /\ l <= Len(Trace) /\ E.e = "Reset" /\ Adv
          /\ leader' = None /\ view' = None /\ up' = AllNodes /\ worlds' = {[conn |-> None, ws |-> << >>]} /\ UNCHANGED viol

TNext == TStart \/ TLeader \/ TView \/ TDown \/ TTick \/ TTxn \/ TWrite \/ TStartWatch \/ TWatchState \/ TReset
TSpec == TInit /\ [][TNext]_tvars
TraceAccepted == TLCGet("stats").diameter - 1 = Len(Trace)
NoViol(name) == \A v \in viol : v[1] # name
M_ProxyTickAdoptsView == NoViol("ProxyTickAdoptsView")
M_ProxyTxnOutcome == NoViol("ProxyTxnOutcome")
M_ProxyTxnFaithful == NoViol("ProxyTxnFaithful")
M_ProxyRefusedNotWritten == NoViol("ProxyRefusedNotWritten")
M_OnlyLeaderApplies == NoViol("OnlyLeaderApplies")
M_FollowerNeverWrites == NoViol("FollowerNeverWrites")
M_FollowerNeverStreamsOwnHistory == NoViol("FollowerNeverStreamsOwnHistory")
M_ProxyWatchFaithful == NoViol("ProxyWatchFaithful")
M_ProxyWatchAnswered == NoViol("ProxyWatchAnswered")
M_ProxyWatchEndsWithClient == NoViol("ProxyWatchEndsWithClient")
M_ProxyScript == NoViol("ProxyScript")
=============================================================================
