CONSTANTS
  Keys = {1}
  Vals = {"x"}
  Writers = {"c1", "c2"}
  OpsPer = 1
  Base = 3
  InitStates = {"none", "live", "deleted", "compacted", "recreated"}
  Fut = 50
  ExpSet = {0, 1, 3, 4, 50}
  ConflictCarriesValue = TRUE
  FaultKinds = {}
  FaultBudget = 0
  Watchers = {}
  WatchStarts = {0}
  WatchPrefixes = {0}
  PrefixOf <- MCPrefixOf
  CacheSize = 2
  SubCap = 2
  RingCap = 0
  ClearInvalid = TRUE
  EventBatch = 0
  SeqDetail = FALSE
  TsoDetail = FALSE
  Readers = {}
  ReadRevs = {0}
  MaxReads = 0
  SnapAtTs = FALSE
  Compactors = {}
  CompactRevs = {}
  MaxCompacts = 0
  DelFaults = {}
  CompactDetail = FALSE
  RecordDetail = FALSE
  LateCompact = FALSE
  EagerSeq = FALSE
  FixedOps <- MCNoFixedOps
  LazyWatchers = {}
  AtomicWrites = FALSE
  GenHist = FALSE
INIT Init
NEXT Next
VIEW View
INVARIANTS IndexAgrees Chain OneWinner FailedLeavesKey FailedOnlyIfDiffered RealTimeOrder PerKeyIncreasing HeaderCoversData UniqueRevision NoOvertake NoOvertakeRetry Resolved AckedDurable EventsMatchWrites AckedEmitted Converged
CHECK_DEADLOCK FALSE
