------------------------------ MODULE KBDefs ------------------------------
(***************************************************************************)
(* Pure operators shared by every kubebrain specification module:          *)
(* the abstract form of the stored history and the MVCC reference          *)
(* semantics (what a read at revision R has to return).                    *)
(*                                                                         *)
(* A key's history is                                                      *)
(*    idx : the index record  E(k,0)  = NoIdx | [rev, del]                  *)
(*    ver : the set of version records E(k,rev) = [rev, val]               *)
(* where val = TOMB marks a deletion record.                               *)
(***************************************************************************)
EXTENDS Integers, Sequences, FiniteSets

TOMB  == "tombstone"        \* the reserved deletion marker of the code
NoIdx == [rev |-> 0, del |-> FALSE]
NoVer == [rev |-> 0, val |-> "-"]

MaxS(S) == CHOOSE x \in S : \A y \in S : y <= x
MinS(S) == CHOOSE x \in S : \A y \in S : x <= y
MaxOr0(S) == IF S = {} THEN 0 ELSE MaxS(S)

\* newest version with revision <= R (NoVer if none)
NewestLE(vs, R) ==
    LET c == {v \in vs : v.rev <= R} IN
    IF c = {} THEN NoVer ELSE CHOOSE v \in c : \A w \in c : w.rev <= v.rev

Latest(vs) == IF vs = {} THEN NoVer ELSE CHOOSE v \in vs : \A w \in vs : w.rev <= v.rev

IsLive(v) == v # NoVer /\ v.val # TOMB

\* the set of keys visible at R
VisibleKeys(ver, KS, R) == {k \in KS : IsLive(NewestLE(ver[k], R))}

\* ascending sequence of the elements of a finite set of integers
RECURSIVE SortedSeq(_)
SortedSeq(S) == IF S = {} THEN << >> ELSE LET m == MinS(S) IN <<m>> \o SortedSeq(S \ {m})

\* MVCC reference: range read at R over keys lo <= k < hi (key numbers), limit lim (0 = none)
\* result = [kvs : sequence of [k, rev, val], more : BOOLEAN]
RangeRef(ver, KS, R, lo, hi, lim) ==
    LET ks  == SortedSeq({k \in VisibleKeys(ver, KS, R) : lo <= k /\ k < hi})
        all == [i \in 1..Len(ks) |-> LET v == NewestLE(ver[ks[i]], R) IN [k |-> ks[i], rev |-> v.rev, val |-> v.val]]
    IN  IF lim > 0 /\ Len(all) > lim
        THEN [kvs |-> SubSeq(all, 1, lim), more |-> TRUE]
        ELSE [kvs |-> all, more |-> FALSE]

\* point read at R (R = 0 means "newest stored")
PointRef(ver, k, R) ==
    LET v == IF R = 0 THEN Latest(ver[k]) ELSE NewestLE(ver[k], R) IN
    IF IsLive(v) THEN [found |-> TRUE, rev |-> v.rev, val |-> v.val]
                 ELSE [found |-> FALSE, rev |-> 0, val |-> "-"]

\* index record agrees with the newest version
\* (a tombstoned index may outlive its versions: a compaction whose compare-and-delete of the index
\*  lost still deletes the versions; the next compaction removes the index)
IndexAgreesK(idx, vs) ==
    idx # NoIdx => LET l == Latest(vs) IN
                   IF idx.del THEN l = NoVer \/ (l.rev = idx.rev /\ l.val = TOMB)
                              ELSE l.rev = idx.rev /\ l.val # TOMB

\* every key stays writable with normal semantics: the index of a live key names its newest version,
\* a dead key has no index or a tombstoned one (over which a create may compare-and-swap)
Writable(ix, vs) == LET x == Latest(vs) IN IF IsLive(x) THEN ix = [rev |-> x.rev, del |-> FALSE] ELSE (ix = NoIdx \/ ix.del)

\* event that a successful write produces
EvCreate == "CREATE"
EvPut    == "PUT"
EvDelete == "DELETE"

=============================================================================
