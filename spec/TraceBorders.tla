------------------------------ MODULE TraceBorders ------------------------------
(***************************************************************************)
(* Trace specification for the compaction ranges (C07, "keys outside the    *)
(* configured compaction ranges are not touched").  One line per run of a   *)
(* real backend configured with a prefix and a list of skipped prefixes      *)
(* (intervals of Borders.tla): ten keys with two versions each, one          *)
(* Compact(0); recorded: the keys on which the compactor issued a deletion.  *)
(***************************************************************************)
EXTENDS Integers, Sequences, FiniteSets, TLC, Json, IOUtils

Trace == ndJsonDeserialize(IOEnv.KB_TRACE)
VARIABLES l, viol
vars == <<l, viol>>
E == Trace[l]
V(cond, name) == IF cond \/ (\E v \in viol : v[1] = name) THEN {} ELSE {<<name, l>>}

Main == <<1, 9>>
Keys == 1..10
Under(k, iv) == iv[1] <= k /\ k < iv[2]
Meant(sk, k) == Under(k, Main) /\ \A i \in 1..Len(sk) : ~Under(k, sk[i])
WellFormed(sk) == /\ \A i \in 1..Len(sk) : Main[1] <= sk[i][1] /\ sk[i][2] <= Main[2]
                  /\ \A i, j \in 1..Len(sk) : i # j => (sk[i][2] <= sk[j][1] \/ sk[j][2] <= sk[i][1])
SetOf(s) == {s[i] : i \in 1..Len(s)}

TInit == l = 1 /\ viol = {}
TSkip == /\ l <= Len(Trace) /\ E.e = "SkipRun" /\ l' = l + 1
         /\ LET del == SetOf(E.deleted)  m == {k \in Keys : Meant(E.skipped, k)} IN
            viol' = viol \cup V(del \subseteq m, IF WellFormed(E.skipped) THEN "OnlyConfiguredRanges" ELSE "OnlyConfiguredRangesOddConfig")
                         \cup V(m \subseteq del, IF WellFormed(E.skipped) THEN "AllConfiguredRanges" ELSE "AllConfiguredRangesOddConfig")
TReset == l <= Len(Trace) /\ E.e = "Reset" /\ l' = l + 1 /\ UNCHANGED viol
TNext == TSkip \/ TReset
TSpec == TInit /\ [][TNext]_vars
TraceAccepted == TLCGet("stats").diameter - 1 = Len(Trace)
NoViol(name) == \A v \in viol : v[1] # name
M_OnlyConfiguredRanges == NoViol("OnlyConfiguredRanges")
M_AllConfiguredRanges == NoViol("AllConfiguredRanges")
M_OnlyConfiguredRangesOddConfig == NoViol("OnlyConfiguredRangesOddConfig")
M_AllConfiguredRangesOddConfig == NoViol("AllConfiguredRangesOddConfig")
=============================================================================
