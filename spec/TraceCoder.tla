------------------------------ MODULE TraceCoder ------------------------------
(***************************************************************************)
(* Trace specification for C10: every line is one evaluation of the REAL    *)
(* coder functions; the result must be what Coder.tla computes, and the     *)
(* logged encodings -- emitted by the harness in (key, revision) order --   *)
(* must be strictly ascending bytewise.                                     *)
(***************************************************************************)
EXTENDS Integers, Sequences, FiniteSets, TLC, Json, IOUtils

Magic == <<87, 251, 128, 139>>
Split == 36
Zero8 == <<0, 0, 0, 0, 0, 0, 0, 0>>
Encode(k, r) == Magic \o k \o <<Split>> \o r
RECURSIVE LexLess(_, _)
LexLess(a, b) ==
    IF b = << >> THEN FALSE
    ELSE IF a = << >> THEN TRUE
    ELSE IF Head(a) # Head(b) THEN Head(a) < Head(b)
    ELSE LexLess(Tail(a), Tail(b))
RECURSIVE PrefixEndFrom(_, _)
PrefixEndFrom(p, i) ==
    IF i = 0 THEN <<0>>
    ELSE IF p[i] < 255 THEN SubSeq(p, 1, i - 1) \o <<p[i] + 1>>
    ELSE PrefixEndFrom(p, i - 1)
PrefixEnd(p) == PrefixEndFrom(p, Len(p))
IsPrefixOf(p, k) == Len(p) <= Len(k) /\ SubSeq(k, 1, Len(p)) = p

Trace == ndJsonDeserialize(IOEnv.KB_TRACE)
VARIABLES l, prev, viol
vars == <<l, prev, viol>>
E == Trace[l]
Is(e) == l <= Len(Trace) /\ E.e = e
V(cond, name) == IF cond \/ (\E v \in viol : v[1] = name) THEN {} ELSE {<<name, l>>}

TInit == l = 1 /\ prev = << >> /\ viol = {}

\* [k, r, enc, dk, dr, dok]: key, revision, real encoding, real decoding of that encoding
TEnc ==
    /\ Is("Enc") /\ l' = l + 1
    /\ viol' = viol
         \cup V(E.enc = Encode(E.k, E.r), "EncodeIsSpec")
         \cup V(E.dok /\ E.dk = E.k /\ E.dr = E.r, "RoundTrip")
         \cup (IF prev # << >> THEN V(LexLess(prev, E.enc), "OrderPreserved") ELSE {})
    /\ prev' = E.enc
TOrderReset == /\ (Is("OrderReset") \/ Is("Reset")) /\ l' = l + 1 /\ prev' = << >> /\ UNCHANGED viol
\* [p, end]: real PrefixEnd
TPrefixEnd ==
    /\ Is("PrefixEnd") /\ l' = l + 1
    /\ viol' = viol \cup V(E.end = PrefixEnd(E.p), "PrefixEndIsSpec")
    /\ UNCHANGED prev
\* [p, k, inprefix, inbounds]: membership of k in prefix p, and whether the REAL bounds
\* Encode(p,0) <= Encode(k,r) < Encode(PrefixEnd(p),0) enclose the REAL encoding of (k, r)
TBounds ==
    /\ Is("Bounds") /\ l' = l + 1
    /\ viol' = viol \cup V(E.inprefix = IsPrefixOf(E.p, E.k), "PrefixMembership")
                    \cup (IF E.finite THEN V(E.inbounds = E.inprefix, "BoundsEnclose") ELSE {})
    /\ UNCHANGED prev
\* [b, ok, r, tomb]: real ParseRevision
TParse ==
    /\ Is("ParseRev") /\ l' = l + 1
    /\ viol' = viol \cup V(IF Len(E.b) = 8 THEN E.ok /\ ~E.tomb /\ E.r = E.b
                           ELSE IF Len(E.b) = 9 THEN E.ok /\ E.tomb /\ E.r = SubSeq(E.b, 1, 8)
                           ELSE ~E.ok, "ParseRevisionIsSpec")
    /\ UNCHANGED prev

TNext == TEnc \/ TOrderReset \/ TPrefixEnd \/ TBounds \/ TParse
TSpec == TInit /\ [][TNext]_vars
TraceAccepted == TLCGet("stats").diameter - 1 = Len(Trace)
NoViol(name) == \A v \in viol : v[1] # name
M_EncodeIsSpec == NoViol("EncodeIsSpec")
M_RoundTrip == NoViol("RoundTrip")
M_OrderPreserved == NoViol("OrderPreserved")
M_PrefixEndIsSpec == NoViol("PrefixEndIsSpec")
M_PrefixMembership == NoViol("PrefixMembership")
M_BoundsEnclose == NoViol("BoundsEnclose")
M_ParseRevisionIsSpec == NoViol("ParseRevisionIsSpec")
=============================================================================
