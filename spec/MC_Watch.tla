---- MODULE MC_Watch ----
EXTENDS KubeBrain
\* prefix ids: 0 = "/" (every key), 1 = "/a-" (key 2 only), 2 = "/a/" (key 3 only)
MCPrefixOf == [p \in {0, 1, 2} |-> CASE p = 0 -> Keys [] p = 1 -> Keys \cap {2} [] p = 2 -> Keys \cap {3}]
MCNoFixedOps == << >>
MCAlternate == << [type |-> "create", key |-> 1, val |-> "x", exp |-> 0], [type |-> "delete", key |-> 1, val |-> "-", exp |-> 0],
                  [type |-> "create", key |-> 1, val |-> "x", exp |-> 0], [type |-> "update", key |-> 1, val |-> "x", exp |-> 6],
                  [type |-> "create", key |-> 2, val |-> "x", exp |-> 0] >>
\* every writer creates key 1 (racing creates over one tombstone / one missing key)
MCCreateOnly == << [type |-> "create", key |-> 1, val |-> "x", exp |-> 0] >>
\* every writer deletes key 1
MCDeleteOnly == << [type |-> "delete", key |-> 1, val |-> "-", exp |-> 0] >>
====
