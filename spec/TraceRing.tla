------------------------------ MODULE TraceRing ------------------------------
(***************************************************************************)
(* Trace specification for the event cache: every lookup executed on the    *)
(* real Ring after a recorded fill is re-evaluated with Ring!Find on the     *)
(* window rebuilt from the recorded additions.                              *)
(***************************************************************************)
EXTENDS Integers, Sequences, FiniteSets, TLC, Json, IOUtils

Trace == ndJsonDeserialize(IOEnv.KB_TRACE)
VARIABLES l, win, cap, viol
vars == <<l, win, cap, viol>>
E == Trace[l]
Is(e) == l <= Len(Trace) /\ E.e = e
V(cond, name) == IF cond \/ (\E v \in viol : v[1] = name) THEN {} ELSE {<<name, l>>}

Find(w, S) ==
    IF w = << >> THEN [kind |-> "empty", revs |-> << >>]
    ELSE IF S > w[Len(w)] THEN [kind |-> "high", revs |-> << >>]
    ELSE IF S < w[1] THEN [kind |-> "low", revs |-> << >>]
    ELSE [kind |-> "slice", revs |-> SelectSeq(w, LAMBDA r : r >= S)]

TInit == l = 1 /\ win = << >> /\ cap = 1 /\ viol = {}
TNew == /\ Is("RingNew") /\ l' = l + 1 /\ win' = << >> /\ cap' = E.cap /\ UNCHANGED viol
TAdd == /\ Is("RingAdd") /\ l' = l + 1
        /\ win' = IF Len(win) = cap THEN Append(Tail(win), E.rev) ELSE Append(win, E.rev)
        /\ UNCHANGED <<cap, viol>>
TFind == /\ Is("RingFind") /\ l' = l + 1
         /\ LET f == Find(win, E.s) IN
            viol' = viol \cup V(E.kind = f.kind, "RingFindKind")
                         \cup V(E.kind = "slice" => E.revs = f.revs, "RingFindEvents")
                         \cup V(E.kind \in {"slice", "high", "low"} => (E.newest = win[Len(win)] /\ E.oldest = win[1]), "RingFindBounds")
         /\ UNCHANGED <<win, cap>>
TReset == /\ Is("Reset") /\ l' = l + 1 /\ win' = << >> /\ UNCHANGED <<cap, viol>>
TNext == TNew \/ TAdd \/ TFind \/ TReset
TSpec == TInit /\ [][TNext]_vars
TraceAccepted == TLCGet("stats").diameter - 1 = Len(Trace)
NoViol(name) == \A v \in viol : v[1] # name
M_RingFindKind == NoViol("RingFindKind")
M_RingFindEvents == NoViol("RingFindEvents")
M_RingFindBounds == NoViol("RingFindBounds")
=============================================================================
