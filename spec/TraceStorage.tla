------------------------------ MODULE TraceStorage ------------------------------
(***************************************************************************)
(* Trace specification for C11: every operation an adapter performed is     *)
(* re-executed on the Storage.tla contract; result class, returned values   *)
(* and iterator contents must be the ones the contract prescribes.          *)
(***************************************************************************)
EXTENDS Integers, Sequences, FiniteSets, TLC, Json, IOUtils, SequencesExt

Trace == ndJsonDeserialize(IOEnv.KB_TRACE)
MaxPos == 9
KeyPos == 1..MaxPos
Absent == "<absent>"

VARIABLES l, kv, its, viol
vars == <<l, kv, its, viol>>
E == Trace[l]
Is(e) == l <= Len(Trace) /\ E.e = e
V(cond, name) == IF cond \/ (\E v \in viol : v[1] = name) THEN {} ELSE {<<name, l>>}

TInit == l = 1 /\ kv = [k \in KeyPos |-> Absent] /\ its = << >> /\ viol = {}

CondHolds(m, op) ==
    CASE op.o = "pine" -> m[op.k] = Absent
      [] op.o = "cas"  -> m[op.k] # Absent /\ m[op.k] = op.old
      [] OTHER -> TRUE
Effect(m, op) == IF op.o = "del" THEN [m EXCEPT ![op.k] = Absent] ELSE [m EXCEPT ![op.k] = op.v]
RECURSIVE RunBatch(_, _)
RunBatch(m, ops) ==
    IF ops = << >> THEN [ok |-> TRUE, m |-> m]
    ELSE IF ~CondHolds(m, Head(ops)) THEN [ok |-> FALSE, m |-> m]
    ELSE RunBatch(Effect(m, Head(ops)), Tail(ops))
RECURSIVE Asc(_, _, _)
Asc(m, lo, hi) == IF lo >= hi THEN << >>
                  ELSE (IF lo \in KeyPos /\ m[lo] # Absent THEN << <<lo, m[lo]>> >> ELSE << >>) \o Asc(m, lo + 1, hi)
RECURSIVE Desc(_, _, _)
Desc(m, hi, lo) == IF hi <= lo THEN << >>
                   ELSE (IF hi \in KeyPos /\ m[hi] # Absent THEN << <<hi, m[hi]>> >> ELSE << >>) \o Desc(m, hi - 1, lo)
IterSeq(m, s, e) == IF s < e THEN Asc(m, s, e) ELSE IF s > e THEN Desc(m, s, e) ELSE << >>

TReset == /\ (Is("SReset") \/ Is("Reset")) /\ l' = l + 1 /\ kv' = [k \in KeyPos |-> Absent] /\ its' = << >> /\ UNCHANGED viol

TCommit ==
    /\ Is("SCommit") /\ l' = l + 1
    /\ LET r == RunBatch(kv, E.ops) IN
       /\ kv' = IF r.ok THEN r.m ELSE kv
       /\ viol' = viol \cup V(E.res = (IF r.ok THEN "ok" ELSE "cas"), "ConditionExactly")
    /\ UNCHANGED its

TGet ==
    /\ Is("SGet") /\ l' = l + 1
    /\ viol' = viol \cup V(E.v = (IF E.k \in KeyPos THEN kv[E.k] ELSE Absent), "GetReturnsStored")
    /\ UNCHANGED <<kv, its>>

TDel ==
    /\ Is("SDel") /\ l' = l + 1
    /\ kv' = [kv EXCEPT ![E.k] = Absent]
    /\ viol' = viol \cup V(E.res = "ok", "DelUnconditional")
    /\ UNCHANGED its

TIterOpen ==
    /\ Is("SIterOpen") /\ l' = l + 1
    /\ its' = Append(its, [items |-> IterSeq(kv, E.s, E.en), pos |-> 0, limit |-> E.limit])
    /\ viol' = viol \cup V(E.res = "ok" /\ E.id = Len(its) + 1, "IterOpens")
    /\ UNCHANGED kv

TIterNext ==
    /\ Is("SIterNext") /\ l' = l + 1
    /\ LET it == its[E.id] IN
       /\ viol' = viol \cup
            (IF E.res = "ok"
             THEN V(it.pos < Len(it.items) /\ it.items[it.pos + 1] = <<E.k, E.v>>, "IterYieldsInterval")
             ELSE V(E.res = "eof" /\ (it.pos >= Len(it.items) \/ (it.limit > 0 /\ it.pos >= it.limit)), "IterYieldsInterval"))
       /\ its' = IF E.res = "ok" THEN [its EXCEPT ![E.id].pos = @ + 1] ELSE its
    /\ UNCHANGED kv

\* the logged remainder must be a prefix of the snapshot's remainder; all of it without a limit,
\* at least up to the limit with one
TIterDrain ==
    /\ Is("SIterDrain") /\ l' = l + 1
    /\ LET it == its[E.id]
           rest == SubSeq(it.items, it.pos + 1, Len(it.items))
           got == E.items
           need == IF it.limit = 0 THEN Len(rest)
                   ELSE IF it.limit - it.pos < 0 THEN 0
                   ELSE IF it.limit - it.pos < Len(rest) THEN it.limit - it.pos ELSE Len(rest) IN
       /\ viol' = viol \cup V(IsPrefix(got, rest) /\ Len(got) >= need /\ E.res = "eof", "IterYieldsInterval")
       /\ its' = [its EXCEPT ![E.id].pos = Len(it.items) + 1]
    /\ UNCHANGED kv

TDelCur ==
    /\ Is("SDelCur") /\ l' = l + 1
    /\ LET it == its[E.id]
           cur == it.items[it.pos]
           ok == kv[cur[1]] = cur[2] IN
       /\ kv' = IF ok THEN [kv EXCEPT ![cur[1]] = Absent] ELSE kv
       /\ viol' = viol \cup V(E.res = (IF ok THEN "ok" ELSE "cas"), "ConditionExactly")
    /\ UNCHANGED its

\* two batches committed in parallel (StorageRace.tla): the recorded results and final contents must be what
\* running them one after the other gives, in one of the two orders; a batch the engine refused with an
\* error other than a failed condition (a transaction conflict on an optimistic engine) must have had no effect
RK == {2, 4}
MapOf(r) == [k \in RK |-> r[ToString(k)]]
OpOf(o) == [o |-> o.o, k |-> o.k, v |-> o.v, old |-> o.old]
Serial(m, x, y) ==
    LET hx == CondHolds(m, x)  m1 == IF hx THEN Effect(m, x) ELSE m
        hy == CondHolds(m1, y) m2 == IF hy THEN Effect(m1, y) ELSE m1 IN
    [rx |-> IF hx THEN "ok" ELSE "cas", ry |-> IF hy THEN "ok" ELSE "cas", m |-> m2]
Alone(m, x) == LET h == CondHolds(m, x) IN [r |-> IF h THEN "ok" ELSE "cas", m |-> IF h THEN Effect(m, x) ELSE m]
Explained(m0, a, b, ra, rb, m) ==
    \/ LET s == Serial(m0, a, b) IN s.rx = ra /\ s.ry = rb /\ s.m = m
    \/ LET s == Serial(m0, b, a) IN s.rx = rb /\ s.ry = ra /\ s.m = m
    \/ (ra = "err" /\ rb \in {"ok", "cas"} /\ Alone(m0, b).r = rb /\ Alone(m0, b).m = m)
    \/ (rb = "err" /\ ra \in {"ok", "cas"} /\ Alone(m0, a).r = ra /\ Alone(m0, a).m = m)
    \/ (ra = "err" /\ rb = "err" /\ m = m0)
    \* an optimistic engine may report the write-write conflict of the losing batch as a failed condition
    \/ (a.k = b.k /\ ra = "ok" /\ rb = "cas" /\ CondHolds(m0, a) /\ m = Effect(m0, a))
    \/ (a.k = b.k /\ rb = "ok" /\ ra = "cas" /\ CondHolds(m0, b) /\ m = Effect(m0, b))
TRace ==
    /\ Is("SRace") /\ l' = l + 1
    /\ viol' = viol \cup V(Explained(MapOf(E.init), OpOf(E.a), OpOf(E.b), E.ra, E.rb, MapOf(E.final)), "BatchesSerializable")
    /\ UNCHANGED <<kv, its>>

\* an iterator over many keys (more than an engine fetches at once), with a batch committed after it was opened:
\* it yields the contents at the time it was opened -- all of them, in order, the deleted key included, the new one not
TIterBulk ==
    /\ Is("SIterBulk") /\ l' = l + 1
    /\ viol' = viol \cup V(E.write_ok => (E.yielded = E.n /\ E.saw_deleted /\ ~E.saw_new /\ E.ordered), "IterSnapshotBulk")
    /\ UNCHANGED <<kv, its>>

\* a batch of more operations than an engine may take in one transaction, alone and with a condition that fails: all of it
\* or nothing, whatever the engine answered; with the failing condition: refused
TBigBatch ==
    /\ Is("SBigBatch") /\ l' = l + 1
    /\ viol' = viol \cup V(E.scan_ok => (/\ (E.res = "ok" => E.visible = E.n) /\ (E.res # "ok" => E.visible = 0)
                                          /\ (E.with_failing_condition => E.res # "ok")), "BigBatchAllOrNothing")
    /\ UNCHANGED <<kv, its>>

\* a lookup that ran next to the two commits panicked or returned a value the key never had
TRaceRead == /\ Is("SRaceRead") /\ l' = l + 1 /\ viol' = viol \cup V(FALSE, "ReadsDuringBatches") /\ UNCHANGED <<kv, its>>

TNext == TRaceRead \/ TBigBatch \/ TIterBulk \/ TRace \/ TReset \/ TCommit \/ TGet \/ TDel \/ TIterOpen \/ TIterNext \/ TIterDrain \/ TDelCur
TSpec == TInit /\ [][TNext]_vars
TraceAccepted == TLCGet("stats").diameter - 1 = Len(Trace)
NoViol(name) == \A v \in viol : v[1] # name
M_ConditionExactly   == NoViol("ConditionExactly")
M_BigBatchAllOrNothing == NoViol("BigBatchAllOrNothing")
M_BatchesSerializable == NoViol("BatchesSerializable")
M_ReadsDuringBatches == NoViol("ReadsDuringBatches")
M_IterSnapshotBulk == NoViol("IterSnapshotBulk")
M_GetReturnsStored   == NoViol("GetReturnsStored")
M_DelUnconditional   == NoViol("DelUnconditional")
M_IterOpens          == NoViol("IterOpens")
M_IterYieldsInterval == NoViol("IterYieldsInterval")
=============================================================================
