------------------------------ MODULE TraceElection ------------------------------
(***************************************************************************)
(* Trace specification for C14 and C15.                                     *)
(*  C14: every Get / Create / Update of the real resource lock is           *)
(*  re-executed on the lock record rebuilt from the logged engine commits:  *)
(*  Create succeeds iff the record is absent, Update iff the record still   *)
(*  equals what that candidate last read; every change of the record comes  *)
(*  from such a successful conditional write.                                *)
(*  C15: every revision a new leader hands out exceeds every revision that  *)
(*  was stored when it started; guarded writes on old keys work; old data   *)
(*  is visible.                                                              *)
(***************************************************************************)
EXTENDS Integers, Sequences, FiniteSets, TLC, Json, IOUtils

Trace == ndJsonDeserialize(IOEnv.KB_TRACE)
VARIABLES l, rec, last, wins, maxStored, started, viol
vars == <<l, rec, last, wins, maxStored, started, viol>>
E == Trace[l]
Is(e) == l <= Len(Trace) /\ E.e = e
V(cond, name) == IF cond \/ (\E v \in viol : v[1] = name) THEN {} ELSE {<<name, l>>}
Cands == {"a", "b", "c"}

TInit == l = 1 /\ rec = "" /\ last = [c \in Cands |-> "?"] /\ wins = {} /\ maxStored = 0 /\ started = FALSE /\ viol = {}
TReset == /\ Is("Reset") /\ l' = l + 1 /\ rec' = "" /\ last' = [c \in Cands |-> "?"] /\ wins' = {} /\ maxStored' = 0 /\ started' = FALSE /\ UNCHANGED viol

\* engine commit on the election key: [ops, pre, post, res, applied]
ElecOps(ops) == {i \in 1..Len(ops) : ops[i].kk = "special" /\ ops[i].name = "election"}
ValOf(v) == IF v[1] = "n" THEN "" ELSE v[4]
TCommit ==
    /\ Is("Commit") /\ l' = l + 1
    /\ LET es == ElecOps(E.ops) IN
       IF es = {} THEN UNCHANGED <<rec, viol>>
       ELSE LET i == CHOOSE i \in es : TRUE
                op == E.ops[i]
                cond == IF op.o = "pine" THEN rec = "" ELSE IF op.o = "cas" THEN rec # "" /\ rec = ValOf(op.old) ELSE FALSE IN
            /\ rec' = ValOf(E.post[i])
            /\ viol' = viol \cup V(ValOf(E.pre[i]) = rec, "RecordTracked")
                            \cup V(op.o \in {"pine", "cas"}, "NeverSilentlyOverwritten")
                            \cup V(E.applied = cond, "ConditionalLockWrite")
                            \cup V(E.applied \/ E.post[i] = E.pre[i], "NeverSilentlyOverwritten")
    /\ UNCHANGED <<last, wins, maxStored, started>>

TGet ==
    /\ Is("LGet") /\ l' = l + 1
    /\ viol' = viol \cup V(E.found = (rec # "") /\ (E.found => E.rec = rec), "GetReturnsRecord")
    /\ last' = [last EXCEPT ![E.c] = rec]
    /\ UNCHANGED <<rec, wins, maxStored, started>>

\* Create/Update are logged AFTER their commit: rec is already the post state; prev = the record before
TCreate ==
    /\ Is("LCreate") /\ l' = l + 1
    /\ viol' = viol \cup V(E.ok = (E.prev = ""), "CreateOnlyIfAbsent")
                    \cup (IF E.ok THEN V(Cardinality({w \in wins : w[2] = "create"}) = 0, "AtMostOneCreate") ELSE {})
    /\ wins' = IF E.ok THEN wins \cup {<<E.c, "create", "">>} ELSE wins
    /\ last' = IF E.ok THEN [last EXCEPT ![E.c] = E.rec] ELSE last
    /\ UNCHANGED <<rec, maxStored, started>>

TUpdate ==
    /\ Is("LUpdate") /\ l' = l + 1
    /\ viol' = viol \cup V(E.ok = (E.prev # "" /\ E.prev = last[E.c]), "UpdateOnlyIfUnchanged")
                    \cup (IF E.ok THEN V(\A w \in wins : ~(w[2] = "update" /\ w[3] = E.prev), "NoTwoFromSameObserved") ELSE {})
    /\ wins' = IF E.ok THEN wins \cup {<<E.c, "update", E.prev>>} ELSE wins
    /\ UNCHANGED <<rec, last, maxStored, started>>

\* ---- C15
TStored == /\ Is("Stored") /\ l' = l + 1 /\ maxStored' = E.max /\ started' = FALSE /\ UNCHANGED <<rec, last, wins, viol>>
TLeaderStart == /\ Is("LeaderStart") /\ l' = l + 1 /\ started' = TRUE /\ UNCHANGED <<rec, last, wins, maxStored, viol>>
TNewWrite ==
    /\ Is("NewWrite") /\ l' = l + 1
    /\ viol' = viol \cup V(E.rev > maxStored, "NewRevisionsAboveStored")
                    \cup (IF E.guarded THEN V(E.ok, "GuardedWritesKeepWorking") ELSE {})
    /\ UNCHANGED <<rec, last, wins, maxStored, started>>
TListAfter ==
    /\ Is("ListAfter") /\ l' = l + 1
    /\ viol' = viol \cup V(E.missing = 0, "OldDataVisible")
    /\ UNCHANGED <<rec, last, wins, maxStored, started>>
TPanic == /\ Is("Panic") /\ l' = l + 1 /\ viol' = viol \cup V(FALSE, "NoPanic") /\ UNCHANGED <<rec, last, wins, maxStored, started>>
TSkip == /\ l <= Len(Trace) /\ E.e \in {"Get", "IterOpen", "IterItem", "Note", "Notify", "Deal", "Committed", "CacheAdd", "Flush", "Del", "DelCur"} /\ l' = l + 1
         /\ UNCHANGED <<rec, last, wins, maxStored, started, viol>>

TNext == TPanic \/ TReset \/ TCommit \/ TGet \/ TCreate \/ TUpdate \/ TStored \/ TLeaderStart \/ TNewWrite \/ TListAfter \/ TSkip
TSpec == TInit /\ [][TNext]_vars
TraceAccepted == TLCGet("stats").diameter - 1 = Len(Trace)
NoViol(name) == \A v \in viol : v[1] # name
M_RecordTracked == NoViol("RecordTracked")
M_NeverSilentlyOverwritten == NoViol("NeverSilentlyOverwritten")
M_ConditionalLockWrite == NoViol("ConditionalLockWrite")
M_GetReturnsRecord == NoViol("GetReturnsRecord")
M_CreateOnlyIfAbsent == NoViol("CreateOnlyIfAbsent")
M_AtMostOneCreate == NoViol("AtMostOneCreate")
M_UpdateOnlyIfUnchanged == NoViol("UpdateOnlyIfUnchanged")
M_NoTwoFromSameObserved == NoViol("NoTwoFromSameObserved")
M_NewRevisionsAboveStored == NoViol("NewRevisionsAboveStored")
M_GuardedWritesKeepWorking == NoViol("GuardedWritesKeepWorking")
M_OldDataVisible == NoViol("OldDataVisible")
M_NoPanic == NoViol("NoPanic")
=============================================================================
