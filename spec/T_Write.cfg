SPECIFICATION TSpec
CHECK_DEADLOCK FALSE
INVARIANTS
  M_CommitAtomic M_WriteCondition M_WriteValue M_RepairCondition M_PerKeyIncreasing M_FailedOnlyIfDiffered
  M_FailedLeavesKey M_SuccessMeansWritten M_DeleteReturnsPrev M_IndexAgrees M_UniqueRevision M_RealTimeOrder
  M_HeaderCoversData M_NoOvertake M_CommittedMonotone M_CommittedWasReported M_Resolved M_UnknownIsError
  M_Converged M_FloorMonotone
POSTCONDITION TraceAccepted
