------------------------------ MODULE Scanner ------------------------------
(***************************************************************************)
(* Transcription of pkg/backend/scanner/scanner.go as pure operators:       *)
(*   Records      the stored records of a key interval in engine order      *)
(*   WorkerRun    worker.run: one pass over the records of one partition,   *)
(*                producing the range result and, when compacting, the      *)
(*                ordered list of deletions it issues                       *)
(*   AdjustBorders / PartitionedRun   scanner.adjustPartitionsBorders + scan *)
(*   ApplyDeletes the effect of a (possibly failing, possibly interrupted)  *)
(*                sequence of deletions on the store                        *)
(*                                                                         *)
(* A record is [k, r, val, irev, idel]: r = 0 is the index record of key k  *)
(* (irev, idel = stored revision and deletion flag), r > 0 a version.       *)
(***************************************************************************)
EXTENDS KBDefs

Rec(k, r, val, irev, idel) == [k |-> k, r |-> r, val |-> val, irev |-> irev, idel |-> idel]

\* records of one key in engine order: index first, versions by ascending revision
KeyRecords(k, ix, vs) ==
    LET revs == SortedSeq({v.rev : v \in vs})
        vers == [i \in 1..Len(revs) |-> LET v == CHOOSE v \in vs : v.rev = revs[i] IN Rec(k, v.rev, v.val, 0, FALSE)]
    IN (IF ix = NoIdx THEN << >> ELSE <<Rec(k, 0, "idx", ix.rev, ix.del)>>) \o vers

\* all records with lo <= k < hi
RECURSIVE RecordsFrom(_, _, _, _)
RecordsFrom(idx, ver, k, hi) ==
    IF k >= hi THEN << >> ELSE KeyRecords(k, idx[k], ver[k]) \o RecordsFrom(idx, ver, k + 1, hi)
Records(idx, ver, lo, hi) == RecordsFrom(idx, ver, lo, hi)

\* internal-key order on positions <<k, r>>
PosLess(a, b) == a[1] < b[1] \/ (a[1] = b[1] /\ a[2] < b[2])
\* records whose position lies in [from, to)
Slice(recs, from, to) ==
    SelectSeq(recs, LAMBDA x : ~PosLess(<<x.k, x.r>>, from) /\ PosLess(<<x.k, x.r>>, to))

-----------------------------------------------------------------------------
\* worker.run.  st = [pk, pr, pv, out, dels, skip]
\*   pk/pr/pv  previous record (key, revision, value)         scanner.go:408-414,493-495
\*   out       result (sequence of [k, rev, val])
\*   dels      deletions issued, in order: [op, k, r]          op = "del" | "delcur"
ScanInit == [pk |-> 0, pr |-> 0, pv |-> "-", out |-> << >>, dels |-> << >>]

NeedMore(st, limit) == limit = 0 \/ Len(st.out) < limit

Emit(st) == IF st.pr > 0 /\ st.pv # TOMB
            THEN [st EXCEPT !.out = Append(@, [k |-> st.pk, rev |-> st.pr, val |-> st.pv])] ELSE st

\* one iteration of the loop for record x                       scanner.go:416-496
\*   R          read / compaction revision
\*   compact    compaction switch
\*   texp       timeout revision (0 = no expiry here), evk = set of keys that are Event records
ScanStep(st, x, R, compact, texp, evk) ==
    IF texp > 0 /\ x.k \in evk /\ x.r = 0 /\ x.irev <= texp
    THEN [st EXCEPT !.dels = Append(@, [op |-> "delcur", k |-> x.k, r |-> 0])]          \* expired index
    ELSE IF texp > 0 /\ x.k \in evk /\ x.r > 0 /\ x.r <= texp
    THEN [st EXCEPT !.dels = Append(@, [op |-> "del", k |-> x.k, r |-> x.r])]           \* expired version
    ELSE IF x.r > R THEN st
    ELSE LET s1 == IF x.k # st.pk THEN Emit(st)
                   ELSE IF compact /\ st.pr > 0
                        THEN [st EXCEPT !.dels = Append(@, [op |-> "del", k |-> st.pk, r |-> st.pr])]
                        ELSE st
             s2 == IF compact /\ x.r > 0 /\ x.val = TOMB
                   THEN [s1 EXCEPT !.dels = Append(@, [op |-> "del", k |-> x.k, r |-> x.r])] ELSE s1
         IN IF compact /\ x.r = 0 /\ x.idel
            THEN IF x.irev > R THEN s2        \* continue: the cursor is NOT advanced (scanner.go:482-486)
                 ELSE [s2 EXCEPT !.dels = Append(@, [op |-> "delcur", k |-> x.k, r |-> 0]),
                                 !.pk = x.k, !.pr = x.r, !.pv = x.val]
            ELSE [s2 EXCEPT !.pk = x.k, !.pr = x.r, !.pv = x.val]

RECURSIVE ScanLoop(_, _, _, _, _, _, _)
ScanLoop(st, recs, R, limit, compact, texp, evk) ==
    IF recs = << >>
    THEN (IF NeedMore(st, limit) THEN Emit(st) ELSE st)         \* EOF: add the last result
    ELSE IF ~NeedMore(st, limit) THEN st                         \* limit reached before EOF
    ELSE ScanLoop(ScanStep(st, Head(recs), R, compact, texp, evk), Tail(recs), R, limit, compact, texp, evk)

WorkerRun(recs, R, limit, compact, texp, evk) == ScanLoop(ScanInit, recs, R, limit, compact, texp, evk)

\* Range with a limit (single worker, limit+1 fetched by the caller)  range.go:153-171
RangeLimited(recs, R, lim) ==
    LET res == WorkerRun(recs, R, IF lim > 0 THEN lim + 1 ELSE 0, FALSE, 0, {}).out IN
    IF lim > 0 /\ Len(res) > lim THEN [kvs |-> SubSeq(res, 1, lim), more |-> TRUE]
    ELSE [kvs |-> res, more |-> FALSE]

-----------------------------------------------------------------------------
\* partitions: borders are positions <<k, r>>; a border with r # 0 is pulled back to <<k, 0>>
\*                                                                   scanner.go:202-225
AdjustBorder(b) == IF b[2] # 0 THEN <<b[1], 0>> ELSE b

\* borders: ascending sequence of inner borders (already sorted: the code sorts partitions by start)
PartitionedRun(recs, from, to, borders, R) ==
    LET bs == <<from>> \o [i \in 1..Len(borders) |-> AdjustBorder(borders[i])] \o <<to>>
        piece(i) == WorkerRun(Slice(recs, bs[i], bs[i + 1]), R, 0, FALSE, 0, {}).out
        RECURSIVE Cat(_)
        Cat(i) == IF i >= Len(bs) THEN << >> ELSE piece(i) \o Cat(i + 1)
    IN Cat(1)

\* streamed range over one advertised partition [from, to) (borders advertised AFTER alignment)
StreamRun(recs, from, to, R) == WorkerRun(Slice(recs, from, to), R, 0, FALSE, 0, {}).out

\* ---- a streamed scan sends its result in batches of B key-values as it goes (receiver.go:119-137). An iterator
\* error after f records (a timeout, a region error): the worker either starts over (Restart: what it always did until
\* the repair of D25) or, when a batch has already left the receiver, fails the scan -- the stream then ends with an error.
RECURSIVE ScanPrefix(_, _, _, _)
ScanPrefix(st, recs, R, n) == IF n = 0 \/ recs = << >> THEN st
                              ELSE ScanPrefix(ScanStep(st, Head(recs), R, FALSE, 0, {}), Tail(recs), R, n - 1)
StreamWithFault(recs, R, B, f, Restart) ==
    LET emitted == ScanPrefix(ScanInit, recs, R, f).out               \* what had been appended when the error came
        sent    == SubSeq(emitted, 1, (Len(emitted) \div B) * B)      \* ... of which full batches were on the stream
        full    == WorkerRun(recs, R, 0, FALSE, 0, {}).out IN
    IF sent = << >> THEN [out |-> full, err |-> FALSE]                \* nothing had left: starting over is invisible
    ELSE IF Restart THEN [out |-> sent \o full, err |-> FALSE]
    ELSE [out |-> sent, err |-> TRUE]
\* an unlimited list (a count alike) whose iterator fails after f records: the worker starts the partition over; the code drops
\* the partial result first (Reset)
ListWithFault(recs, R, f, Reset) ==
    LET part == ScanPrefix(ScanInit, recs, R, f).out
        full == WorkerRun(recs, R, 0, FALSE, 0, {}).out IN
    IF Reset THEN full ELSE part \o full
NoDup(s) == \A i, j \in 1..Len(s) : i # j => s[i].k # s[j].k

-----------------------------------------------------------------------------
\* effect of deletions.  fate[i] \in {"ok", "err", "cas"}: outcome of the i-th issued deletion;
\* a failed unconditional delete, and a non-CAS error of the conditional index delete, make the
\* worker skip every later deletion of the same key (scanner.go: isSkippedRawKey / compactKey);
\* only the first n issued deletions are attempted (the compactor dies after n).
RECURSIVE ApplyDeletes(_, _, _, _, _, _, _)
ApplyDeletes(idx, ver, dels, fate, i, n, skipKey) ==
    IF dels = << >> \/ i > n THEN [idx |-> idx, ver |-> ver]
    ELSE LET d == Head(dels) IN
         IF d.k = skipKey THEN ApplyDeletes(idx, ver, Tail(dels), fate, i, n, skipKey)   \* skipped: not issued
         ELSE IF fate[i] = "ok"
              THEN IF d.r = 0
                   THEN ApplyDeletes([idx EXCEPT ![d.k] = NoIdx], ver, Tail(dels), fate, i + 1, n, skipKey)
                   ELSE ApplyDeletes(idx, [ver EXCEPT ![d.k] = {v \in @ : v.rev # d.r}], Tail(dels), fate, i + 1, n, skipKey)
              ELSE ApplyDeletes(idx, ver, Tail(dels), fate, i + 1, n,
                                IF fate[i] = "err" \/ d.op = "del" THEN d.k ELSE skipKey)

=============================================================================
