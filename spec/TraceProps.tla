------------------------------ MODULE TraceProps ------------------------------
(***************************************************************************)
(* Trace specification (code -> spec direction).                            *)
(*                                                                         *)
(* Consumes an ndjson trace recorded from the REAL kubebrain backend by     *)
(* the conformance harness (engine calls with decoded arguments, result     *)
(* class and observed post-values; yield-point events; API invoke/return;  *)
(* watch deliveries).  It rebuilds the stored history from the logged       *)
(* post-values -- it never guesses what the engine contains -- and          *)
(* evaluates the property monitors at every event.  It does not constrain   *)
(* which internal step follows which (that is the replayer's business), so *)
(* a refactoring that keeps the properties is accepted.                    *)
(*                                                                         *)
(* A monitor that fails adds <<name, line>> to viol; every monitor has its  *)
(* own invariant so that TLC names the one that was violated.               *)
(***************************************************************************)
EXTENDS KBDefs, TLC, Json, IOUtils, SequencesExt

Trace == ndJsonDeserialize(IOEnv.KB_TRACE)
NK == 6                      \* upper bound on key numbers in a trace
KS == 1..NK

VARIABLES l,        \* next trace line
          idx, ver, \* reconstructed engine contents
          hv,       \* every version ever seen
          floor,    \* compaction record
          cm,       \* committed revision as reported by the sequencer
          base,
          pend,     \* set of in-flight API operations
          maxRet,   \* max revision among returned write operations
          seen,     \* revisions reported through notify
          maxRev,   \* highest revision seen anywhere
          evlog,    \* set of events that certain, applied commits imply
          ws,       \* set of watch states
          rds,      \* completed range reads (for list-then-watch)
          prefixes, \* prefix id -> set of keys
          cmax,     \* highest compaction revision accepted so far
          expiring, \* keys that are Event records (may be expired wholesale)
          chg,      \* time (ms) of the newest change of every key
          ttl,      \* TTL of Event records in ms (0 = not in this trace)
          viol

vars == <<l, idx, ver, hv, floor, cm, base, pend, maxRet, seen, maxRev, evlog, ws, rds, prefixes, cmax, expiring, chg, ttl, viol>>

E == Trace[l]
Is(e) == l <= Len(Trace) /\ E.e = e
Adv == l' = l + 1
\* only the first failure of a monitor is recorded
V(cond, name) == IF cond \/ (\E v \in viol : v[1] = name) THEN {} ELSE {<<name, l>>}

Empty == /\ idx = [k \in KS |-> NoIdx] /\ ver = [k \in KS |-> {}] /\ hv = [k \in KS |-> {}]
         /\ floor = 0 /\ cm = 0 /\ base = 0 /\ pend = {} /\ maxRet = 0 /\ seen = {} /\ maxRev = 0
         /\ evlog = {} /\ ws = {} /\ rds = {} /\ prefixes = << >> /\ cmax = 0 /\ expiring = {} /\ chg = [k \in KS |-> 0] /\ ttl = 0

TInit == l = 1 /\ Empty /\ viol = {}

-----------------------------------------------------------------------------
\* store reconstruction from logged values  [tag, int, int, string]

IdxOf(v)  == IF v[1] = "i" THEN [rev |-> v[2], del |-> v[3] = 1] ELSE NoIdx
\* The code marks a deletion by the VALUE of the version record; the abstract history marks it by
\* KIND.  A version whose bytes equal the marker but whose index record (written in the same batch)
\* carries no deletion flag is a client value: it is kept apart as STAR.
STAR == "tombstone*"
Unstar(v) == IF v = STAR THEN TOMB ELSE v
AbsVal(ix, r, val) == IF val = TOMB /\ ix.rev = r /\ ~ix.del THEN STAR ELSE val
SetRec(ix, vs, r, v) ==      \* new (idx, ver) of one key after record (k,r) now holds v
    IF r = 0 THEN <<IdxOf(v), vs>>
    ELSE IF v[1] = "v" THEN <<ix, {x \in vs : x.rev # r} \cup {[rev |-> r, val |-> AbsVal(ix, r, v[4])]}>>
    ELSE <<ix, {x \in vs : x.rev # r}>>

\* apply a list of (k, r, value) to functions idx, ver
RECURSIVE ApplyAll(_, _, _)
ApplyAll(ix, vr, recs) ==
    IF recs = << >> THEN <<ix, vr>>
    ELSE LET h == Head(recs)  k == h[1]
             n == SetRec(ix[k], vr[k], h[2], h[3]) IN
         ApplyAll([ix EXCEPT ![k] = n[1]], [vr EXCEPT ![k] = n[2]], Tail(recs))

\* the object records touched by a commit: sequence of <<k, r, postvalue>>
ObjRecs(ops, post) ==
    LET idxs == SelectSeq([i \in 1..Len(ops) |-> i], LAMBDA i : ops[i].kk = "obj" /\ ops[i].k \in KS) IN
    [j \in 1..Len(idxs) |-> <<ops[idxs[j]].k, ops[idxs[j]].r, post[idxs[j]]>>]

AddHist(h, vr) == [k \in KS |-> h[k] \cup vr[k]]

-----------------------------------------------------------------------------
\* does key history vs satisfy the condition of a write operation?  (m: revision an unguarded
\* delete observed; 0 = unknown)
Matches(op, exp, m, vs) ==
    LET x == Latest(vs) IN
    CASE op = "create" -> ~IsLive(x)
      [] op = "update" /\ exp = 0 -> ~IsLive(x)
      [] op = "update" -> IsLive(x) /\ x.rev = exp
      [] op = "delete" /\ exp = 0 -> IsLive(x) /\ (m = 0 \/ x.rev = m)
      [] op = "delete" -> IsLive(x) /\ x.rev = exp
      [] OTHER -> TRUE

IsWrite(op) == op \in {"create", "update", "delete"}
PendOf(p) == CHOOSE x \in pend : x.p = p
HasPend(p) == \E x \in pend : x.p = p

EvType(o) == IF o.op = "delete" THEN EvDelete
             ELSE IF o.op = "create" \/ o.exp = 0 THEN EvCreate ELSE EvPut

-----------------------------------------------------------------------------
\* ACTIONS, one per event type

TReset ==
    /\ Is("Reset") /\ Adv
    /\ idx' = [k \in KS |-> NoIdx] /\ ver' = [k \in KS |-> {}] /\ hv' = [k \in KS |-> {}]
    /\ floor' = 0 /\ cm' = 0 /\ base' = 0 /\ pend' = {} /\ maxRet' = 0 /\ seen' = {} /\ maxRev' = 0
    /\ evlog' = {} /\ ws' = {} /\ rds' = {} /\ prefixes' = << >> /\ cmax' = 0 /\ expiring' = {} /\ chg' = [k \in KS |-> 0] /\ ttl' = 0
    /\ UNCHANGED viol

StoreOf(recs) == ApplyAll([k \in KS |-> NoIdx], [k \in KS |-> {}], recs)

TInitEv ==
    /\ Is("Init") /\ Adv
    /\ LET st == StoreOf(E.store) IN
       /\ idx' = st[1] /\ ver' = st[2] /\ hv' = st[2]
    /\ base' = E.base /\ cm' = E.base /\ maxRev' = E.base
    /\ prefixes' = [i \in 1..Len(E.prefixes) |-> {E.prefixes[i][j] : j \in 1..Len(E.prefixes[i])}]
    /\ expiring' = {E.expiring[i] : i \in 1..Len(E.expiring)}
    /\ chg' = [k \in KS |-> 0] /\ ttl' = IF "ttl_ms" \in DOMAIN E THEN E.ttl_ms ELSE 0
    /\ floor' = 0 /\ pend' = {} /\ maxRet' = 0 /\ seen' = {} /\ evlog' = {} /\ ws' = {} /\ rds' = {} /\ cmax' = 0
    /\ UNCHANGED viol

TInvoke ==
    /\ Is("Invoke") /\ Adv
    /\ pend' = {x \in pend : x.p # E.p} \cup
               {[p |-> E.p, i |-> E.i, op |-> E.op, k |-> E.k, exp |-> E.exp, v |-> E.v,
                 floorRev |-> maxRet,
                 m |-> IF IsWrite(E.op) /\ IsLive(Latest(ver[E.k])) THEN Latest(ver[E.k]).rev ELSE 0,
                 diff |-> IF IsWrite(E.op) THEN ~Matches(E.op, E.exp, 0, ver[E.k]) ELSE FALSE,
                 rev |-> 0, unk |-> FALSE, okc |-> FALSE, at |-> l, cm0 |-> cm, fl0 |-> floor, dirty |-> FALSE, frev |-> 0]}
    /\ UNCHANGED <<idx, ver, hv, floor, cm, base, maxRet, seen, maxRev, evlog, ws, rds, prefixes, cmax, expiring, chg, ttl, viol>>

\* the version records (r > 0) a commit wants to put
VerPuts(ops) == {i \in 1..Len(ops) : ops[i].kk = "obj" /\ ops[i].r > 0 /\ ops[i].o = "put" /\ ops[i].k \in KS}

\* monitors evaluated on a commit of process p that puts version (k, r, val)
CommitChecks(p, k, r, val, applied, res) ==
    LET x == Latest(ver[k]) IN
    V(r > cm, "NoOvertake")
    \cup (IF applied THEN V(r > Latest(hv[k]).rev, "PerKeyIncreasing") ELSE {})
    \cup (IF applied /\ HasPend(p) /\ IsWrite(PendOf(p).op)
          THEN LET o == PendOf(p) IN
               V(o.k = k /\ Matches(o.op, o.exp, 0, ver[k]), "WriteCondition")
               \cup V(IF o.op = "delete" THEN val = TOMB ELSE (val # TOMB /\ Unstar(val) = o.v), "WriteValue")
          ELSE {})
    \cup (IF applied /\ p = "retry"
          THEN V(x # NoVer /\ Unstar(x.val) = Unstar(val) /\ idx[k] = [rev |-> x.rev, del |-> val = TOMB], "RepairCondition")
          ELSE {})

TCommit ==
    /\ Is("Commit") /\ Adv
    /\ LET ops == E.ops  p == E.p  applied == E.applied  res == E.res
           recs == ObjRecs(ops, E.post)
           st == ApplyAll(idx, ver, recs)
           vp == VerPuts(ops)
           \* abstract value of the version put i: deletion iff the index written with it is flagged
           newIx(i) == LET js == {j \in 1..Len(ops) : ops[j].kk = "obj" /\ ops[j].k = ops[i].k /\ ops[j].r = 0 /\ ops[j].o \in {"cas", "pine", "put"}} IN
                       IF js = {} THEN NoIdx ELSE IdxOf(ops[CHOOSE j \in js : TRUE].v)
           AV(i) == AbsVal(newIx(i), ops[i].r, ops[i].v[4])
           special == {i \in 1..Len(ops) : ops[i].kk = "special" /\ ops[i].name = "compact"} IN
       /\ idx' = st[1] /\ ver' = st[2] /\ hv' = AddHist(hv, st[2])
       /\ floor' = IF special = {} THEN floor
                   ELSE LET i == CHOOSE i \in special : TRUE IN IF E.post[i][1] = "s" THEN E.post[i][2] ELSE floor
       /\ viol' = viol
            \cup V(applied \/ E.post = E.pre, "CommitAtomic")
            \cup V(floor' >= floor, "FloorMonotone")
            \cup UNION {CommitChecks(p, ops[i].k, ops[i].r, AV(i), applied, res) : i \in vp}
            \* a new certain event below something a watcher already received
            \cup UNION {UNION { IF applied /\ res = "ok" /\ w.start > 0 /\ ops[i].r >= w.start
                                    /\ ops[i].k \in prefixes[w.prefix + 1]
                                    /\ w.last > ops[i].r
                                THEN V(FALSE, "NoSkip") ELSE {} : w \in ws} : i \in vp}
       /\ pend' = {IF x.p = p /\ vp # {}
                   THEN [x EXCEPT !.rev = ops[CHOOSE i \in vp : TRUE].r, !.unk = @ \/ res = "unk",
                                  !.okc = @ \/ (applied /\ res = "ok"),
                                  \* a refused conditional commit: what the key's newest version was at that moment
                                  !.frev = IF ~applied /\ res = "cas" THEN Latest(ver[x.k]).rev ELSE @,
                                  !.diff = @ \/ (IsWrite(x.op) /\ ~Matches(x.op, x.exp, x.m, st[2][x.k]))]
                   ELSE IF IsWrite(x.op) THEN [x EXCEPT !.diff = @ \/ ~Matches(x.op, x.exp, x.m, st[2][x.k])]
                   \* a read in flight while a commit lands on a key it looks at
                   ELSE IF applied /\ (\E i \in vp : x.op # "get" \/ ops[i].k = x.k) THEN [x EXCEPT !.dirty = TRUE]
                   ELSE x : x \in pend}
       /\ maxRev' = LET rs == {ops[i].r : i \in vp} \cup {maxRev} IN MaxS(rs)
       /\ evlog' = evlog \cup
            {[rev |-> ops[i].r, key |-> ops[i].k,
              type |-> IF AV(i) = TOMB THEN EvDelete
                       ELSE IF HasPend(p) /\ IsWrite(PendOf(p).op) THEN EvType(PendOf(p)) ELSE "ANYPUT",
              \* a delete event carries the last live value before it
              val |-> IF AV(i) = TOMB THEN Unstar(Latest({x \in ver[ops[i].k] : x.val # TOMB}).val) ELSE ops[i].v[4],
              kvrev |-> IF AV(i) = TOMB THEN Latest({x \in ver[ops[i].k] : x.val # TOMB}).rev ELSE ops[i].r]
             : i \in {j \in vp : applied /\ res = "ok"}}
       /\ chg' = [k \in KS |-> IF applied /\ (\E i \in vp : ops[i].k = k) THEN E.t ELSE chg[k]]
    /\ UNCHANGED <<cm, base, maxRet, seen, ws, rds, prefixes, cmax, expiring, ttl>>

TNotify ==
    /\ Is("Notify") /\ Adv
    /\ LET r == E.a  p == E.p IN
       /\ viol' = viol
            \cup (IF r > 0 THEN V(r \notin seen, "UniqueRevision") ELSE {})
            \cup (IF r > 0 /\ HasPend(p) /\ IsWrite(PendOf(p).op) THEN V(r > PendOf(p).floorRev, "RealTimeOrder") ELSE {})
            \cup (IF r > 0 THEN V(r > cm, "NoOvertake") ELSE {})
       /\ seen' = IF r > 0 THEN seen \cup {r} ELSE seen
       /\ maxRev' = IF r > maxRev THEN r ELSE maxRev
       /\ pend' = {IF x.p = p /\ x.rev = 0 /\ IsWrite(x.op) THEN [x EXCEPT !.rev = r] ELSE x : x \in pend}
    /\ UNCHANGED <<idx, ver, hv, floor, cm, base, maxRet, evlog, ws, rds, prefixes, cmax, expiring, chg, ttl>>

TCommitted ==
    /\ Is("Committed") /\ Adv
    /\ cm' = E.a
    /\ viol' = viol \cup V(E.a > cm, "CommittedMonotone") \cup V(E.a \in seen, "CommittedWasReported")
    /\ UNCHANGED <<idx, ver, hv, floor, base, pend, maxRet, seen, maxRev, evlog, ws, rds, prefixes, cmax, expiring, chg, ttl>>

TReturn ==
    /\ Is("Return") /\ Adv
    /\ HasPend(E.p)
    /\ LET o == PendOf(E.p)  k == o.k  succ == E.succ  err == E.err IN
       /\ viol' = viol
            \cup V(E.hdr >= E.kvrev, "HeaderCoversData")
            \cup (IF succ THEN V(E.hdr >= o.rev, "HeaderCoversData") ELSE {})
            \cup (IF ~succ /\ err = "" THEN V(o.diff, "FailedOnlyIfDiffered") ELSE {})
            \cup (IF ~succ /\ err \in {"", "err", "drift"} /\ o.rev > 0
                  THEN V(\A v \in hv[k] : v.rev # o.rev, "FailedLeavesKey") ELSE {})
            \cup (IF succ THEN V(o.okc /\ \E v \in hv[k] : v.rev = o.rev /\ (IF o.op = "delete" THEN v.val = TOMB ELSE (v.val # TOMB /\ Unstar(v.val) = o.v)),
                                 "SuccessMeansWritten") ELSE {})
            \cup (IF o.unk THEN V(~succ /\ err = "unk", "UnknownIsError") ELSE {})
            \cup (IF succ /\ o.op = "delete" THEN V(E.kvrev > 0 /\ E.kvrev < o.rev, "DeleteReturnsPrev") ELSE {})
            \* the key-value in a failure answer was read after the refused commit: it is a stored version of the key and
            \* not older than the version that made the condition fail (etcd: exactly that version)
            \cup (IF ~succ /\ err = "" /\ E.kvrev > 0 /\ o.frev > 0
                  THEN V(E.kvrev >= o.frev /\ (\E v \in hv[k] : v.rev = E.kvrev /\ v.val # TOMB /\ (Unstar(v.val) = E.kvval \/ v.val = STAR)),
                         "FailedReturnsCurrent") ELSE {})
       /\ maxRet' = IF o.rev > maxRet THEN o.rev ELSE maxRet
       /\ pend' = pend \ {o}
    /\ UNCHANGED <<idx, ver, hv, floor, cm, base, seen, maxRev, evlog, ws, rds, prefixes, cmax, expiring, chg, ttl>>

\* ---- watch events
WOf(w) == CHOOSE x \in ws : x.w = w
HasW(w) == \E x \in ws : x.w = w

TWatchInvoke ==
    /\ Is("WatchInvoke") /\ Adv
    /\ ws' = {x \in ws : x.w # E.w} \cup
             {[w |-> E.w, prefix |-> E.prefix, start |-> E.start, ok |-> TRUE, returned |-> FALSE,
               dl |-> << >>, last |-> 0, closed |-> FALSE]}
    /\ UNCHANGED <<idx, ver, hv, floor, cm, base, pend, maxRet, seen, maxRev, evlog, rds, prefixes, cmax, expiring, chg, ttl, viol>>

TWatchReturn ==
    /\ Is("WatchReturn") /\ Adv
    /\ ws' = {IF x.w = E.w THEN [x EXCEPT !.ok = E.ok, !.returned = TRUE] ELSE x : x \in ws}
    /\ UNCHANGED <<idx, ver, hv, floor, cm, base, pend, maxRet, seen, maxRev, evlog, rds, prefixes, cmax, expiring, chg, ttl, viol>>

\* events arrive as [type, key, rev, val, kvrev]
EvRec(t) == [type |-> t[1], key |-> t[2], rev |-> t[3], val |-> t[4], kvrev |-> t[5]]
MatchesLog(e) ==
    \E g \in evlog : /\ g.rev = e.rev /\ g.key = e.key /\ g.val = e.val /\ g.kvrev = e.kvrev
                     /\ (g.type = e.type \/ (g.type = "ANYPUT" /\ e.type \in {EvCreate, EvPut})
                            \/ (e.type = "EPUT" /\ g.type \in {EvCreate, EvPut, "ANYPUT"}))   \* etcd knows PUT only

\* checks for appending event e to a watcher that last delivered revision lastRev
RecvChecks(w, e, lastRev) ==
    LET lo == IF lastRev > 0 THEN lastRev + 1 ELSE w.start IN
    V(e.rev > lastRev, "DeliveredOrdered")
    \cup V(w.start = 0 \/ e.rev >= w.start, "DeliveredFromStart")
    \cup V(e.key \in prefixes[w.prefix + 1], "DeliveredPrefix")
    \cup V(MatchesLog(e), "DeliveredMatchesWrite")
    \cup V(w.ok, "RefusedDeliversNothing")
    \cup (IF lo > 0
          THEN V(\A g \in evlog : ~(g.rev >= lo /\ g.rev < e.rev /\ g.key \in prefixes[w.prefix + 1]), "NoSkip")
          ELSE {})

RECURSIVE RecvAll(_, _, _)
RecvAll(w, evs, lastRev) ==
    IF evs = << >> THEN {}
    ELSE LET e == EvRec(Head(evs)) IN RecvChecks(w, e, lastRev) \cup RecvAll(w, Tail(evs), e.rev)

\* list-then-watch: a range read served at R plus this watcher's events (start R+1, same prefix)
ApplyEvents(m, evs) ==
    LET RECURSIVE A(_, _)
        A(mm, s) == IF s = << >> THEN mm
                    ELSE LET e == Head(s) IN
                         A([mm EXCEPT ![e.key] = IF e.type = EvDelete THEN NoVer ELSE [rev |-> e.rev, val |-> Unstar(e.val)]], Tail(s))
    IN A(m, evs)
KvMap(kvs) == [k \in KS |-> IF \E i \in 1..Len(kvs) : kvs[i][1] = k
                            THEN LET i == CHOOSE i \in 1..Len(kvs) : kvs[i][1] = k IN [rev |-> kvs[i][2], val |-> kvs[i][3]]
                            ELSE NoVer]
SnapAt(h, ks, R) == [k \in KS |-> IF k \in ks /\ IsLive(NewestLE(h[k], R))
                                  THEN [rev |-> NewestLE(h[k], R).rev, val |-> Unstar(NewestLE(h[k], R).val)] ELSE NoVer]
ListWatchChecks(w, dl) ==
    IF dl = << >> \/ ~w.ok THEN {}
    ELSE LET R2 == dl[Len(dl)].rev IN
         UNION { IF rd.prefix = w.prefix /\ w.start = rd.hdr + 1 /\ rd.full
                 THEN V(ApplyEvents(KvMap(rd.kvs), dl) = SnapAt(hv, prefixes[w.prefix + 1], R2), "ListWatchAgree")
                 ELSE {} : rd \in rds }

TRecv ==
    /\ Is("Recv") /\ Adv
    /\ HasW(E.w)
    /\ LET w == WOf(E.w)
           evs == E.evs
           recs == [i \in 1..Len(evs) |-> EvRec(evs[i])]
           dl2 == w.dl \o recs IN
       /\ viol' = viol \cup RecvAll(w, evs, w.last) \cup V(~w.closed, "NothingAfterClose")
                       \cup ListWatchChecks(w, dl2)
       /\ ws' = (ws \ {w}) \cup {[w EXCEPT !.dl = dl2, !.last = IF evs = << >> THEN @ ELSE evs[Len(evs)][3]]}
    /\ UNCHANGED <<idx, ver, hv, floor, cm, base, pend, maxRet, seen, maxRev, evlog, rds, prefixes, cmax, expiring, chg, ttl>>

TClosed ==
    /\ Is("Closed") /\ Adv
    /\ ws' = {IF x.w = E.w THEN [x EXCEPT !.closed = TRUE] ELSE x : x \in ws}
    /\ UNCHANGED <<idx, ver, hv, floor, cm, base, pend, maxRet, seen, maxRev, evlog, rds, prefixes, cmax, expiring, chg, ttl, viol>>

\* ---- reads (point, range, count, streamed range)
\* RInvoke: [p, op, k, lo, hi, rev, limit]; RReturn: [p, hdr, kvs (seq of [k, rev, val]), more, count, err, brevs, terms]
TRInvoke ==
    /\ Is("RInvoke") /\ Adv
    /\ pend' = {x \in pend : x.p # E.p} \cup
               {[p |-> E.p, i |-> 0, op |-> E.op, k |-> E.k, exp |-> 0, v |-> "-", floorRev |-> 0, m |-> 0, diff |-> FALSE,
                 rev |-> E.rev, unk |-> FALSE, okc |-> FALSE, at |-> l, cm0 |-> cm, fl0 |-> floor,
                 lo |-> E.lo, hi |-> E.hi, limit |-> E.limit, wr0 |-> maxRev, pfx |-> E.pfx, dirty |-> FALSE,
                 \* a read issued while a transient error of the engine's iterator is armed: it may fail (if it answers, the answer counts)
                 fault |-> IF "fault" \in DOMAIN E THEN E.fault ELSE FALSE]}
    /\ UNCHANGED <<idx, ver, hv, floor, cm, base, maxRet, seen, maxRev, evlog, ws, rds, prefixes, cmax, expiring, chg, ttl, viol>>

KvTuples(kvs) == [i \in 1..Len(kvs) |-> <<kvs[i].k, kvs[i].rev, Unstar(kvs[i].val)>>]
KvSet(kvs) == {kvs[i] : i \in 1..Len(kvs)}
\* does the expected result involve a client value equal to the reserved marker?  (known finding D5)
TouchesStar(R, lo, hi) == \E k \in KS : lo <= k /\ k < hi /\ NewestLE(hv[k], R).val = STAR

ReadChecks(o, e) ==
    LET R == IF o.rev = 0 THEN e.hdr ELSE o.rev
        ok == e.err = ""
        quiet == ~o.dirty             \* no commit landed on a key of this read while it was in flight
    IN
    CASE o.op = "get" ->
            (IF ok /\ (o.rev = 0 \/ (o.rev <= o.cm0 /\ o.rev >= floor)) /\ (o.rev > 0 \/ quiet)
             THEN LET ref == PointRef(hv, o.k, o.rev)
                      got == IF Len(e.kvs) = 0 THEN [found |-> FALSE, rev |-> 0, val |-> "-"]
                             ELSE [found |-> TRUE, rev |-> e.kvs[1][2], val |-> e.kvs[1][3]]
                      exp == [ref EXCEPT !.val = Unstar(@)] IN
                  IF NewestLE(hv[o.k], IF o.rev = 0 THEN maxRev ELSE o.rev).val = STAR
                  THEN V(got = exp, "TombValueReadable")
                  ELSE V(got = exp, "ReadIsSnapshot")
             ELSE {})
            \cup (IF ok /\ Len(e.kvs) > 0 THEN V(e.hdr >= e.kvs[1][2], "HeaderCoversData") ELSE {})
      [] o.op \in {"list", "stream"} ->
            (IF R < o.fl0 THEN V(~ok, "BelowFloorRefused") ELSE {})
            \cup (IF R >= floor /\ (o.rev = 0 \/ o.rev <= o.cm0) /\ R > 0 /\ ~o.fault THEN V(ok, "ReadableServed") ELSE {})
            \cup (IF ok /\ R >= floor /\ (o.rev = 0 \/ o.rev <= o.cm0)
                  THEN LET ref == RangeRef(hv, KS, R, o.lo, o.hi, o.limit)
                           exp == KvTuples(ref.kvs) IN
                       (IF TouchesStar(R, o.lo, o.hi)
                        THEN V(IF o.op = "list" THEN e.kvs = exp /\ e.more = ref.more ELSE KvSet(e.kvs) = KvSet(exp), "TombValueReadable")
                        ELSE IF o.op = "list"
                             THEN V(e.kvs = exp, "ReadIsSnapshot") \cup V(e.more = ref.more, "MoreFlag")
                             ELSE V(KvSet(e.kvs) = KvSet(exp) /\ Len(e.kvs) = Len(exp), "StreamIsSnapshot"))
                  ELSE {})
            \cup (IF ok THEN V(\A i \in 1..Len(e.kvs) : e.hdr >= e.kvs[i][2] \/ o.op = "stream", "HeaderCoversData") ELSE {})
            \cup (IF o.op = "stream"
                  THEN V(e.terms = 1, "StreamOneTerminator")
                       \cup V(\A i \in 1..Len(e.brevs) : e.brevs[i] = R, "StreamBatchRevision")
                  ELSE {})
      [] o.op = "count" ->
            (IF ok /\ e.hdr >= floor
             THEN V(e.count = Len(RangeRef(hv, KS, e.hdr, o.lo, o.hi, 0).kvs),
                    IF TouchesStar(e.hdr, o.lo, o.hi) THEN "TombValueReadable" ELSE "CountIsSnapshot") ELSE {})
      [] OTHER -> {}

\* the etcd endpoint additionally returns a count: the number of keys in the range at the read
\* revision regardless of the limit (a point read: the number of kvs returned)
EtcdCountChecks(o, e) ==
    IF "api" \notin DOMAIN e THEN {}
    ELSE IF e.api # "etcd" \/ e.err # "" \/ e.ecount < 0 THEN {}
    ELSE LET R == IF o.rev = 0 THEN e.hdr ELSE o.rev IN
         CASE o.op = "get" -> V(e.ecount = Len(e.kvs), "EtcdPointCount")
           [] o.op = "list" /\ R >= floor /\ (o.rev = 0 \/ o.rev <= o.cm0) /\ ~TouchesStar(R, o.lo, o.hi) ->
                 V(e.ecount = Len(RangeRef(hv, KS, R, o.lo, o.hi, 0).kvs), "EtcdCountTotal")
           [] OTHER -> {}

TRReturn ==
    /\ Is("RReturn") /\ Adv
    /\ HasPend(E.p)
    /\ LET o == PendOf(E.p) IN
       /\ viol' = viol \cup ReadChecks(o, E) \cup EtcdCountChecks(o, E)
       /\ pend' = pend \ {o}
       \* remembered: lists that start a list-then-watch (prefix >= 0), and -- prefix = -1 -- unlimited lists that were
       \* answered while a write was in flight: their answer is judged again when everything has settled
       /\ rds' = IF o.op = "list" /\ E.err = "" /\ o.limit = 0 /\ o.pfx >= 0
                 THEN rds \cup {[prefix |-> o.pfx, hdr |-> IF o.rev = 0 THEN E.hdr ELSE o.rev, kvs |-> E.kvs, full |-> TRUE, lo |-> o.lo, hi |-> o.hi]}
                 ELSE IF o.op = "list" /\ E.err = "" /\ o.limit = 0 /\ (\E x \in pend : IsWrite(x.op))
                           /\ (o.rev = 0 \/ o.rev <= o.cm0)
                 THEN rds \cup {[prefix |-> -1, hdr |-> IF o.rev = 0 THEN E.hdr ELSE o.rev, kvs |-> E.kvs, full |-> FALSE, lo |-> o.lo, hi |-> o.hi]}
                 ELSE rds
    /\ UNCHANGED <<idx, ver, hv, floor, cm, base, maxRet, seen, maxRev, evlog, ws, prefixes, cmax, expiring, chg, ttl>>

\* compaction request / response
TCInvoke ==
    /\ Is("CInvoke") /\ Adv
    /\ UNCHANGED <<idx, ver, hv, floor, cm, base, pend, maxRet, seen, maxRev, evlog, ws, rds, prefixes, cmax, expiring, chg, ttl, viol>>
TCReturn ==
    /\ Is("CReturn") /\ Adv
    /\ cmax' = IF E.err = "" /\ E.hdr > cmax THEN E.hdr ELSE cmax
    /\ viol' = viol \cup (IF E.err = "" THEN V(floor >= E.hdr \/ floor >= cmax, "FloorAccepted") ELSE {})
                    \cup (IF E.err = "" THEN V(E.hdr <= maxRev, "CompactClampCommitted") ELSE {})   \* (cm may lag behind in the log; maxRev bounds it)
                    \cup (IF E.err = "" /\ E.minunc > 0 THEN V(E.hdr < E.minunc, "CompactClamp") ELSE {})
                    \cup V(\A k \in expiring : Writable(idx[k], ver[k]), "ExpireWholly")
    /\ UNCHANGED <<idx, ver, hv, floor, cm, base, pend, maxRet, seen, maxRev, evlog, ws, rds, prefixes, expiring, chg, ttl>>

\* a compaction delete: Del / DelCur with observed post value
\* a compaction delete is SAFE if no read at or above the accepted floor changes; an unsafe delete is
\* an EXPIRY: allowed only for Event keys whose newest change is older than the TTL (C17)
DelSafe(k, r) ==
    IF r = 0 THEN idx[k] = NoIdx \/ idx[k].del
    ELSE \A R2 \in {x.rev : x \in hv[k]} \cup {floor, maxRev} :
            R2 >= floor => NewestLE({x \in ver[k] : x.rev # r}, R2).rev = NewestLE(ver[k], R2).rev
                           \/ (~IsLive(NewestLE(ver[k], R2)) /\ ~IsLive(NewestLE({x \in ver[k] : x.rev # r}, R2)))
DelChecks(k, r, applied, t) ==
    IF ~applied \/ DelSafe(k, r) \/ (\E x \in ver[k] : x.val = STAR) THEN {}
    ELSE IF k \in expiring /\ ttl > 0 THEN V(t - chg[k] >= ttl, "NotBeforeTTL")
    ELSE IF r = 0 THEN V(FALSE, "CompactionDeletesLiveIndex") ELSE V(FALSE, "CompactionPreservesReads")
TDel ==
    /\ (Is("Del") \/ Is("DelCur")) /\ Adv
    /\ LET k == E.k  r == E.r  obj == E.kk = "obj" /\ k \in KS
           applied == E.res = "ok" /\ E.post[1] = "n" IN
       /\ viol' = viol \cup (IF obj THEN DelChecks(k, r, applied, E.t) ELSE {})
                       \cup (IF obj /\ applied /\ r > 0 /\ (\E x \in ver[k] : x.rev = r /\ x.val = STAR)
                             THEN V(FALSE, "TombValueReadable") ELSE {})
       /\ IF obj /\ E.res = "ok"
          THEN LET nw == SetRec(idx[k], ver[k], r, E.post) IN
               /\ idx' = [idx EXCEPT ![k] = nw[1]] /\ ver' = [ver EXCEPT ![k] = nw[2]]
               \* an expired Event record is gone from the reference history as well
               /\ hv' = IF k \in expiring /\ r > 0 THEN [hv EXCEPT ![k] = {x \in @ : x.rev # r}] ELSE hv
          ELSE UNCHANGED <<idx, ver, hv>>
    /\ UNCHANGED <<floor, cm, base, pend, maxRet, seen, maxRev, evlog, ws, rds, prefixes, cmax, expiring, chg, ttl>>

\* ---- quiescence: everything returned, sequencer and repair loop idle
TQuiesce ==
    /\ Is("Quiesce") /\ Adv
    /\ LET open == {w \in ws : w.ok /\ w.returned /\ ~w.closed /\ w.start > 0} IN
       viol' = viol
         \cup (IF E.returned THEN V(E.committed = maxRev, "Resolved") ELSE {})
         \cup (IF E.returned /\ E.retryq = 0
               THEN UNION { V({w.dl[i].rev : i \in 1..Len(w.dl)}
                                = {g.rev : g \in {g \in evlog : g.rev >= w.start /\ g.rev <= E.committed
                                                                  /\ g.key \in prefixes[w.prefix + 1]}},
                              "CompleteAtQuiescence") : w \in open }
               ELSE {})
         \* "... and returns the same answer whenever it is asked again": a read that was answered at a readable
         \* revision while writes were in flight still is the snapshot at that revision now that they have landed
         \cup (IF E.returned
               THEN UNION { IF rd.prefix = -1 /\ rd.hdr >= floor /\ ~TouchesStar(rd.hdr, rd.lo, rd.hi)
                            THEN V(rd.kvs = KvTuples(RangeRef(hv, KS, rd.hdr, rd.lo, rd.hi, 0).kvs), "ReadStable")
                            ELSE {} : rd \in rds }
               ELSE {})
         \cup (IF E.returned /\ E.retryq = 0
               THEN UNION { IF w.prefix = 0 /\ w.start = base + 1
                            THEN V(ApplyEvents(SnapAt(hv, KS, base), w.dl) = SnapAt(hv, KS, maxRev), "Converged")
                            ELSE {} : w \in open }
               ELSE {})
    /\ UNCHANGED <<idx, ver, hv, floor, cm, base, pend, maxRet, seen, maxRev, evlog, ws, rds, prefixes, cmax, expiring, chg, ttl>>

\* a scripted expectation of an expiry scenario on an engine with native TTL (the engine removes the
\* records itself, no delete is logged): [what, ok]
TExpect ==
    /\ Is("Expect") /\ Adv
    /\ viol' = viol \cup V(E.ok, "ExpiryExpectation")
    /\ UNCHANGED <<idx, ver, hv, floor, cm, base, pend, maxRet, seen, maxRev, evlog, ws, rds, prefixes, cmax, expiring, chg, ttl>>

\* events that carry no obligation for the monitors of this module
Skippable == {"Deal", "CacheAdd", "Flush", "HubSlow", "HubDelete", "Subscribed", "CacheRead", "WatchClosing",
              "RetryDeal", "Get", "IterOpen", "IterItem", "Die", "Note", "IterFault", "GetFault", "EngineWedged"}
\* a request made the code under test panic (the driver recovered the goroutine): no property allows that
TPanic ==
    /\ Is("Panic") /\ Adv
    /\ viol' = viol \cup V(FALSE, "NoPanic")
    /\ pend' = {x \in pend : x.p # E.p}
    /\ UNCHANGED <<idx, ver, hv, floor, cm, base, maxRet, seen, maxRev, evlog, ws, rds, prefixes, cmax, expiring, chg, ttl>>

\* the engine's own partition answer (C13's premise): the pieces tile the scanned interval
TParts ==
    /\ Is("Parts") /\ Adv
    /\ viol' = viol \cup V(E.wellformed, "PartitionsTileInterval")
    /\ UNCHANGED <<idx, ver, hv, floor, cm, base, pend, maxRet, seen, maxRev, evlog, ws, rds, prefixes, cmax, expiring, chg, ttl>>

\* C13 at a scale the bounded histories do not reach: n keys streamed as a whole and per advertised partition --
\* every key exactly once, one terminator per stream, no error
TBulk ==
    /\ Is("BulkStream") /\ Adv
    \* (with a transient iterator error injected into the scan the stream may end with an error instead -- one terminator, and
    \*  what was sent before is still sent once)
    /\ viol' = viol \cup V(E.setup_ok => (/\ E.dups = 0 /\ E.foreign = 0 /\ E.terms = E.pieces
                                            /\ (E.err = "" => (E.missing = 0 /\ E.streamed = E.n))
                                            /\ (~E.iter_fault => E.err = "")),
                             \* (C07: the list after a compaction whose scan failed once and started over, having deleted a part)
                             IF E.how = "list-after-faulty-compaction" THEN "CompactionRestartPreservesReads" ELSE "BulkStreamExactlyOnce")
    /\ UNCHANGED <<idx, ver, hv, floor, cm, base, pend, maxRet, seen, maxRev, evlog, ws, rds, prefixes, cmax, expiring, chg, ttl>>

\* C04 once around the real write-result ring (100000 slots; KubeBrain.tla explores the wrap with 3): afterwards the
\* committed revision has reached the last revision handed out, and the last write is readable and was announced
TWrap ==
    /\ Is("WrapRun") /\ Adv
    /\ viol' = viol \cup V(~E.panic /\ E.last_created /\ E.committed = E.last_hdr /\ E.listed_last /\ E.watched_last, "ResolvedAfterWrap")
    /\ UNCHANGED <<idx, ver, hv, floor, cm, base, pend, maxRet, seen, maxRev, evlog, ws, rds, prefixes, cmax, expiring, chg, ttl>>

\* C05 at the real batch size: the sequencer was held while several hundred writes completed, so that it hands out full
\* batches of 300 (KubeBrain.tla: EventBatch), and a late watcher catches up on more cached events than its result channel
\* takes in batches of 300. Every watcher got the matching successful writes once, in order, with the right content -- all
\* of them, or (its stream closed) a prefix of them
TWBulk ==
    /\ Is("WatchBulk") /\ Adv
    /\ viol' = viol \cup V(E.setup_ok => (/\ E.dups = 0 /\ E.disorder = 0 /\ E.wrong = 0 /\ E.holes = 0
                                            /\ (E.closed \/ E.missing = 0)),
                             "WatchBulkExactlyOnce")
    /\ UNCHANGED <<idx, ver, hv, floor, cm, base, pend, maxRet, seen, maxRev, evlog, ws, rds, prefixes, cmax, expiring, chg, ttl>>

\* the code began a batch on the engine and never committed it; the driver then asked the engine (with a deadline) whether it still
\* answers: one that does not (memkv keeps its store lock from BeginBatchWrite to Commit) has stopped the node for good
TAbandoned ==
    /\ Is("AbandonedBatch") /\ Adv
    /\ viol' = viol \cup V(~E.wedged, "EngineAnswers")
    /\ UNCHANGED <<idx, ver, hv, floor, cm, base, pend, maxRet, seen, maxRev, evlog, ws, rds, prefixes, cmax, expiring, chg, ttl>>

TSkip ==
    /\ l <= Len(Trace) /\ E.e \in Skippable /\ Adv
    /\ UNCHANGED <<idx, ver, hv, floor, cm, base, pend, maxRet, seen, maxRev, evlog, ws, rds, prefixes, cmax, expiring, chg, ttl, viol>>

TNext == TReset \/ TPanic \/ TParts \/ TBulk \/ TWBulk \/ TWrap \/ TInitEv \/ TInvoke \/ TCommit \/ TNotify \/ TCommitted \/ TReturn
         \/ TWatchInvoke \/ TWatchReturn \/ TRecv \/ TClosed \/ TQuiesce \/ TSkip \/ TAbandoned
         \/ TRInvoke \/ TRReturn \/ TCInvoke \/ TCReturn \/ TDel \/ TExpect

TSpec == TInit /\ [][TNext]_vars

-----------------------------------------------------------------------------
\* acceptance: the whole trace was consumed (one state per line: no branching)
Consumed == l = Len(Trace) + 1
TraceAccepted == TLCGet("stats").diameter - 1 = Len(Trace)

NoViol(name) == \A v \in viol : v[1] # name
M_CommitAtomic          == NoViol("CommitAtomic")
M_WriteCondition        == NoViol("WriteCondition")
M_WriteValue            == NoViol("WriteValue")
M_RepairCondition       == NoViol("RepairCondition")
M_PerKeyIncreasing      == NoViol("PerKeyIncreasing")
M_FailedOnlyIfDiffered  == NoViol("FailedOnlyIfDiffered")
M_FailedLeavesKey       == NoViol("FailedLeavesKey")
M_SuccessMeansWritten   == NoViol("SuccessMeansWritten")
M_DeleteReturnsPrev     == NoViol("DeleteReturnsPrev")
\* (keys that ever held a client value equal to the deletion marker are judged by TombValueReadable)
M_IndexAgrees           == \A k \in KS : IndexAgreesK(idx[k], ver[k]) \/ (\E x \in hv[k] : x.val = STAR)
M_Writable              == \A k \in KS \ expiring : Writable(idx[k], ver[k]) \/ (\E x \in hv[k] : x.val = STAR)
M_NotBeforeTTL          == NoViol("NotBeforeTTL")
M_ExpireWholly          == NoViol("ExpireWholly")
M_ExpiryExpectation     == NoViol("ExpiryExpectation")
M_UniqueRevision        == NoViol("UniqueRevision")
M_NoPanic               == NoViol("NoPanic")
M_ResolvedAfterWrap     == NoViol("ResolvedAfterWrap")
M_FailedReturnsCurrent  == NoViol("FailedReturnsCurrent")
M_BulkStreamExactlyOnce == NoViol("BulkStreamExactlyOnce")
M_WatchBulkExactlyOnce  == NoViol("WatchBulkExactlyOnce")
M_EngineAnswers == NoViol("EngineAnswers")
M_CompactionRestartPreservesReads == NoViol("CompactionRestartPreservesReads")
M_PartitionsTileInterval == NoViol("PartitionsTileInterval")
M_ReadStable            == NoViol("ReadStable")
M_RealTimeOrder         == NoViol("RealTimeOrder")
M_HeaderCoversData      == NoViol("HeaderCoversData")
M_NoOvertake            == NoViol("NoOvertake")
M_CommittedMonotone     == NoViol("CommittedMonotone")
M_CommittedWasReported  == NoViol("CommittedWasReported")
M_Resolved              == NoViol("Resolved")
M_UnknownIsError        == NoViol("UnknownIsError")
M_Converged             == NoViol("Converged")
M_FloorMonotone         == NoViol("FloorMonotone")
M_DeliveredOrdered      == NoViol("DeliveredOrdered")
M_DeliveredFromStart    == NoViol("DeliveredFromStart")
M_DeliveredPrefix       == NoViol("DeliveredPrefix")
M_DeliveredMatchesWrite == NoViol("DeliveredMatchesWrite")
M_RefusedDeliversNothing == NoViol("RefusedDeliversNothing")
M_NoSkip                == NoViol("NoSkip")
M_NothingAfterClose     == NoViol("NothingAfterClose")
M_CompleteAtQuiescence  == NoViol("CompleteAtQuiescence")
M_ListWatchAgree        == NoViol("ListWatchAgree")
M_EtcdCountTotal        == NoViol("EtcdCountTotal")
M_EtcdPointCount        == NoViol("EtcdPointCount")
M_ReadIsSnapshot        == NoViol("ReadIsSnapshot")
M_MoreFlag              == NoViol("MoreFlag")
M_CountIsSnapshot       == NoViol("CountIsSnapshot")
M_StreamIsSnapshot      == NoViol("StreamIsSnapshot")
M_StreamOneTerminator   == NoViol("StreamOneTerminator")
M_StreamBatchRevision   == NoViol("StreamBatchRevision")
M_ReadableServed        == NoViol("ReadableServed")
M_TombValueReadable     == NoViol("TombValueReadable")
M_BelowFloorRefused     == NoViol("BelowFloorRefused")
M_FloorAccepted         == NoViol("FloorAccepted")
M_CompactClamp          == NoViol("CompactClamp")
M_CompactClampCommitted == NoViol("CompactClampCommitted")
M_CompactionPreservesReads == NoViol("CompactionPreservesReads")
M_CompactionDeletesLiveIndex == NoViol("CompactionDeletesLiveIndex")
=============================================================================
