------------------------------ MODULE Coder ------------------------------
(***************************************************************************)
(* Byte-level transcription of the internal key encoding (C10):             *)
(*   pkg/backend/coder/normal.go  EncodeObjectKey / EncodeRevisionKey /      *)
(*                                Decode                                    *)
(*   pkg/backend/coder/rev.go     ParseRevision                              *)
(*   pkg/backend/util.go          PrefixEnd                                  *)
(* Keys and encodings are sequences of bytes (0..255); a revision is its     *)
(* 8-byte big-endian image (TLC integers are 32-bit).                        *)
(***************************************************************************)
EXTENDS Integers, Sequences, FiniteSets, TLC

CONSTANTS Alphabet,   \* key bytes, all greater than the split byte '$' (36)
          MaxLen,     \* keys of length 0..MaxLen
          Revs        \* set of 8-byte tuples

Magic == <<87, 251, 128, 139>>
Split == 36

Encode(k, r) == Magic \o k \o <<Split>> \o r
EncodeIndex(k) == Encode(k, <<0, 0, 0, 0, 0, 0, 0, 0>>)
Zero8 == <<0, 0, 0, 0, 0, 0, 0, 0>>

\* Decode: magic check, split byte at len-9, revision = last 8 bytes      normal.go:56-70
Decode(e) ==
    IF Len(e) < 13 \/ SubSeq(e, 1, 4) # Magic \/ e[Len(e) - 8] # Split
    THEN [ok |-> FALSE, k |-> << >>, r |-> Zero8]
    ELSE [ok |-> TRUE, k |-> SubSeq(e, 5, Len(e) - 9), r |-> SubSeq(e, Len(e) - 7, Len(e))]

\* bytewise lexicographic order (bytes.Compare)
RECURSIVE LexLess(_, _)
LexLess(a, b) ==
    IF b = << >> THEN FALSE
    ELSE IF a = << >> THEN TRUE
    ELSE IF Head(a) # Head(b) THEN Head(a) < Head(b)
    ELSE LexLess(Tail(a), Tail(b))
LexLeq(a, b) == a = b \/ LexLess(a, b)

\* PrefixEnd: increment the last byte below 0xff and cut; <<0>> if there is none    util.go:70-83
RECURSIVE PrefixEndFrom(_, _)
PrefixEndFrom(p, i) ==
    IF i = 0 THEN <<0>>
    ELSE IF p[i] < 255 THEN SubSeq(p, 1, i - 1) \o <<p[i] + 1>>
    ELSE PrefixEndFrom(p, i - 1)
PrefixEnd(p) == PrefixEndFrom(p, Len(p))

\* ParseRevision: 8 bytes live, 9 bytes deleted, anything else an error       rev.go:32-47
ParseRevision(b) ==
    IF Len(b) = 8 THEN [ok |-> TRUE, r |-> b, tomb |-> FALSE]
    ELSE IF Len(b) = 9 THEN [ok |-> TRUE, r |-> SubSeq(b, 1, 8), tomb |-> TRUE]
    ELSE [ok |-> FALSE, r |-> Zero8, tomb |-> FALSE]

IsPrefixOf(p, k) == Len(p) <= Len(k) /\ SubSeq(k, 1, Len(p)) = p

-----------------------------------------------------------------------------
\* the domain explored by TLC
RECURSIVE KeysOfLen(_)
KeysOfLen(n) == IF n = 0 THEN {<< >>} ELSE {Append(k, b) : k \in KeysOfLen(n - 1), b \in Alphabet}
AllKeys == UNION {KeysOfLen(n) : n \in 0..MaxLen}

\* (k1,r1) sorts before (k2,r2): key first (bytewise), revision second
PairLess(k1, r1, k2, r2) == LexLess(k1, k2) \/ (k1 = k2 /\ LexLess(r1, r2))

RoundTrip == \A k \in AllKeys, r \in Revs : Decode(Encode(k, r)) = [ok |-> TRUE, k |-> k, r |-> r]
OrderPreserved == \A k1 \in AllKeys, k2 \in AllKeys, r1 \in Revs, r2 \in Revs :
    LexLess(Encode(k1, r1), Encode(k2, r2)) <=> PairLess(k1, r1, k2, r2)
IndexFirst == \A k \in AllKeys, r \in Revs : LexLeq(EncodeIndex(k), Encode(k, r))
\* no record of another key sorts between two records of one key
Contiguous == \A k \in AllKeys, k2 \in AllKeys, r1 \in Revs, r2 \in Revs, r3 \in Revs :
    (LexLess(Encode(k, r1), Encode(k2, r3)) /\ LexLess(Encode(k2, r3), Encode(k, r2))) => k2 = k
\* the bounds computed for a raw range enclose exactly the records of the raw keys inside it
RangeBoundsEnclose == \A a \in AllKeys, b \in AllKeys, k \in AllKeys, r \in Revs :
    (LexLeq(EncodeIndex(a), Encode(k, r)) /\ LexLess(Encode(k, r), EncodeIndex(b))) <=> (LexLeq(a, k) /\ LexLess(k, b))
\* ... and for a prefix with a finite end
PrefixBoundsEnclose == \A p \in AllKeys, k \in AllKeys :
    PrefixEnd(p) # <<0>> => (IsPrefixOf(p, k) <=> (LexLeq(p, k) /\ LexLess(k, PrefixEnd(p))))
PrefixEndSentinel == \A p \in AllKeys : (PrefixEnd(p) = <<0>>) <=> (\A i \in 1..Len(p) : p[i] = 255)

VARIABLE x
Init == x = 0
Next == UNCHANGED x
=============================================================================
