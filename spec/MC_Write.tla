---- MODULE MC_Write ----
EXTENDS KubeBrain
MCPrefixOf == [p \in {0} |-> Keys]
MCNoFixedOps == << >>
MCAlternate == << [type |-> "create", key |-> 1, val |-> "x", exp |-> 0], [type |-> "delete", key |-> 1, val |-> "-", exp |-> 0],
                  [type |-> "create", key |-> 1, val |-> "x", exp |-> 0], [type |-> "update", key |-> 1, val |-> "x", exp |-> 6],
                  [type |-> "create", key |-> 2, val |-> "x", exp |-> 0] >>
\* every writer creates key 1 (racing creates over one tombstone / one missing key)
MCCreateOnly == << [type |-> "create", key |-> 1, val |-> "x", exp |-> 0] >>
\* every writer deletes key 1
MCDeleteOnly == << [type |-> "delete", key |-> 1, val |-> "-", exp |-> 0] >>
====
