---- MODULE MC_Write ----
EXTENDS KubeBrain
MCPrefixOf == [p \in {0} |-> Keys]
====
