------------------------------ MODULE RolesTable ------------------------------
(***************************************************************************)
(* C18: only the leader writes and streams; followers read at its revision *)
(* or fail.                                                                 *)
(*                                                                         *)
(* Part 1 -- the decision table of the request handlers                     *)
(*   (pkg/server/etcd/kv.go, watch.go; pkg/server/brain/write.go, read.go,  *)
(*    watch.go): what a handler does, given the role of the node, whether   *)
(*   the etcd proxy is on and whether the leader can be reached.            *)
(* Part 2 -- the follower read protocol                                      *)
(*   (pkg/server/service/revision/revision.go): a read fetches the leader's *)
(*   committed revision (concurrent reads share one fetch: single flight),  *)
(*   stores it as the local read revision and then reads locally.           *)
(***************************************************************************)
EXTENDS Integers, Sequences, FiniteSets, TLC, Json

-----------------------------------------------------------------------------
\* Part 1
Methods == { [api |-> "etcd",  m |-> "Txn",           kind |-> "write"],
             [api |-> "etcd",  m |-> "Range",         kind |-> "read"],
             [api |-> "etcd",  m |-> "Get",           kind |-> "read"],     \* a Range without range end
             [api |-> "etcd",  m |-> "RangeAtRev",    kind |-> "read"],     \* a Range that names its revision
             [api |-> "etcd",  m |-> "CountAtRev",    kind |-> "read"],     \* count-only, with a revision
             [api |-> "etcd",  m |-> "ListPartition", kind |-> "read"],     \* a Range with the partition-listing magic revision
             [api |-> "etcd",  m |-> "RangeOptions",  kind |-> "read"],     \* a Range with the option fields of the etcd API set (serializable, keys-only, limit)
             [api |-> "etcd",  m |-> "GetSerializable", kind |-> "read"],   \* a point read marked serializable
             [api |-> "etcd",  m |-> "Watch",         kind |-> "watch"],
             [api |-> "etcd",  m |-> "RangeStream",   kind |-> "read"],     \* a watch request with a negative start revision
             [api |-> "brain", m |-> "Create",        kind |-> "write"],
             [api |-> "brain", m |-> "Update",        kind |-> "write"],
             [api |-> "brain", m |-> "Delete",        kind |-> "write"],
             [api |-> "brain", m |-> "Compact",       kind |-> "write"],
             [api |-> "brain", m |-> "Get",           kind |-> "read"],
             [api |-> "brain", m |-> "Range",         kind |-> "read"],
             [api |-> "brain", m |-> "Count",         kind |-> "read"],
             [api |-> "brain", m |-> "ListPartition", kind |-> "read"],
             [api |-> "brain", m |-> "RangeStream",   kind |-> "read"],
             [api |-> "brain", m |-> "Watch",         kind |-> "watch"] }
RolesSet == {"leader", "follower"}
ProxySet == {"on", "off"}
LeaderStates == {"reachable", "unreachable", "error", "cut"}   \* "cut": the leader dies after the 200 OK head of /status, before the body

\* the decision: "execute" locally, "forward" to the leader, "reject" as unavailable,
\* "sync-read" (adopt the leader's revision, then read locally), "fail" (error, no data)
Decision(meth, role, proxy, lstate) ==
    CASE meth.kind = "write" ->
            IF role = "leader" THEN "execute"
            ELSE IF meth.api = "etcd" /\ proxy = "on" THEN "forward" ELSE "reject"
      [] meth.kind = "watch" ->
            IF role = "leader" THEN "execute"
            ELSE IF meth.api = "etcd" /\ proxy = "on" THEN "forward" ELSE "reject"
      [] meth.kind = "read" ->
            IF role = "leader" THEN "execute"
            ELSE IF lstate = "reachable" THEN "sync-read" ELSE "fail"

Cases == [meth : Methods, role : RolesSet, proxy : ProxySet, lstate : LeaderStates]

\* what the property demands of the table
FollowerNeverWrites == \A c \in Cases : (c.role = "follower" /\ c.meth.kind = "write") => Decision(c.meth, c.role, c.proxy, c.lstate) \in {"forward", "reject"}
FollowerNeverStreamsOwnHistory == \A c \in Cases : (c.role = "follower" /\ c.meth.kind = "watch") => Decision(c.meth, c.role, c.proxy, c.lstate) \in {"forward", "reject"}
FollowerReadsSyncOrFail == \A c \in Cases : (c.role = "follower" /\ c.meth.kind = "read") =>
    Decision(c.meth, c.role, c.proxy, c.lstate) = (IF c.lstate = "reachable" THEN "sync-read" ELSE "fail")
LeaderServes == \A c \in Cases : c.role = "leader" => Decision(c.meth, c.role, c.proxy, c.lstate) = "execute"
=============================================================================
