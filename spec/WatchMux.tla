------------------------------ MODULE WatchMux ------------------------------
(***************************************************************************)
(* C05 / C16 / C20 at the etcd watch stream (pkg/server/etcd/watch.go):    *)
(* one gRPC stream carries many watches.  A create request is answered by  *)
(* "created" with a fresh watch id, after which one goroutine per watch    *)
(* forwards the batches of the backend's watch to the stream under that    *)
(* id; a cancel request ends one watch and is answered by "canceled"; a    *)
(* send that fails ends that watch only; the end of the stream (Recv       *)
(* fails) ends all of them and the handler returns after every goroutine   *)
(* is gone (wg.Wait).  Watches on nested prefixes ("/a/" and "/a/b/") see   *)
(* the same write, each under its own id.                                  *)
(*                                                                         *)
(* Client steps (Create, Write, Delete, CancelReq, Arm, Close) are what    *)
(* the driver `muxrun` executes on the real RPCServer.Watch; Deliver,      *)
(* SendFails are the code's own steps (one per forwarded batch).           *)
(***************************************************************************)
EXTENDS Integers, Sequences, FiniteSets, TLC, Json

CONSTANTS MaxWatches, MaxWrites, MaxCancels, GenHist

Keys == 1..3          \* 1 = "/a/x", 2 = "/a/b/x", 3 = "/c/x"
Pfxs == 1..3          \* 1 = "/a/",  2 = "/a/b/",  3 = "/c/"
Match(k, p) == \/ p = 1 /\ k \in {1, 2}
               \/ p = 2 /\ k = 2
               \/ p = 3 /\ k = 3

VARIABLES wlog,    \* the committed changes, in revision order: sequence of [k, del]
          live,    \* keys that exist
          ws,      \* the watches of the stream in the order of their creation: sequence of
                   \*   [p, from, st, got, armed]  st: "open" / "cancelled" / "failed"
          closed,  \* the client has gone
          ncancel, hist
vars == <<wlog, live, ws, closed, ncancel, hist>>

Rev == Len(wlog)
H(o) == hist' = IF GenHist THEN Append(hist, o) ELSE hist

Init == wlog = << >> /\ live = {} /\ ws = << >> /\ closed = FALSE /\ ncancel = 0 /\ hist = << >>

Write(k) == /\ ~closed /\ Rev < MaxWrites
            /\ wlog' = Append(wlog, [k |-> k, del |-> FALSE]) /\ live' = live \cup {k}
            /\ H([a |-> "Write", k |-> k]) /\ UNCHANGED <<ws, closed, ncancel>>
Delete(k) == /\ ~closed /\ Rev < MaxWrites /\ k \in live
             /\ wlog' = Append(wlog, [k |-> k, del |-> TRUE]) /\ live' = live \ {k}
             /\ H([a |-> "Delete", k |-> k]) /\ UNCHANGED <<ws, closed, ncancel>>

\* a create request: start 0 = "from now", otherwise from a revision in the cached window or the next one
Create(p, s) == /\ ~closed /\ Len(ws) < MaxWatches
                /\ ws' = Append(ws, [p |-> p, from |-> IF s = 0 THEN Rev + 1 ELSE s, st |-> "open", got |-> << >>, armed |-> FALSE])
                /\ H([a |-> "Create", p |-> p, s |-> s]) /\ UNCHANGED <<wlog, live, closed, ncancel>>

Wanted(w) == SelectSeq([i \in 1..Rev |-> i], LAMBDA i : i >= ws[w].from /\ Match(wlog[i].k, ws[w].p))
Pending(w) == SubSeq(Wanted(w), Len(ws[w].got) + 1, Len(Wanted(w)))

\* the goroutine of watch w forwards what the backend handed it (any non-empty prefix of what is pending: batches)
Deliver(w) == /\ ~closed /\ ws[w].st = "open" /\ ~ws[w].armed /\ Pending(w) # << >>
              /\ \E n \in 1..Len(Pending(w)) :
                   ws' = [ws EXCEPT ![w].got = @ \o SubSeq(Pending(w), 1, n)]
              /\ UNCHANGED <<wlog, live, closed, ncancel, hist>>
\* ... or its send fails: this watch ends, nothing else does
Arm(w) == /\ ~closed /\ ws[w].st = "open" /\ ~ws[w].armed
          /\ ws' = [ws EXCEPT ![w].armed = TRUE]
          /\ H([a |-> "Arm", w |-> w]) /\ UNCHANGED <<wlog, live, closed, ncancel>>
SendFails(w) == /\ ~closed /\ ws[w].st = "open" /\ ws[w].armed /\ Pending(w) # << >>
                /\ ws' = [ws EXCEPT ![w].st = "failed"]
                /\ UNCHANGED <<wlog, live, closed, ncancel, hist>>
\* a cancel request names one watch (possibly one that has ended already)
CancelReq(w) == /\ ~closed /\ ncancel < MaxCancels
                /\ ws' = [ws EXCEPT ![w].st = IF @ = "open" THEN "cancelled" ELSE @]
                /\ ncancel' = ncancel + 1
                /\ H([a |-> "Cancel", w |-> w]) /\ UNCHANGED <<wlog, live, closed>>
Close == /\ ~closed /\ closed' = TRUE /\ (GenHist => Len(hist) >= 6)   \* (generated scripts: not before six client steps)
         /\ ws' = [w \in 1..Len(ws) |-> [ws[w] EXCEPT !.st = IF @ = "open" THEN "cancelled" ELSE @]]
         /\ H([a |-> "Close"]) /\ UNCHANGED <<wlog, live, ncancel>>

Next == \/ \E k \in Keys : Write(k) \/ Delete(k)
        \/ \E p \in Pfxs, s \in 0..(Rev + 1) : Create(p, s)
        \/ \E w \in 1..Len(ws) : Arm(w) \/ CancelReq(w)
        \/ ~GenHist /\ \E w \in 1..Len(ws) : Deliver(w) \/ SendFails(w)   \* (the code's own steps: not part of a generated client script)
        \/ Close
Spec == Init /\ [][Next]_vars

\* ---- what a client of the stream relies on
\* only matching changes from the start revision on, each once, in revision order
DeliveredMatches == \A w \in 1..Len(ws) : \A i \in 1..Len(ws[w].got) :
                       /\ ws[w].got[i] >= ws[w].from /\ Match(wlog[ws[w].got[i]].k, ws[w].p)
                       /\ (i > 1 => ws[w].got[i - 1] < ws[w].got[i])
\* nothing is skipped: what was delivered is a prefix of what is wanted
DeliveredIsPrefix == \A w \in 1..Len(ws) : ws[w].got = SubSeq(Wanted(w), 1, Len(ws[w].got))
\* an open watch with nothing left to forward has seen everything
CompleteWhenQuiet == \A w \in 1..Len(ws) : (ws[w].st = "open" /\ ~ws[w].armed /\ Pending(w) = << >>) => ws[w].got = Wanted(w)
\* a watch that has ended receives nothing more, and ending one watch ends no other (short of the end of the stream)
EndedIsSilent == [][\A w \in 1..Len(ws) : ws[w].st # "open" => ws'[w].got = ws[w].got]_vars
EndIsIsolated == [][closed' \/ Cardinality({w \in 1..Len(ws) : ws[w].st = "open" /\ ws'[w].st # "open"}) <= 1]_vars

Done == closed
Dump == Done => PrintT(<<"BEHAVIOUR", ToJson([steps |-> hist])>>)
=============================================================================
