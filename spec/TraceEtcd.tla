------------------------------ MODULE TraceEtcd ------------------------------
(***************************************************************************)
(* Trace specification for the transaction part of C16: every transaction   *)
(* sent to the REAL etcd-compatible Txn handler over a seeded store is      *)
(* classified by the specification's recognisers and compared with what     *)
(* etcd semantics prescribe (Etcd.tla, operators Shape and Ref).            *)
(***************************************************************************)
EXTENDS Etcd, IOUtils

Trace == ndJsonDeserialize(IOEnv.KB_TRACE)
VARIABLES l, viol
tvars == <<txn, st, l, viol>>
E == Trace[l]
Is(e) == l <= Len(Trace) /\ E.e = e
V(cond, name) == IF cond \/ (\E v \in viol : v[1] = name) THEN {} ELSE {<<name, l>>}

TInit == l = 1 /\ viol = {} /\ txn = [cmp |-> << >>, succ |-> << >>, fail |-> << >>] /\ st = [k \in Keys |-> Absent]

Future(t) == \E i \in 1..Len(t.cmp) : t.cmp[i].rev > Cur + 1

TTxn ==
    /\ Is("ETxn") /\ l' = l + 1
    /\ txn' = E.txn /\ st' = E.st
    /\ LET t == E.txn  s0 == E.st  s == Shape(t)  ref == Ref(t, s0) IN
       viol' = viol \cup
         (CASE s = "unsupported" -> V(E.err /\ E.post = s0, "UnsupportedRejected")
            [] s = "compact" -> V(~E.err /\ ~E.succ /\ E.post = s0, "CompactIsNoop")
            [] OTHER ->
                 IF Future(t) THEN V(E.post = s0, "FutureRevisionHasNoEffect")
                 ELSE V(~E.err, "K8sShapeServed")
                      \cup V(E.post = ref.store, "RecognisedIsEtcd")
                      \cup (IF s # "delete0" THEN V(E.succ = ref.succ, "RecognisedIsEtcd") ELSE V(E.succ = ref.succ, "UnguardedDeleteSucceeds"))
                      \cup (IF ~E.succ /\ s \in {"update", "delete"} THEN V(E.kv = ref.kv, "FailureBranchKv") ELSE {}))
TReset == /\ Is("Reset") /\ l' = l + 1 /\ UNCHANGED <<txn, st, viol>>
TNext == TTxn \/ TReset
TSpec == TInit /\ [][TNext]_tvars
TraceAccepted == TLCGet("stats").diameter - 1 = Len(Trace)
NoViol(name) == \A v \in viol : v[1] # name
M_UnsupportedRejected == NoViol("UnsupportedRejected")
M_CompactIsNoop == NoViol("CompactIsNoop")
M_K8sShapeServed == NoViol("K8sShapeServed")
M_RecognisedIsEtcd == NoViol("RecognisedIsEtcd")
M_FailureBranchKv == NoViol("FailureBranchKv")
M_FutureRevisionHasNoEffect == NoViol("FutureRevisionHasNoEffect")
M_UnguardedDeleteSucceeds == NoViol("UnguardedDeleteSucceeds")
=============================================================================
