------------------------------ MODULE Election ------------------------------
(***************************************************************************)
(* C14: the lock record used for leader election                            *)
(*      (pkg/backend/election/election.go): Get reads the record (and the   *)
(*      engine timestamp), Create is put-if-absent, Update is                *)
(*      compare-and-swap against the bytes the candidate LAST READ.          *)
(* C15: a new leader seeds its revision counter from the engine timestamp    *)
(*      it read with the lock (pkg/server/service/leader/leader.go); the     *)
(*      revisions it hands out must exceed every stored revision.            *)
(***************************************************************************)
EXTENDS Integers, Sequences, FiniteSets, TLC, Json

CONSTANTS Cands,       \* candidate identities (strings)
          MaxSteps,    \* lock operations per behaviour
          ClockKind,   \* "fast": the engine clock advances at least one tick per write attempt (wall clock, PD)
                       \* "txncount": it counts committed engine transactions (Badger)
          MaxAttempts, \* write attempts a leader makes in the C15 part
          GenHist

None == [holder |-> "", n |-> 0]

VARIABLES rec,        \* the stored lock record
          last,       \* [Cands -> record last read (or written by Create)]
          cnt,        \* [Cands -> number of records written so far] (makes every written record distinct)
          wins,       \* ghost: sequence of successful acquisitions [c, kind, from]
          steps, hist,
          \* ---- C15
          clock,      \* engine timestamp
          tso,        \* [Cands -> timestamp read with the lock]
          leader,     \* current leader ("" = none)
          dealt,      \* revision counter of the current leader
          stored,     \* set of revisions present in the store
          issued,     \* ghost: revisions handed out by the current leader since it started
          storedAtStart, \* ghost: revisions in the store when the current leader started
          attempts
vars == <<rec, last, cnt, wins, steps, hist, clock, tso, leader, dealt, stored, issued, storedAtStart, attempts>>

Init == /\ rec = None /\ last = [c \in Cands |-> None] /\ cnt = [c \in Cands |-> 0] /\ wins = << >>
        /\ steps = 0 /\ hist = << >>
        /\ clock = 1 /\ tso = [c \in Cands |-> 0] /\ leader = "" /\ dealt = 0 /\ stored = {} /\ issued = {} /\ storedAtStart = {}
        /\ attempts = 0

H(o) == hist' = IF GenHist THEN Append(hist, o) ELSE hist
Tick == clock' = clock + 1     \* a committed engine transaction advances every kind of clock

NewRec(c) == [holder |-> c, n |-> cnt[c] + 1]
CandNo(c) == IF c = "a" THEN 1 ELSE IF c = "b" THEN 2 ELSE 3

\* ---- the three lock operations; each is one engine call plus a timestamp read
Get(c) ==
    /\ last' = [last EXCEPT ![c] = rec]
    /\ tso' = [tso EXCEPT ![c] = clock]
    /\ H([e |-> "LGet", c |-> c, found |-> rec # None, holder |-> rec.holder, n |-> rec.n])
    /\ UNCHANGED <<rec, cnt, wins, clock>>

Create(c) ==
    /\ cnt' = [cnt EXCEPT ![c] = @ + 1]
    /\ IF rec = None
       THEN /\ rec' = NewRec(c) /\ last' = [last EXCEPT ![c] = NewRec(c)]
            /\ wins' = Append(wins, [c |-> c, kind |-> "create", from |-> None])
            /\ Tick /\ tso' = [tso EXCEPT ![c] = clock + 1]
            /\ H([e |-> "LCreate", c |-> c, n |-> cnt[c] + 1, ok |-> TRUE])
       ELSE /\ UNCHANGED <<rec, last, wins, clock, tso>>
            /\ H([e |-> "LCreate", c |-> c, n |-> cnt[c] + 1, ok |-> FALSE])

\* (the code requires a previous Get or Create: tso # 0; Update does not refresh `last`)
Update(c) ==
    /\ tso[c] # 0
    /\ cnt' = [cnt EXCEPT ![c] = @ + 1]
    /\ IF rec # None /\ rec = last[c]
       THEN /\ rec' = NewRec(c)
            /\ wins' = Append(wins, [c |-> c, kind |-> "update", from |-> rec])
            /\ Tick /\ tso' = [tso EXCEPT ![c] = clock + 1]
            /\ H([e |-> "LUpdate", c |-> c, n |-> cnt[c] + 1, ok |-> TRUE])
       ELSE /\ UNCHANGED <<rec, wins, clock, tso>>
            /\ H([e |-> "LUpdate", c |-> c, n |-> cnt[c] + 1, ok |-> FALSE])
    /\ UNCHANGED last

\* giving the lock up (client-go: release on cancel): an Update that writes an empty holder -- the same
\* compare-and-swap against the bytes last read; a candidate whose view is stale must not wipe the record
Release(c) ==
    /\ tso[c] # 0
    /\ cnt' = [cnt EXCEPT ![c] = @ + 1]
    /\ IF rec # None /\ rec = last[c]
       THEN /\ rec' = [holder |-> "", n |-> 100 * (cnt[c] + 1) + CandNo(c)]   \* (records carry times: no two are equal)
            /\ wins' = Append(wins, [c |-> "", kind |-> "release", from |-> rec])
            /\ Tick /\ tso' = [tso EXCEPT ![c] = clock + 1]
            /\ H([e |-> "LRelease", c |-> c, n |-> cnt[c] + 1, ok |-> TRUE])
       ELSE /\ UNCHANGED <<rec, wins, clock, tso>>
            /\ H([e |-> "LRelease", c |-> c, n |-> cnt[c] + 1, ok |-> FALSE])
    /\ UNCHANGED last

\* a second candidate's create when the engine's own read inside the put-if-absent fails (an aborted point read on TiKV): the
\* create fails and the record that is there stays
CreateFaulty(c) ==
    /\ rec # None
    /\ cnt' = [cnt EXCEPT ![c] = @ + 1]
    /\ H([e |-> "LCreate", c |-> c, n |-> cnt[c] + 1, ok |-> FALSE, fault |-> TRUE])
    /\ UNCHANGED <<rec, last, wins, clock, tso>>

\* a query about the lock (Describe / Identity: the leader-info endpoints, the revision syncer and the etcd proxy ask on their own
\* goroutines, at any time): it reads, but what the candidate will compare against in its next Update stays what it last Got
Describe(c) ==
    /\ H([e |-> "LDescribe", c |-> c])
    /\ UNCHANGED <<rec, last, cnt, wins, clock, tso>>

LockStep == /\ steps < MaxSteps /\ steps' = steps + 1
            /\ \E c \in Cands : Get(c) \/ Create(c) \/ Update(c) \/ Release(c) \/ Describe(c) \/ CreateFaulty(c)
            \* the old leader has stopped by the time another candidate takes the lock (C15's quantifier;
            \* two overlapping leaders are a different matter)
            /\ leader' = IF leader # "" /\ rec'.holder # leader THEN "" ELSE leader
            /\ UNCHANGED <<dealt, stored, issued, storedAtStart, attempts>>

\* ---- C15: a candidate that holds the lock starts leading with the timestamp it read
StartLeading(c) ==
    /\ rec.holder = c /\ leader # c /\ tso[c] # 0
    /\ leader' = c /\ dealt' = tso[c] /\ issued' = {} /\ storedAtStart' = stored
    /\ H([e |-> "LeaderStart", c |-> c, seed |-> tso[c]])
    /\ UNCHANGED <<rec, last, cnt, wins, steps, clock, tso, stored, attempts>>

\* one write attempt of the leader: it always consumes a revision; only a successful one commits
Attempt(ok) ==
    /\ leader # "" /\ attempts < MaxAttempts /\ attempts' = attempts + 1
    /\ dealt' = dealt + 1 /\ issued' = issued \cup {dealt + 1}
    /\ stored' = IF ok THEN stored \cup {dealt + 1} ELSE stored
    /\ clock' = IF ok \/ ClockKind = "fast" THEN clock + 1 ELSE clock
    /\ H([e |-> "Attempt", ok |-> ok, rev |-> dealt + 1])
    /\ UNCHANGED <<rec, last, cnt, wins, steps, tso, leader, storedAtStart>>

Next == LockStep \/ (\E c \in Cands : StartLeading(c)) \/ (\E ok \in BOOLEAN : Attempt(ok))
Spec == Init /\ [][Next]_vars

-----------------------------------------------------------------------------
\* C14
AtMostOneCreate == Cardinality({i \in 1..Len(wins) : wins[i].kind = "create"}) <= 1
\* two candidates never both acquire from the same observed record
NoTwoFromSameObserved == \A i, j \in 1..Len(wins) : (i # j /\ wins[i].kind # "create" /\ wins[j].kind # "create") => wins[i].from # wins[j].from
\* the stored record is always the one written by the latest successful acquisition
NeverSilentlyOverwritten == wins # << >> => (rec.holder = wins[Len(wins)].c /\ rec # None)
\* C15
NewRevisionsAboveStored == \A r \in issued : \A s \in storedAtStart : r > s

Done == steps = MaxSteps /\ attempts = MaxAttempts
Dump == Done => PrintT(<<"BEHAVIOUR", ToJson([steps |-> hist])>>)
View == <<rec, last, cnt, wins, steps, clock, tso, leader, dealt, stored, issued, storedAtStart, attempts>>
=============================================================================
