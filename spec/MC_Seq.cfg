CONSTANTS
  Keys = {1, 2}
  Vals = {"x"}
  MaxOps = 4
  Base = 0
  ExpKinds = {"zero", "cur", "stale", "fut"}
  OpKinds = {"create", "update", "delete", "compact"}
  CompactKinds = {"zero", "cur-1", "old", "above"}
  EventKeys = {}
  Expiry = FALSE
  CompactAfter = 0
  DelFaultKinds = {}
  StreamBatch = 1
  StreamRestarts = FALSE
  ResetOnRestart = TRUE
  ErrIsAbsent = FALSE
  GenHist = FALSE
INIT Init
NEXT Next
VIEW View
INVARIANTS ScanIsSnapshot PointIsSnapshot IndexAgrees FloorMonotone FloorAccepted PartitionInvariant StreamInvariant CompactionSafe
CHECK_DEADLOCK FALSE
