------------------------------ MODULE TraceRequests ------------------------------
(***************************************************************************)
(* Trace specification for C20: one "Req" line per request sent to the real *)
(* handlers of a long-lived node that runs with the real Prometheus client, *)
(* one "Metric" line per metric name with the label-name lists it was       *)
(* emitted with, one "MetricPanic" line per panic of the metrics client.    *)
(***************************************************************************)
EXTENDS Requests, IOUtils

Trace == ndJsonDeserialize(IOEnv.KB_TRACE)
VARIABLES l, viol
tvars == <<req, l, viol>>
E == Trace[l]
Is(e) == l <= Len(Trace) /\ E.e = e
V(cond, name) == IF cond \/ (\E v \in viol : v[1] = name) THEN {} ELSE {<<name, l>>}

TInit == l = 1 /\ viol = {} /\ req = [h |-> "none"]
TReq ==
    /\ Is("Req") /\ l' = l + 1 /\ req' = E.req
    /\ viol' = viol \cup V(E.outcome \in {"response", "error"}, "Answered")
                    \cup V(E.live, "StillLive")
                    \cup V(E.metric_panics = 0, "NoMetricPanic")
                    \cup (IF MustReject(E.req) THEN V(E.outcome = "error", "Validated") ELSE {})
TMetric ==
    /\ Is("Metric") /\ l' = l + 1
    /\ viol' = viol \cup V(E.n = 1, "MetricLabelsConsistent")
    /\ UNCHANGED req
TMetricPanic == /\ Is("MetricPanic") /\ l' = l + 1 /\ viol' = viol \cup V(FALSE, "NoMetricPanic") /\ UNCHANGED req
TReset == /\ Is("Reset") /\ l' = l + 1 /\ UNCHANGED <<req, viol>>
TNext == TReq \/ TMetric \/ TMetricPanic \/ TReset
TSpec == TInit /\ [][TNext]_tvars
TraceAccepted == TLCGet("stats").diameter - 1 = Len(Trace)
NoViol(name) == \A v \in viol : v[1] # name
M_Answered == NoViol("Answered")
M_StillLive == NoViol("StillLive")
M_NoMetricPanic == NoViol("NoMetricPanic")
M_Validated == NoViol("Validated")
M_MetricLabelsConsistent == NoViol("MetricLabelsConsistent")
=============================================================================
