------------------------------ MODULE TraceRequests ------------------------------
(***************************************************************************)
(* Trace specification for C20: one "Req" line per request sent to the real *)
(* handlers of a long-lived node that runs with the real Prometheus client, *)
(* one "Metric" line per metric name with the label-name lists it was       *)
(* emitted with, one "MetricPanic" line per panic of the metrics client.    *)
(***************************************************************************)
EXTENDS Requests, IOUtils

Trace == ndJsonDeserialize(IOEnv.KB_TRACE)
VARIABLES l, viol, mk     \* mk: the metric name of the current MetricsReg.tla schedule has been created
tvars == <<req, l, viol, mk>>
E == Trace[l]
Is(e) == l <= Len(Trace) /\ E.e = e
V(cond, name) == IF cond \/ (\E v \in viol : v[1] = name) THEN {} ELSE {<<name, l>>}

TInit == l = 1 /\ viol = {} /\ req = [h |-> "none"] /\ mk = FALSE
TReq ==
    /\ Is("Req") /\ l' = l + 1 /\ req' = E.req
    /\ viol' = viol \cup V(E.outcome \in {"response", "error"}, "Answered")
                    \cup V(E.live, "StillLive")
                    \cup V(E.metric_panics = 0, "NoMetricPanic")
                    \cup (IF MustReject(E.req) THEN V(E.outcome = "error", "Validated") ELSE {})
    /\ UNCHANGED mk
TMetric ==
    /\ Is("Metric") /\ l' = l + 1
    /\ viol' = viol \cup V(E.n = 1, "MetricLabelsConsistent")
    /\ UNCHANGED <<req, mk>>
TMetricPanic == /\ Is("MetricPanic") /\ l' = l + 1 /\ viol' = viol \cup V(FALSE, "NoMetricPanic") /\ UNCHANGED <<req, mk>>
\* schedules of MetricsReg.tla on the real client: a lookup misses exactly while the name is unknown; creating it never panics
TMLookup == /\ Is("MLookup") /\ l' = l + 1 /\ viol' = viol \cup V(E.miss = ~mk, "MetricLookupIsSpec") /\ UNCHANGED <<req, mk>>
TMCreate == /\ Is("MCreate") /\ l' = l + 1 /\ mk' = TRUE /\ viol' = viol \cup V(~E.panic, "NoMetricPanic") /\ UNCHANGED req
TReset == /\ Is("Reset") /\ l' = l + 1 /\ mk' = FALSE /\ UNCHANGED <<req, viol>>
TNext == TReq \/ TMetric \/ TMetricPanic \/ TMLookup \/ TMCreate \/ TReset
TSpec == TInit /\ [][TNext]_tvars
TraceAccepted == TLCGet("stats").diameter - 1 = Len(Trace)
NoViol(name) == \A v \in viol : v[1] # name
M_Answered == NoViol("Answered")
M_StillLive == NoViol("StillLive")
M_NoMetricPanic == NoViol("NoMetricPanic")
M_Validated == NoViol("Validated")
M_MetricLabelsConsistent == NoViol("MetricLabelsConsistent")
M_MetricLookupIsSpec == NoViol("MetricLookupIsSpec")
=============================================================================
