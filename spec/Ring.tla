------------------------------ MODULE Ring ------------------------------
(***************************************************************************)
(* The event cache (pkg/backend/ring.go): a ring of the L most recent       *)
(* events, filled in revision order by the sequencer.  Revisions of         *)
(* consecutive events may differ by more than one (a failed write consumes  *)
(* a revision and leaves no event).  Find(S) is what a watch registration   *)
(* reads (C05): nothing / start too high / start too low / the events with  *)
(* revision >= S, oldest first.                                             *)
(*                                                                         *)
(* The implementation keeps two counters and an array and locates S by      *)
(* binary search over the live window, copying the result in one or two     *)
(* pieces when the window wraps; the model keeps the window as a sequence.  *)
(* TLC enumerates every fill (all gap patterns up to the bounds, through     *)
(* at least one full wrap-around) and every start revision; each            *)
(* (fill, lookup) pair is executed on the real Ring.                        *)
(***************************************************************************)
EXTENDS Integers, Sequences, FiniteSets, TLC, Json

CONSTANTS Cap,       \* capacity of the ring
          MaxAdds,   \* events added in one behaviour
          Gaps,      \* possible differences between consecutive revisions, e.g. {1, 2, 3}
          GenHist

VARIABLES win,     \* the cached events (revisions), oldest first, Len <= Cap
          adds,    \* every revision added so far, in order
          done
vars == <<win, adds, done>>

Init == win = << >> /\ adds = << >> /\ done = FALSE
Last == IF adds = << >> THEN 0 ELSE adds[Len(adds)]

Add == /\ ~done /\ Len(adds) < MaxAdds
       /\ \E g \in Gaps :
            LET r == Last + g IN
            /\ adds' = Append(adds, r)
            /\ win' = IF Len(win) = Cap THEN Append(Tail(win), r) ELSE Append(win, r)
       /\ UNCHANGED done
Stop == ~done /\ done' = TRUE /\ UNCHANGED <<win, adds>>
Next == Add \/ Stop

\* the lookup
Find(w, S) ==
    IF w = << >> THEN [kind |-> "empty", revs |-> << >>]
    ELSE IF S > w[Len(w)] THEN [kind |-> "high", revs |-> << >>]
    ELSE IF S < w[1] THEN [kind |-> "low", revs |-> << >>]
    ELSE [kind |-> "slice", revs |-> SelectSeq(w, LAMBDA r : r >= S)]

\* what every user of the cache relies on
Starts == 0..(Last + 2)
FindSound == \A S \in Starts :
    LET f == Find(win, S) IN
    /\ f.kind = "slice" => /\ f.revs # << >>
                           /\ \A i \in 1..Len(f.revs) : f.revs[i] >= S
                           /\ \A i \in 1..(Len(f.revs) - 1) : f.revs[i] < f.revs[i + 1]
                           \* nothing cached at or above S is left out
                           /\ \A i \in 1..Len(win) : win[i] >= S => \E j \in 1..Len(f.revs) : f.revs[j] = win[i]
                           /\ f.revs[Len(f.revs)] = win[Len(win)]
    /\ f.kind = "low" => win # << >> /\ S < win[1]
WindowIsSuffix == /\ Len(win) <= Cap
                  /\ win = SubSeq(adds, Len(adds) - Len(win) + 1, Len(adds))
                  /\ (Len(adds) >= Cap => Len(win) = Cap)

Dump == done => PrintT(<<"BEHAVIOUR", ToJson([cap |-> Cap, adds |-> adds])>>)
View == <<win, adds, done>>
=============================================================================
