------------------------------ MODULE Storage ------------------------------
(***************************************************************************)
(* The engine contract every storage adapter has to honour (C11),          *)
(* pkg/storage/interface.go:                                               *)
(*   - a write batch takes effect entirely or not at all; its operations    *)
(*     are evaluated in order against the state the earlier ones produce;   *)
(*   - put-if-absent / compare-and-swap / compare-and-delete take effect    *)
(*     exactly when their condition holds and otherwise make the commit     *)
(*     report a FAILED CONDITION (an error matching ErrCASFailed);           *)
(*   - an iterator yields the keys of [start, end) ascending, or of         *)
(*     (end, start] descending when start > end, from the snapshot taken    *)
(*     when it was opened; with a limit at least the first `limit` of them. *)
(*                                                                         *)
(* Keys are positions 1..MaxPos (stored keys and range bounds alike).       *)
(***************************************************************************)
EXTENDS Integers, Sequences, FiniteSets, TLC, Json

CONSTANTS MaxPos, KeyPos, Vals, MaxSteps, MaxIters, GenHist,
          WholeIters   \* generator bias: iterators only over the whole key space, unlimited (sequences then get to compare-and-delete more often)

Absent == "<absent>"

VARIABLES kv,      \* [KeyPos -> Vals \cup {Absent}]
          iters,   \* sequence of open iterators [items, pos, limit]
          pb,      \* the batch being assembled (its operations are chosen one at a time)
          n, hist
vars == <<kv, iters, pb, n, hist>>

Init == kv = [k \in KeyPos |-> Absent] /\ iters = << >> /\ pb = << >> /\ n = 0 /\ hist = << >>

\* ---- batches
OpSet == [o : {"pine"}, k : KeyPos, v : Vals, old : {Absent}]
    \cup [o : {"cas"}, k : KeyPos, v : Vals, old : Vals]
    \cup [o : {"put"}, k : KeyPos, v : Vals, old : {Absent}]
    \cup [o : {"del"}, k : KeyPos, v : {Absent}, old : {Absent}]

CondHolds(m, op) ==
    CASE op.o = "pine" -> m[op.k] = Absent
      [] op.o = "cas"  -> m[op.k] # Absent /\ m[op.k] = op.old
      [] OTHER -> TRUE
Effect(m, op) == IF op.o = "del" THEN [m EXCEPT ![op.k] = Absent] ELSE [m EXCEPT ![op.k] = op.v]

\* sequential evaluation; the first failed condition aborts the whole batch
RECURSIVE RunBatch(_, _)
RunBatch(m, ops) ==
    IF ops = << >> THEN [ok |-> TRUE, m |-> m]
    ELSE IF ~CondHolds(m, Head(ops)) THEN [ok |-> FALSE, m |-> m]
    ELSE RunBatch(Effect(m, Head(ops)), Tail(ops))
CommitResult(m, ops) == LET r == RunBatch(m, ops) IN IF r.ok THEN [res |-> "ok", m |-> r.m] ELSE [res |-> "cas", m |-> m]

\* ---- iterators
RECURSIVE Asc(_, _, _)
Asc(m, lo, hi) == IF lo >= hi THEN << >>
                  ELSE (IF lo \in KeyPos /\ m[lo] # Absent THEN <<[k |-> lo, v |-> m[lo]]>> ELSE << >>) \o Asc(m, lo + 1, hi)
RECURSIVE Desc(_, _, _)
Desc(m, hi, lo) == IF hi <= lo THEN << >>
                   ELSE (IF hi \in KeyPos /\ m[hi] # Absent THEN <<[k |-> hi, v |-> m[hi]]>> ELSE << >>) \o Desc(m, hi - 1, lo)
\* start inclusive, end exclusive, in the requested direction
IterSeq(m, s, e) == IF s < e THEN Asc(m, s, e) ELSE IF s > e THEN Desc(m, s, e) ELSE << >>

H(o) == hist' = IF GenHist THEN Append(hist, o) ELSE hist

AddOp == \E a \in OpSet :
    /\ Len(pb) < 2 /\ pb' = Append(pb, a) /\ UNCHANGED <<kv, iters, hist>>
CommitB ==
    /\ pb # << >>
    /\ LET r == CommitResult(kv, pb) IN
       /\ kv' = r.m /\ H([e |-> "SCommit", ops |-> pb, res |-> r.res])
    /\ pb' = << >> /\ UNCHANGED iters
Get == \E k \in 1..MaxPos :
    /\ H([e |-> "SGet", k |-> k, v |-> IF k \in KeyPos THEN kv[k] ELSE Absent]) /\ UNCHANGED <<kv, iters, pb>>
Del == \E k \in KeyPos :
    /\ kv' = [kv EXCEPT ![k] = Absent] /\ H([e |-> "SDel", k |-> k, res |-> "ok"]) /\ UNCHANGED <<iters, pb>>
IterOpen == \E s \in 0..(MaxPos + 1), e \in 0..(MaxPos + 1), lim \in {0, 1, 2} :
    /\ Len(iters) < MaxIters
    /\ (WholeIters => (lim = 0 /\ {s, e} = {0, MaxPos + 1}))
    /\ iters' = Append(iters, [items |-> IterSeq(kv, s, e), pos |-> 0, limit |-> lim])
    /\ H([e |-> "SIterOpen", id |-> Len(iters) + 1, s |-> s, en |-> e, limit |-> lim]) /\ UNCHANGED <<kv, pb>>
\* advance one element (only where one exists and the limit allows asking for it)
IterNext == \E i \in 1..Len(iters) :
    LET it == iters[i] IN
    /\ it.pos < Len(it.items) /\ (it.limit = 0 \/ it.pos < it.limit)
    /\ iters' = [iters EXCEPT ![i].pos = @ + 1]
    /\ H([e |-> "SIterNext", id |-> i, k |-> it.items[it.pos + 1].k, v |-> it.items[it.pos + 1].v]) /\ UNCHANGED <<kv, pb>>
\* read the rest: all remaining items of the snapshot (with a limit: at least up to the limit)
IterDrain == \E i \in 1..Len(iters) :
    LET it == iters[i] IN
    /\ it.pos <= Len(it.items)
    /\ iters' = [iters EXCEPT ![i].pos = Len(it.items) + 1]
    /\ H([e |-> "SIterDrain", id |-> i, rest |-> SubSeq(it.items, it.pos + 1, Len(it.items)), limit |-> it.limit, pos |-> it.pos]) /\ UNCHANGED <<kv, pb>>
\* compare-and-delete of the element the iterator stands on
DelCur == \E i \in 1..Len(iters) :
    LET it == iters[i] IN
    /\ it.pos >= 1 /\ it.pos <= Len(it.items)
    /\ LET cur == it.items[it.pos]
           ok == kv[cur.k] = cur.v IN
       /\ kv' = IF ok THEN [kv EXCEPT ![cur.k] = Absent] ELSE kv
       /\ H([e |-> "SDelCur", id |-> i, k |-> cur.k, res |-> IF ok THEN "ok" ELSE "cas"])
    /\ UNCHANGED <<iters, pb>>

\* End: the single successor of a complete sequence (so that a generator prints it exactly once)
End == n = MaxSteps /\ pb = << >> /\ n' = MaxSteps + 1 /\ UNCHANGED <<kv, iters, pb, hist>>
Next == \/ /\ n < MaxSteps /\ pb = << >> /\ n' = n + 1
           /\ (Get \/ Del \/ IterOpen \/ IterNext \/ IterDrain \/ DelCur)
        \/ (n < MaxSteps /\ AddOp /\ n' = n)
        \/ (CommitB /\ n' = n + 1)
        \/ End
Spec == Init /\ [][Next]_vars

-----------------------------------------------------------------------------
\* properties of the contract itself (checked by TLC over all sequences of the bounded model)
\* a failed batch changes nothing; a successful one applies every operation
AllOrNothing == \A a \in OpSet, b \in OpSet :
    LET r == CommitResult(kv, <<a, b>>) IN
    /\ (r.res = "cas" => r.m = kv)
    /\ (r.res = "ok" => r.m = Effect(Effect(kv, a), b) /\ CondHolds(kv, a) /\ CondHolds(Effect(kv, a), b))
\* an open iterator is not affected by later writes (snapshot)
IterSorted == \A i \in 1..Len(iters) : \A p \in 1..(Len(iters[i].items) - 1) :
    iters[i].items[p].k # iters[i].items[p + 1].k
TypeOK == kv \in [KeyPos -> Vals \cup {Absent}]

Done == n = MaxSteps + 1
Dump == Done => PrintT(<<"BEHAVIOUR", ToJson([steps |-> hist])>>)
View == <<kv, iters, pb, n>>
=============================================================================
