------------------------------ MODULE TraceAgree ------------------------------
(***************************************************************************)
(* C12: the same request history must produce the same client-visible       *)
(* transcript on every storage engine.  The harness runs one history on     *)
(* every engine and logs, per engine, one line per response (writes, reads, *)
(* compactions, watch events) in normalised form.  This trace specification *)
(* keeps the first transcript line seen for every (history, position) and   *)
(* requires every other engine to produce the same line and the same        *)
(* number of lines.                                                         *)
(***************************************************************************)
EXTENDS Integers, Sequences, TLC, Json, IOUtils

Trace == ndJsonDeserialize(IOEnv.KB_TRACE)

\* start: trace line of the first response of the first engine that ran the current history (0: none yet)
\* n1:    number of responses of that engine (-1 until it is done)
\* (the first transcript is read back from the trace itself, so a state stays small however long it is)
VARIABLES l, start, n1, viol
vars == <<l, start, n1, viol>>

E == Trace[l]
Is(e) == l <= Len(Trace) /\ E.e = e
Bad == IF viol = {} THEN {<<"EnginesAgree", l>>} ELSE viol

TInit == l = 1 /\ start = 0 /\ n1 = -1 /\ viol = {}

TResp ==
    /\ Is("Resp") /\ l' = l + 1
    /\ IF n1 = -1
       THEN \* the first engine: its i-th response is at line start + i - 1
            /\ start' = IF start = 0 THEN l ELSE start
            /\ viol' = IF E.i = l - (IF start = 0 THEN l ELSE start) + 1 THEN viol ELSE Bad
       ELSE /\ start' = start
            /\ viol' = IF E.i >= 1 /\ E.i <= n1 /\ Trace[start + E.i - 1].r = E.r THEN viol ELSE Bad
    /\ UNCHANGED n1

TDone ==
    /\ Is("Done") /\ l' = l + 1
    /\ IF n1 = -1
       THEN /\ n1' = E.n
            /\ viol' = IF (start = 0 /\ E.n = 0) \/ (start > 0 /\ E.n = l - start) THEN viol ELSE Bad
       ELSE /\ n1' = n1
            /\ viol' = IF E.n = n1 THEN viol ELSE Bad
    /\ UNCHANGED start

TReset ==
    /\ Is("Reset") /\ l' = l + 1
    /\ start' = 0 /\ n1' = -1
    /\ UNCHANGED viol

TNext == TResp \/ TDone \/ TReset
TSpec == TInit /\ [][TNext]_vars

TraceAccepted == TLCGet("stats").diameter - 1 = Len(Trace)
M_EnginesAgree == viol = {}
=============================================================================
