------------------------------ MODULE TraceAgree ------------------------------
(***************************************************************************)
(* C12: the same request history must produce the same client-visible       *)
(* transcript on every storage engine.  The harness runs one history on     *)
(* every engine and logs, per engine, one line per response (writes, reads, *)
(* compactions, watch events) in normalised form.  This trace specification *)
(* keeps the first transcript line seen for every (history, position) and   *)
(* requires every other engine to produce the same line and the same        *)
(* number of lines.                                                         *)
(***************************************************************************)
EXTENDS Integers, Sequences, TLC, Json, IOUtils

Trace == ndJsonDeserialize(IOEnv.KB_TRACE)

VARIABLES l, first, lens, viol
vars == <<l, first, lens, viol>>

E == Trace[l]
Is(e) == l <= Len(Trace) /\ E.e = e

TInit == l = 1 /\ first = << >> /\ lens = {} /\ viol = {}

\* first: sequence of transcript lines of the first engine that ran the history
TResp ==
    /\ Is("Resp") /\ l' = l + 1
    /\ IF E.i > Len(first)
       THEN /\ first' = IF E.i = Len(first) + 1 /\ lens = {} THEN Append(first, E.r) ELSE first
            /\ viol' = IF lens # {} /\ viol = {} THEN {<<"EnginesAgree", l>>} ELSE viol
       ELSE /\ first' = first
            /\ viol' = IF first[E.i] # E.r /\ viol = {} THEN {<<"EnginesAgree", l>>} ELSE viol
    /\ UNCHANGED lens

TDone ==
    /\ Is("Done") /\ l' = l + 1
    /\ lens' = lens \cup {E.n}
    /\ viol' = IF E.n # Len(first) /\ viol = {} THEN {<<"EnginesAgree", l>>} ELSE viol
    /\ UNCHANGED first

TReset ==
    /\ Is("Reset") /\ l' = l + 1
    /\ first' = << >> /\ lens' = {}
    /\ UNCHANGED viol

TNext == TResp \/ TDone \/ TReset
TSpec == TInit /\ [][TNext]_vars

TraceAccepted == TLCGet("stats").diameter - 1 = Len(Trace)
M_EnginesAgree == viol = {}
=============================================================================
