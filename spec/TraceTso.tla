------------------------------ MODULE TraceTso ------------------------------
(***************************************************************************)
(* Trace specification for Tso.tla (C02): steps of its behaviours executed  *)
(* on the real revision allocator. The allocator of the specification is    *)
(* recomputed from the steps (CasCommit = TRUE); every revision the real    *)
(* one hands out must be the one the specification hands out, and none may  *)
(* be handed out twice.                                                      *)
(***************************************************************************)
EXTENDS Integers, Sequences, FiniteSets, TLC, Json, IOUtils

Trace == ndJsonDeserialize(IOEnv.KB_TRACE)
CS == {"k1", "k2", "k3"}
VARIABLES l, viol, dealt, seen, pre, val
tvars == <<l, viol, dealt, seen, pre, val>>
E == Trace[l]
Is(e) == l <= Len(Trace) /\ E.e = e
V(cond, name) == IF cond \/ (\E v \in viol : v[1] = name) THEN {} ELSE {<<name, l>>}

TInit == l = 1 /\ viol = {} /\ dealt = 0 /\ seen = {} /\ pre = [c \in CS |-> 0] /\ val = [c \in CS |-> 0]
TDeal == /\ Is("TDeal") /\ l' = l + 1
         /\ dealt' = dealt + 1 /\ seen' = seen \cup {E.v}
         /\ viol' = viol \cup V(E.v \notin seen, "UniqueRevision") \cup V(E.v = dealt + 1, "DealIsSpec")
         /\ UNCHANGED <<pre, val>>
TLoad == /\ Is("TCommitLoad") /\ l' = l + 1
         /\ pre' = [pre EXCEPT ![E.p] = dealt] /\ val' = [val EXCEPT ![E.p] = E.v]
         /\ viol' = viol \cup V(E.pre = dealt, "DealIsSpec") \cup V(E.published >= E.v, "CommitPublishes")
         /\ UNCHANGED <<dealt, seen>>
TCas == /\ Is("TCommitCas") /\ l' = l + 1
        /\ dealt' = IF pre[E.p] < val[E.p] /\ dealt = pre[E.p] THEN val[E.p] ELSE dealt
        /\ UNCHANGED <<viol, seen, pre, val>>
TReset == /\ Is("Reset") /\ l' = l + 1 /\ dealt' = 0 /\ seen' = {} /\ pre' = [c \in CS |-> 0] /\ val' = [c \in CS |-> 0] /\ UNCHANGED viol
TNext == TDeal \/ TLoad \/ TCas \/ TReset
TSpec == TInit /\ [][TNext]_tvars
TraceAccepted == TLCGet("stats").diameter - 1 = Len(Trace)
NoViol(name) == \A v \in viol : v[1] # name
M_UniqueRevision == NoViol("UniqueRevision")
M_DealIsSpec == NoViol("DealIsSpec")
M_CommitPublishes == NoViol("CommitPublishes")
=============================================================================
