------------------------------ MODULE Roles ------------------------------
(***************************************************************************)
(* C18: only the leader writes and streams; followers read at its revision *)
(* or fail.  Part 1 (the decision table of the request handlers) is in      *)
(* RolesTable.tla; this module adds part 2, the follower read protocol      *)
(* (pkg/server/service/revision/revision.go): a read fetches the leader's   *)
(* committed revision (concurrent reads share one fetch: single flight),    *)
(* stores it as the local read revision and then reads locally.             *)
(***************************************************************************)
EXTENDS RolesTable

-----------------------------------------------------------------------------
\* Part 2
CONSTANTS Readers,       \* follower read requests (strings)
          MaxCommits,    \* writes the leader acknowledges during the behaviour
          SingleFlight,  \* TRUE: concurrent fetches are shared (the code); FALSE: every read fetches itself
          SetRaises,     \* FALSE: SetCurrentRevision is a plain store (the code); TRUE: it only raises
          Promotes,      \* TRUE: the follower may win the election while reads are under way
          GenHist

VARIABLES lrev,      \* the leader's committed revision
          frev,      \* the follower's local read revision
          rpc,       \* [Readers -> "idle" | "fetching" | "got" | "set" | "done"]
          must,      \* [Readers -> the leader's committed revision when the read began]
          got,       \* [Readers -> fetched revision]
          served,    \* [Readers -> revision the read was served at]
          flight,    \* the in-flight fetch: [open, sampled (0 = the leader has not answered yet), members]
          leading,   \* the follower has won the election meanwhile: frev is now the revision it commits its own writes at
          commits, hist
pvars == <<lrev, frev, rpc, must, got, served, flight, leading, commits, hist>>

NoFlight == [open |-> FALSE, sampled |-> 0, members |-> {}]
PInit == /\ lrev = 5 /\ frev = 0 /\ rpc = [r \in Readers |-> "idle"] /\ must = [r \in Readers |-> 0]
         /\ got = [r \in Readers |-> 0] /\ served = [r \in Readers |-> 0] /\ flight = NoFlight /\ leading = FALSE /\ commits = 0 /\ hist = << >>

H(o) == hist' = IF GenHist THEN Append(hist, o) ELSE hist

\* the leader acknowledges a write
LeaderCommit == /\ commits < MaxCommits /\ commits' = commits + 1 /\ lrev' = lrev + 1
                /\ H([a |-> "LeaderCommit", r |-> "", v |-> lrev + 1])
                /\ UNCHANGED <<frev, rpc, must, got, served, flight, leading>>
\* a read begins: it joins the fetch in flight, or starts one
Begin(r) == /\ rpc[r] = "idle"
            /\ must' = [must EXCEPT ![r] = lrev]
            /\ rpc' = [rpc EXCEPT ![r] = "fetching"]
            /\ flight' = IF SingleFlight /\ flight.open THEN [flight EXCEPT !.members = @ \cup {r}]
                         ELSE IF ~flight.open THEN [open |-> TRUE, sampled |-> 0, members |-> {r}]
                         ELSE flight
            /\ H([a |-> "Begin", r |-> r, v |-> lrev])
            /\ UNCHANGED <<lrev, frev, got, served, commits, leading>>
\* the leader answers the status request: the revision is sampled now
LeaderAnswer == /\ flight.open /\ flight.sampled = 0
                /\ flight' = [flight EXCEPT !.sampled = lrev]
                /\ H([a |-> "LeaderAnswer", r |-> "", v |-> lrev])
                /\ UNCHANGED <<lrev, frev, rpc, must, got, served, commits, leading>>
\* the answer arrives: every member of the flight gets the sampled revision
Deliver == /\ flight.open /\ flight.sampled # 0
           /\ got' = [r \in Readers |-> IF r \in flight.members THEN flight.sampled ELSE got[r]]
           /\ rpc' = [r \in Readers |-> IF r \in flight.members THEN "got" ELSE rpc[r]]
           /\ flight' = NoFlight
           /\ H([a |-> "Deliver", r |-> "", v |-> flight.sampled])
           /\ UNCHANGED <<lrev, frev, must, served, commits, leading>>
\* the read stores the fetched revision as the local read revision
Set(r) == /\ rpc[r] = "got"
          /\ frev' = IF SetRaises /\ got[r] < frev THEN frev ELSE got[r]
          /\ rpc' = [rpc EXCEPT ![r] = "set"]
          /\ H([a |-> "Set", r |-> r, v |-> got[r]])
          /\ UNCHANGED <<lrev, must, got, served, flight, commits, leading>>
\* the read is served locally at the local read revision
Read(r) == /\ rpc[r] = "set"
           /\ served' = [served EXCEPT ![r] = frev]
           /\ rpc' = [rpc EXCEPT ![r] = "done"]
           /\ H([a |-> "Read", r |-> r, v |-> frev])
           /\ UNCHANGED <<lrev, frev, must, got, flight, commits, leading>>

\* the follower wins the election while reads are still under way (CONSTANT Promotes): the election callback sets its revision to
\* the engine's timestamp -- at least everything the old leader committed --, and from then on its own writes commit at frev
Promote == /\ Promotes /\ ~leading
           /\ leading' = TRUE /\ frev' = IF lrev > frev THEN lrev ELSE frev
           /\ H([a |-> "Promote", r |-> "", v |-> lrev])
           /\ UNCHANGED <<lrev, rpc, must, got, served, flight, commits>>
OwnCommit == /\ leading /\ commits < MaxCommits /\ commits' = commits + 1
             /\ frev' = frev + 1
             /\ H([a |-> "OwnCommit", r |-> "", v |-> frev + 1])
             /\ UNCHANGED <<lrev, rpc, must, got, served, flight, leading>>

PNext == LeaderCommit \/ LeaderAnswer \/ Deliver \/ Promote \/ OwnCommit \/ \E r \in Readers : Begin(r) \/ Set(r) \/ Read(r)
PSpec == PInit /\ [][PNext]_pvars

\* a node that leads never moves its committed revision back: the sequencer takes the next write result from the slot after it
LeaderRevisionMonotone == [][leading => frev' >= frev]_pvars
\* the read reflects every write the leader had committed before the read began
ReadNotStale == \A r \in Readers : rpc[r] = "done" => served[r] >= must[r]
PDone == \A r \in Readers : rpc[r] = "done"
PDump == PDone => PrintT(<<"BEHAVIOUR", ToJson([steps |-> hist, stale |-> {r \in Readers : served[r] < must[r]}])>>)
PView == <<lrev, frev, rpc, must, got, served, flight, leading, commits>>
=============================================================================
