--------------------------- MODULE TraceWatchMux ---------------------------
(***************************************************************************)
(* Trace specification for WatchMux.tla: what the real etcd watch handler  *)
(* (RPCServer.Watch) sent on one stream, in the order it sent it, next to  *)
(* the client's steps (`muxrun`).  The write log and the watches of        *)
(* WatchMux are rebuilt from the logged steps; every response is judged    *)
(* against them.  Revisions are positions in the write log (0 = not the    *)
(* revision of any write of this behaviour).                               *)
(***************************************************************************)
EXTENDS Integers, Sequences, FiniteSets, TLC, Json, IOUtils

Trace == ndJsonDeserialize(IOEnv.KB_TRACE)

Match(k, p) == \/ p = 1 /\ k \in {1, 2}
               \/ p = 2 /\ k = 2
               \/ p = 3 /\ k = 3

VARIABLES l, viol,
          wl,      \* the write log: sequence of [k, del]
          ws,      \* watch id -> [p, from, zero, st, got, endedAt, creq, armed]   st: "open" / "cancelled" / "failed"
          pend,    \* create requests not yet answered: sequence of [p, from, zero]
          closed
tvars == <<l, viol, wl, ws, pend, closed>>
E == Trace[l]
Is(e) == l <= Len(Trace) /\ E.e = e
V(cond, name) == IF cond \/ (\E v \in viol : v[1] = name) THEN {} ELSE {<<name, l>>}
Ids == DOMAIN ws
Rev == Len(wl)
Wanted(id) == SelectSeq([i \in 1..Rev |-> i], LAMBDA i : i >= ws[id].from /\ Match(wl[i].k, ws[id].p))
GotFrom(id) == SelectSeq(ws[id].got, LAMBDA i : i >= ws[id].from)
\* the newest write to key k before position i (0: none)
PrevOf(k, i) == LET s == {j \in 1..(i - 1) : wl[j].k = k} IN IF s = {} THEN 0 ELSE CHOOSE j \in s : \A h \in s : h <= j
Last(s) == IF s = << >> THEN 0 ELSE s[Len(s)]

TInit == l = 1 /\ viol = {} /\ wl = << >> /\ ws = << >> /\ pend = << >> /\ closed = FALSE

TWrite == /\ Is("MWrite") /\ l' = l + 1
          /\ wl' = Append(wl, [k |-> E.k, del |-> E.del])
          /\ viol' = viol \cup V(E.i = Rev + 1, "MuxWriteLog")
          /\ UNCHANGED <<ws, pend, closed>>
TCreate == /\ Is("MCreate") /\ l' = l + 1
           /\ pend' = Append(pend, [p |-> E.p, from |-> E.from, zero |-> E.zero])
           /\ UNCHANGED <<viol, wl, ws, closed>>
\* a create request is answered once, with an id no watch of any stream has had
TCreated == /\ Is("MCreated") /\ l' = l + 1
            /\ viol' = viol \cup V(pend # << >> /\ E.id \notin Ids, "MuxCreatedFresh")
            /\ IF pend # << >> /\ E.id \notin Ids
               THEN /\ ws' = ws @@ (E.id :> [p |-> pend[1].p, from |-> pend[1].from, zero |-> pend[1].zero, st |-> "open",
                                            got |-> << >>, endedAt |-> 0, creq |-> FALSE, armed |-> FALSE])
                    /\ pend' = Tail(pend)
               ELSE UNCHANGED <<ws, pend>>
            /\ UNCHANGED <<wl, closed>>
TNoCreated == /\ Is("MNoCreated") /\ l' = l + 1
              /\ viol' = viol \cup V(FALSE, "MuxCreatedFresh")
              /\ UNCHANGED <<wl, ws, pend, closed>>
\* a batch of events under a watch id
EvOk(id, j) == LET i == E.revs[j] IN
                 /\ i >= 1 /\ i <= Rev
                 /\ (i >= ws[id].from \/ ws[id].zero)          \* (a watch "from now" may see a write that was acknowledged just before it)
                 /\ Match(wl[i].k, ws[id].p) /\ E.ks[j] = wl[i].k /\ E.dels[j] = wl[i].del
PrevOk(j) == LET i == E.revs[j] IN
               (i >= 1 /\ i <= Rev /\ E.dels[j]) => (E.prevs[j] = PrevOf(wl[i].k, i) /\ E.prevs[j] >= 1 /\ ~wl[E.prevs[j]].del)
Increasing(id) == \A j \in 1..Len(E.revs) : E.revs[j] > (IF j = 1 THEN Last(ws[id].got) ELSE E.revs[j - 1])
TEvents == /\ Is("MEvents") /\ l' = l + 1
           /\ IF closed THEN UNCHANGED <<viol, ws>>
              ELSE IF E.id \notin Ids
              THEN viol' = viol \cup V(FALSE, "MuxEventsKnownWatch") /\ UNCHANGED ws
              ELSE /\ viol' = viol \cup V(\A j \in 1..Len(E.revs) : EvOk(E.id, j), "MuxEventsMatch")
                                  \cup V(Increasing(E.id), "MuxOrderedOnce")
                                  \cup V(Len(E.revs) > 0 /\ E.hdr = E.revs[Len(E.revs)], "MuxHeaderIsLastEvent")
                                  \cup V(\A j \in 1..Len(E.revs) : PrevOk(j), "MuxDeleteCarriesPrevious")
                                  \* a watch that has ended delivers nothing written after its end was observed
                                  \cup V(ws[E.id].st = "open" \/ \A j \in 1..Len(E.revs) : E.revs[j] <= ws[E.id].endedAt, "MuxEndedIsSilent")
                   /\ ws' = [ws EXCEPT ![E.id].got = @ \o E.revs]
           /\ UNCHANGED <<wl, pend, closed>>
TCancelReq == /\ Is("MCancelReq") /\ l' = l + 1
              /\ ws' = IF E.id \in Ids THEN [ws EXCEPT ![E.id].creq = TRUE] ELSE ws
              /\ UNCHANGED <<viol, wl, pend, closed>>
\* "canceled": the answer to a cancel request, the consequence of a failed send, or the end of the stream -- never out of the blue
TCanceled == /\ Is("MCanceled") /\ l' = l + 1
             /\ IF E.id \in Ids
                THEN /\ viol' = viol \cup V(closed \/ ws[E.id].creq \/ ws[E.id].st # "open"
                                       \* (the backend may refuse a watch at its start -- "compacted", the client lists again: C05's "or is closed")
                                       \/ (E.compact >= 1 /\ ws[E.id].got = << >>), "MuxNoSpuriousCancel")
                     /\ ws' = [ws EXCEPT ![E.id].st = IF @ = "open" THEN "cancelled" ELSE @,
                                         ![E.id].endedAt = IF ws[E.id].st = "open" THEN Rev ELSE @]
                ELSE UNCHANGED <<viol, ws>>
             /\ UNCHANGED <<wl, pend, closed>>
TArm == /\ Is("MArm") /\ l' = l + 1 /\ ws' = (IF E.id \in Ids THEN [ws EXCEPT ![E.id].armed = TRUE] ELSE ws) /\ UNCHANGED <<viol, wl, pend, closed>>
TSendFail == /\ Is("MSendFail") /\ l' = l + 1
             /\ ws' = IF E.id \in Ids THEN [ws EXCEPT ![E.id].st = "failed", ![E.id].endedAt = Rev] ELSE ws
             /\ UNCHANGED <<viol, wl, pend, closed>>
\* the stream is quiet after a client step: every open watch has seen everything, every cancel request was answered
TQuiet == /\ Is("MQuiet") /\ l' = l + 1
          /\ viol' = viol \cup V(closed \/ \A id \in Ids : (ws[id].st = "open" /\ ~ws[id].armed) => GotFrom(id) = Wanted(id), "MuxCompleteAtQuiet")
                          \cup V(closed \/ \A id \in Ids : ws[id].creq => ws[id].st # "open", "MuxCancelAnswered")
                          \cup V(pend = << >>, "MuxCreatedFresh")
          /\ UNCHANGED <<wl, ws, pend, closed>>
TClose == /\ Is("MClose") /\ l' = l + 1 /\ closed' = TRUE /\ UNCHANGED <<viol, wl, ws, pend>>
\* the handler returns once the client has gone, and leaves no subscription behind
TReturned == /\ Is("MReturned") /\ l' = l + 1
             /\ viol' = viol \cup V(E.ok, "MuxHandlerReturns") \cup V(E.subs = 0, "MuxNoSubscriptionLeft")
             /\ UNCHANGED <<wl, ws, pend, closed>>
TReset == /\ Is("Reset") /\ l' = l + 1 /\ wl' = << >> /\ pend' = << >> /\ closed' = FALSE
          /\ ws' = [id \in Ids |-> [ws[id] EXCEPT !.st = "cancelled", !.creq = TRUE, !.endedAt = 0, !.from = 1000]]   \* (ids stay known: they are never reused)
          /\ UNCHANGED viol
TNext == TWrite \/ TCreate \/ TCreated \/ TNoCreated \/ TEvents \/ TCancelReq \/ TCanceled \/ TArm \/ TSendFail \/ TQuiet \/ TClose \/ TReturned \/ TReset
TSpec == TInit /\ [][TNext]_tvars
TraceAccepted == TLCGet("stats").diameter - 1 = Len(Trace)
NoViol(name) == \A v \in viol : v[1] # name
M_MuxWriteLog == NoViol("MuxWriteLog")
M_MuxCreatedFresh == NoViol("MuxCreatedFresh")
M_MuxEventsKnownWatch == NoViol("MuxEventsKnownWatch")
M_MuxEventsMatch == NoViol("MuxEventsMatch")
M_MuxOrderedOnce == NoViol("MuxOrderedOnce")
M_MuxHeaderIsLastEvent == NoViol("MuxHeaderIsLastEvent")
M_MuxDeleteCarriesPrevious == NoViol("MuxDeleteCarriesPrevious")
M_MuxEndedIsSilent == NoViol("MuxEndedIsSilent")
M_MuxNoSpuriousCancel == NoViol("MuxNoSpuriousCancel")
M_MuxCompleteAtQuiet == NoViol("MuxCompleteAtQuiet")
M_MuxCancelAnswered == NoViol("MuxCancelAnswered")
M_MuxHandlerReturns == NoViol("MuxHandlerReturns")
M_MuxNoSubscriptionLeft == NoViol("MuxNoSubscriptionLeft")
=============================================================================
