// Package kb builds real kubebrain backends over real engines behind the gate wrapper.
package kb

import (
	"bytes"
	"context"
	"encoding/binary"
	"flag"
	"fmt"
	"io"
	"io/ioutil"
	"os"
	"reflect"
	"sort"
	"sync"
	"sync/atomic"
	"time"

	"github.com/tikv/client-go/v2/testutils"
	"github.com/tikv/client-go/v2/tikv"
	"github.com/tikv/client-go/v2/tikvrpc"
	"github.com/tikv/client-go/v2/util/codec"
	pd "github.com/tikv/pd/client"
	"k8s.io/klog/v2"

	"github.com/kubewharf/kubebrain/pkg/backend"
	"github.com/kubewharf/kubebrain/pkg/backend/coder"
	"github.com/kubewharf/kubebrain/pkg/metrics"
	"github.com/kubewharf/kubebrain/pkg/metrics/prometheus"
	"github.com/kubewharf/kubebrain/pkg/storage"
	ibadger "github.com/kubewharf/kubebrain/pkg/storage/badger"
	imemkv "github.com/kubewharf/kubebrain/pkg/storage/memkv"
	imetrics "github.com/kubewharf/kubebrain/pkg/storage/metrics"
	itikv "github.com/kubewharf/kubebrain/pkg/storage/tikv"
	"github.com/kubewharf/kubebrain/pkg/verifhook"

	"kbverif/gate"
)

var (
	metricsOnce sync.Once
	metricsCli  metrics.Metrics
	// Coder is kubebrain's key coder.
	Coder = coder.NewNormalCoder()
)

// MetricsWrap, when set before the first call of Metrics, wraps the real Prometheus client.
var MetricsWrap func(metrics.Metrics) metrics.Metrics

// Metrics returns the single real Prometheus metrics client of this process.
func Metrics() metrics.Metrics {
	metricsOnce.Do(func() {
		metricsCli = prometheus.NewMetrics()
		if MetricsWrap != nil {
			metricsCli = MetricsWrap(metricsCli)
		}
	})
	return metricsCli
}

// QuietLogs silences klog.
func QuietLogs() {
	fs := flag.NewFlagSet("klog", flag.ContinueOnError)
	klog.InitFlags(fs)
	_ = fs.Set("logtostderr", "false")
	_ = fs.Set("alsologtostderr", "false")
	_ = fs.Set("stderrthreshold", "FATAL")
	_ = fs.Set("v", "0")
	klog.SetOutput(ioutil.Discard)
}

// Engine is a real storage engine plus its cleanup.
type Engine struct {
	Kind    string
	KV      storage.KvStorage
	Cluster *testutils.MockCluster
	PD      pd.Client
	// TiKV is the fault layer INSIDE the TiKV engine, between the adapter and the (mock) cluster (tikv kinds only)
	TiKV *TiKVFault
	// Below is the engine-side fault layer under the metrics wrapper (metrics* kinds only)
	Below   *gate.Faulty
	cleanup func()
}

// Close releases the engine.
func (e *Engine) Close() {
	if e.cleanup != nil {
		e.cleanup()
	}
}

// TiKVFault sits between the TiKV adapter's transactions and the cluster: armed, it turns the answer to the next point read of
// a transaction (the read a put-if-absent or a compare-and-swap does) into an aborted one. Unarmed it is a pass-through.
type TiKVFault struct {
	tikv.Client
	armed    int32
	Injected int32
}

// ArmGet makes the next transactional point read fail.
func (c *TiKVFault) ArmGet() { atomic.StoreInt32(&c.armed, 1) }

// Disarm drops a fault that was not used.
func (c *TiKVFault) Disarm() { atomic.StoreInt32(&c.armed, 0) }

// SendRequest implements tikv.Client.
func (c *TiKVFault) SendRequest(ctx context.Context, addr string, req *tikvrpc.Request, timeout time.Duration) (*tikvrpc.Response, error) {
	resp, err := c.Client.SendRequest(ctx, addr, req, timeout)
	if err != nil || req.Type != tikvrpc.CmdGet || !atomic.CompareAndSwapInt32(&c.armed, 1, 0) {
		return resp, err
	}
	// GetResponse{Error: &KeyError{Abort: ...}} (by reflection: kvproto is not a direct dependency)
	atomic.AddInt32(&c.Injected, 1)
	get := reflect.ValueOf(resp.Resp).Elem()
	keyErr := reflect.New(get.FieldByName("Error").Type().Elem())
	keyErr.Elem().FieldByName("Abort").SetString("injected read fault")
	get.FieldByName("Error").Set(keyErr)
	get.FieldByName("Value").SetBytes(nil)
	get.FieldByName("NotFound").SetBool(false)
	return resp, nil
}

// NewEngine opens an engine: memkv, badger, tikv, metrics (metrics wrapper over memkv),
// metrics-badger, metrics-tikv.
func NewEngine(kind string) (*Engine, error) {
	switch kind {
	case "memkv":
		return &Engine{Kind: kind, KV: imemkv.NewKvStorage()}, nil
	case "badger":
		dir, err := ioutil.TempDir("", "kbverif-badger")
		if err != nil {
			return nil, err
		}
		st, err := ibadger.NewKvStorage(ibadger.Config{Dir: dir})
		if err != nil {
			os.RemoveAll(dir)
			return nil, err
		}
		return &Engine{Kind: kind, KV: st, cleanup: func() { st.Close(); os.RemoveAll(dir) }}, nil
	case "tikv":
		rpcClient, cluster, pdClient, err := testutils.NewMockTiKV("", nil)
		if err != nil {
			return nil, err
		}
		testutils.BootstrapWithSingleStore(cluster)
		fc := &TiKVFault{}
		store, err := tikv.NewTestTiKVStore(rpcClient, pdClient, func(c tikv.Client) tikv.Client { fc.Client = c; return fc }, nil, 0)
		if err != nil {
			return nil, err
		}
		kv := itikv.NewKvStoreWithStorage([]*tikv.KVStore{store})
		return &Engine{Kind: kind, KV: kv, Cluster: cluster, PD: pdClient, TiKV: fc, cleanup: func() { kv.Close() }}, nil
	case "tikv-regions":
		// the same mock cluster; the driver splits it into several regions at run time (SplitAt)
		e, err := NewEngine("tikv")
		if err != nil {
			return nil, err
		}
		e.Kind = kind
		return e, nil
	case "metrics", "metrics-memkv":
		f := gate.NewFaulty(imemkv.NewKvStorage())
		return &Engine{Kind: kind, KV: imetrics.NewKvStorage(f, Metrics()), Below: f}, nil
	case "metrics-badger":
		e, err := NewEngine("badger")
		if err != nil {
			return nil, err
		}
		f := gate.NewFaulty(e.KV)
		return &Engine{Kind: kind, KV: imetrics.NewKvStorage(f, Metrics()), Below: f, cleanup: e.cleanup}, nil
	case "metrics-tikv":
		e, err := NewEngine("tikv")
		if err != nil {
			return nil, err
		}
		f := gate.NewFaulty(e.KV)
		return &Engine{Kind: kind, KV: imetrics.NewKvStorage(f, Metrics()), Below: f, Cluster: e.Cluster, TiKV: e.TiKV, cleanup: e.cleanup}, nil
	}
	return nil, fmt.Errorf("unknown engine %q", kind)
}

// EngineParams are the specification constants that depend on the engine.
type EngineParams struct {
	ConflictCarriesValue bool
	NativeTTL            bool
}

// Params returns the spec parameters of an engine kind.
func Params(kind string) EngineParams {
	switch kind {
	case "tikv", "metrics-tikv", "tikv-regions":
		return EngineParams{ConflictCarriesValue: false, NativeTTL: false}
	}
	return EngineParams{ConflictCarriesValue: true, NativeTTL: true}
}

var current atomic.Value // *Env

// LoggedHooks are the yield points that become trace events.
var LoggedHooks = map[string]string{
	"deal": "Deal", "notify": "Notify", "seq.committed": "Committed", "seq.cacheadd": "CacheAdd", "seq.flush": "Flush",
	"hub.slow": "HubSlow", "hub.delete": "HubDelete", "watch.subscribed": "Subscribed", "watch.cacheread": "CacheRead",
	"watch.closing": "WatchClosing", "retry.deal": "RetryDeal",
}

func init() {
	verifhook.Hook = func(point string, a, b uint64) {
		v := current.Load()
		if v == nil {
			return
		}
		env := v.(*Env)
		if env == nil {
			return
		}
		if point == "watch.process" && b == 0 {
			env.countFiller(env.Sched.ProcNameFor(point))
		}
		if name, ok := LoggedHooks[point]; ok && env.Rec.On {
			env.Rec.Log(gate.Event{"e": name, "p": env.Sched.ProcNameFor(point), "a": gate.Clip(a), "b": gate.Clip(b)})
		}
		env.Sched.Gate(point, a, b)
	}
}

// Env is one backend instance over one engine behind the gate wrapper.
type Env struct {
	fmu     sync.Mutex
	fillers map[string]int // filler (empty) batches consumed, per forwarding-loop process
	Eng     *Engine
	Store   *gate.Store
	Sched   *gate.Sched
	Rec     *gate.Recorder
	Keys    *gate.KeyMap
	Prefix  string
	B       backend.Backend
	Base    uint64
	Cfg     backend.Config
}

var envSeq int64

// Options configure NewEnv.
type Options struct {
	Engine     *Engine
	KeyNames   []string // relative names, appended to the prefix
	Gated      bool
	Park       func(proc, label string, a, b uint64) bool
	Base       uint64
	CacheSize  int
	NoTTL      bool
	Etcd       bool
	Identity   string
	Prefix     string // optional fixed prefix
	Skipped    []string
	NoBackend  bool
	Record     bool
	LogReads   bool
	LogIter    bool
	Partitions func(start, end []byte) []storage.Partition
	// TrackAbandoned: see gate.Store.TrackAbandoned
	TrackAbandoned bool
}

// NewEnv creates a fresh backend with a fresh key prefix over the engine.
func NewEnv(o Options) *Env {
	n := atomic.AddInt64(&envSeq, 1)
	prefix := o.Prefix
	if prefix == "" {
		prefix = fmt.Sprintf("/p%d", n)
	}
	rec := &gate.Recorder{On: o.Record}
	sched := gate.NewSched(o.Gated, rec)
	sched.Park = o.Park
	km := &gate.KeyMap{Special: map[string]string{}}
	for _, kn := range o.KeyNames {
		km.Names = append(km.Names, prefix+kn)
	}
	km.Special[prefix+"/compact_key"] = "compact"
	km.Special[prefix+"/election"] = "election"
	st := &gate.Store{Below: o.Engine.Below, Inner: o.Engine.KV, S: sched, Rec: rec, Keys: km, NoTTL: o.NoTTL, LogReads: o.LogReads, LogIter: o.LogIter, Partitions: o.Partitions, TrackAbandoned: o.TrackAbandoned}
	env := &Env{Eng: o.Engine, Store: st, Sched: sched, Rec: rec, Keys: km, Prefix: prefix, Base: o.Base}
	current.Store(env)
	if !o.NoBackend {
		id := o.Identity
		if id == "" {
			id = fmt.Sprintf("node-%d", n)
		}
		env.Cfg = backend.Config{Prefix: prefix, Identity: id, WatchCacheSize: o.CacheSize, EnableEtcdCompatibility: o.Etcd, SkippedPrefixes: o.Skipped}
		env.B = backend.NewBackend(st, env.Cfg, Metrics())
		if o.Base > 0 {
			env.B.SetCurrentRevision(o.Base)
		}
	}
	return env
}

func (e *Env) countFiller(proc string) {
	e.fmu.Lock()
	if e.fillers == nil {
		e.fillers = map[string]int{}
	}
	e.fillers[proc]++
	e.fmu.Unlock()
}

// FillersPassed returns how many empty batches the named forwarding loop has consumed.
func (e *Env) FillersPassed(proc string) int {
	e.fmu.Lock()
	defer e.fmu.Unlock()
	return e.fillers[proc]
}

// Retire ends the background goroutines of this environment's backend.
func (e *Env) Retire() {
	if e.B == nil {
		e.Sched.Retire(nil, 0)
		return
	}
	missing := e.Sched.Retire([]string{"seq", "retry"}, 2*time.Second)
	if len(missing) == 0 {
		backend.VerifCloseWatchChan(e.B)
	}
}

// InternalKey encodes (key number, revision).
func (e *Env) InternalKey(k int, rev uint64) []byte {
	return Coder.EncodeObjectKey(e.Keys.Raw(k), rev)
}

// Rec3 is one stored record in abstract form.
type Rec3 struct {
	K   int
	R   uint64
	V   string // for version records
	Idx bool
	Del bool   // for index records
	IR  uint64 // for index records: revision
}

func u64(n uint64) []byte {
	b := make([]byte, 8)
	binary.BigEndian.PutUint64(b, n)
	return b
}

// SeedIndex writes an index record directly into the engine.
func (e *Env) SeedIndex(k int, rev uint64, del bool) error {
	v := u64(rev)
	if del {
		v = append(v, 0)
	}
	b := e.Eng.KV.BeginBatchWrite()
	b.Put(e.InternalKey(k, 0), v, 0)
	return b.Commit(context.Background())
}

// SeedVersion writes a version record directly into the engine.
func (e *Env) SeedVersion(k int, rev uint64, val string) error {
	b := e.Eng.KV.BeginBatchWrite()
	b.Put(e.InternalKey(k, rev), []byte(val), 0)
	return b.Commit(context.Background())
}

// Dump lists every record under the prefix as trace values: [k, r, v] with v = [rev,del] for index.
func (e *Env) Dump() ([]interface{}, error) {
	start := Coder.EncodeObjectKey([]byte(e.Prefix+"/"), 0)
	end := Coder.EncodeObjectKey(backend.PrefixEnd([]byte(e.Prefix+"/")), 0)
	it, err := e.Eng.KV.Iter(context.Background(), start, end, 0, 0)
	if err != nil {
		return nil, err
	}
	defer it.Close()
	var out []interface{}
	for {
		err := it.Next(context.Background())
		if err == io.EOF {
			break
		}
		if err != nil {
			return nil, err
		}
		kind, num, rev, _ := e.Keys.DecodeInternal(it.Key())
		if kind != "obj" {
			continue
		}
		out = append(out, []interface{}{num, gate.Clip(rev), gate.ValRepr(kind, rev, it.Val())})
	}
	sort.SliceStable(out, func(i, j int) bool {
		a, b := out[i].([]interface{}), out[j].([]interface{})
		if a[0].(int) != b[0].(int) {
			return a[0].(int) < b[0].(int)
		}
		return a[1].(int64) < b[1].(int64)
	})
	return out, nil
}

// CompactRecord returns the stored compaction floor (0 if none).
func (e *Env) CompactRecord() uint64 {
	v, err := e.Eng.KV.Get(context.Background(), []byte(e.Prefix+"/compact_key"))
	if err != nil || len(v) != 8 {
		return 0
	}
	return binary.BigEndian.Uint64(v)
}

// WaitCommitted polls until the committed revision reaches want (ungated sequencer).
func (e *Env) WaitCommitted(want uint64, timeout time.Duration) bool {
	deadline := time.Now().Add(timeout)
	for e.B.GetCurrentRevision() < want {
		if time.Now().After(deadline) {
			return false
		}
		time.Sleep(50 * time.Microsecond)
	}
	return true
}

// HasPrefix reports whether raw key k (by number) starts with the given raw prefix.
func (e *Env) HasPrefix(k int, prefix string) bool {
	return bytes.HasPrefix(e.Keys.Raw(k), []byte(prefix))
}

// SplitAt splits the region of the mock TiKV cluster that contains key at key (no-op for other engines and
// when key already is a region border).
func (e *Engine) SplitAt(key []byte) bool {
	if e.Cluster == nil {
		return false
	}
	// (the cluster keeps region borders in encoded form; the PD client finds the region of a raw key)
	enc := codec.EncodeBytes(nil, key)
	r, err := e.PD.GetRegion(context.Background(), enc)
	if err != nil || r == nil || r.Meta == nil || bytes.Equal(r.Meta.StartKey, enc) {
		return false
	}
	newRegion, newPeer := e.Cluster.AllocID(), e.Cluster.AllocID()
	e.Cluster.Split(r.Meta.Id, newRegion, key, []uint64{newPeer}, newPeer)
	return true
}
