// Package gate implements the conformance harness core: a trace recorder, a cooperative
// scheduler whose "gates" are the engine calls and the verif-tagged yield points of kubebrain,
// and a KvStorage wrapper that gates, records and fault-injects every engine call.
package gate

import (
	"bytes"
	"encoding/json"
	"fmt"
	"io"
	"runtime"
	"strconv"
	"strings"
	"sync"
	"time"
)

// Event is one trace line.
type Event map[string]interface{}

// Recorder collects trace events; the sequence number is assigned under its mutex so the logged
// order is a linearization order of everything that logs while holding Mu.
type Recorder struct {
	Mu  sync.Mutex
	seq int
	buf []Event
	On  bool
}

// Log appends an event (caller must NOT hold Mu).
func (r *Recorder) Log(e Event) {
	if r == nil || !r.On {
		return
	}
	r.Mu.Lock()
	r.logLocked(e)
	r.Mu.Unlock()
}

// LogLocked appends an event; caller holds Mu.
func (r *Recorder) LogLocked(e Event) {
	if r == nil || !r.On {
		return
	}
	r.logLocked(e)
}

var procStart = time.Now()

func (r *Recorder) logLocked(e Event) {
	r.seq++
	e["seq"] = r.seq
	e["t"] = time.Since(procStart).Milliseconds()
	r.buf = append(r.buf, e)
}

// Events returns the recorded events.
func (r *Recorder) Events() []Event {
	r.Mu.Lock()
	defer r.Mu.Unlock()
	out := make([]Event, len(r.buf))
	copy(out, r.buf)
	return out
}

// Len returns the number of recorded events.
func (r *Recorder) Len() int {
	r.Mu.Lock()
	defer r.Mu.Unlock()
	return len(r.buf)
}

// DumpTo writes the events as ndjson.
func (r *Recorder) DumpTo(w io.Writer) error {
	for _, e := range r.Events() {
		b, err := json.Marshal(e)
		if err != nil {
			return err
		}
		if _, err = w.Write(append(b, '\n')); err != nil {
			return err
		}
	}
	return nil
}

// Proc is a logical process known to the scheduler.
type Proc struct {
	Name     string
	parked   bool
	finished bool
	label    string
	a, b     uint64
	resume   chan struct{}
	parks    int
}

// Sched is the cooperative scheduler. In gated mode every goroutine that reaches a gate whose
// label is in Park blocks until the driver releases it.
type Sched struct {
	mu      sync.Mutex
	changed chan struct{}
	kill    chan struct{}
	dead    bool
	Gated   bool
	// Park decides whether a gate parks (nil => every gate parks in gated mode).
	Park    func(proc, label string, a, b uint64) bool
	byGid   map[int64]*Proc
	byName  map[string]*Proc
	Rec     *Recorder
	killed  map[string]bool
	unknown int
	// Trace of (proc,label) for coverage/diagnostics.
	Steps []string
}

// NewSched creates a scheduler.
func NewSched(gated bool, rec *Recorder) *Sched {
	return &Sched{
		changed: make(chan struct{}),
		kill:    make(chan struct{}),
		Gated:   gated,
		byGid:   map[int64]*Proc{},
		byName:  map[string]*Proc{},
		Rec:     rec,
		killed:  map[string]bool{},
	}
}

func (s *Sched) notify() {
	close(s.changed)
	s.changed = make(chan struct{})
}

// curGID returns the current goroutine id.
func curGID() int64 {
	var buf [64]byte
	n := runtime.Stack(buf[:], false)
	// "goroutine 123 [running]:..."
	f := bytes.Fields(buf[:n])
	if len(f) < 2 {
		return -1
	}
	id, _ := strconv.ParseInt(string(f[1]), 10, 64)
	return id
}

// CurGID returns the id of the calling goroutine.
func CurGID() int64 { return curGID() }

// creatorGID returns the id of the goroutine that created the current one (0 if unknown).
func creatorGID() int64 {
	buf := make([]byte, 1<<16)
	n := runtime.Stack(buf, false)
	st := string(buf[:n])
	i := strings.LastIndex(st, "created by ")
	if i < 0 {
		return 0
	}
	line := st[i:]
	if j := strings.Index(line, "\n"); j >= 0 {
		line = line[:j]
	}
	k := strings.LastIndex(line, " in goroutine ")
	if k < 0 {
		return 0
	}
	id, _ := strconv.ParseInt(strings.TrimSpace(line[k+len(" in goroutine "):]), 10, 64)
	return id
}

// Register binds the calling goroutine to a named process.
func (s *Sched) Register(name string) {
	gid := curGID()
	s.mu.Lock()
	p := s.byName[name]
	if p == nil {
		p = &Proc{Name: name}
		s.byName[name] = p
	}
	p.finished = false
	s.byGid[gid] = p
	s.notify()
	s.mu.Unlock()
}

// Finish marks the calling goroutine's process as finished.
func (s *Sched) Finish(name string) {
	s.mu.Lock()
	if p := s.byName[name]; p != nil {
		p.finished = true
		p.parked = false
	}
	s.notify()
	s.mu.Unlock()
}

func backgroundName(label string) string {
	switch {
	case strings.HasPrefix(label, "seq."):
		return "seq"
	case label == "hub.item" || label == "hub.delivered" || label == "hub.slow":
		return "hub"
	case strings.HasPrefix(label, "retry."):
		return "retry"
	}
	return ""
}

// identify finds or creates the process of the calling goroutine. Called with s.mu held.
func (s *Sched) identify(gid int64, label string) *Proc {
	if p := s.byGid[gid]; p != nil {
		return p
	}
	name := backgroundName(label)
	if name == "" {
		s.mu.Unlock()
		cg := creatorGID()
		s.mu.Lock()
		if p := s.byGid[gid]; p != nil {
			return p
		}
		parent := s.byGid[cg]
		switch {
		case parent != nil && strings.HasPrefix(label, "kv."):
			// a worker goroutine of an API call: same logical process as its creator
			s.byGid[gid] = parent
			return parent
		case parent != nil && strings.HasPrefix(label, "watch."):
			name = parent.Name + ".pe"
		case parent != nil && label == "hub.delete":
			if parent.Name == "hub" {
				s.unknown++
				name = fmt.Sprintf("hub.asyncdel%d", s.unknown)
			} else {
				name = parent.Name + ".closer"
			}
		case parent != nil:
			name = parent.Name + "." + label
		default:
			s.unknown++
			name = fmt.Sprintf("anon%d", s.unknown)
		}
	}
	p := s.byName[name]
	if p == nil {
		p = &Proc{Name: name}
		s.byName[name] = p
	} else if !p.finished && name != "" {
		// a second goroutine claims a singleton name (should not happen within one instance)
		for g, q := range s.byGid {
			if q == p && g != gid {
				s.unknown++
				name = fmt.Sprintf("%s#%d", name, s.unknown)
				p = &Proc{Name: name}
				s.byName[name] = p
				break
			}
		}
	}
	s.byGid[gid] = p
	return p
}

// Gate is called at every engine call and every yield point.
func (s *Sched) Gate(label string, a, b uint64) {
	gid := curGID()
	s.mu.Lock()
	if s.dead {
		if n := backgroundName(label); n != "" {
			s.killed[n] = true
			s.notify()
		}
		s.mu.Unlock()
		runtime.Goexit()
	}
	p := s.identify(gid, label)
	if !s.Gated || (s.Park != nil && !s.Park(p.Name, label, a, b)) {
		s.mu.Unlock()
		return
	}
	p.parked = true
	p.label, p.a, p.b = label, a, b
	p.parks++
	ch := make(chan struct{})
	p.resume = ch
	kill := s.kill
	s.notify()
	s.mu.Unlock()
	select {
	case <-ch:
	case <-kill:
		s.mu.Lock()
		s.killed[p.Name] = true
		s.notify()
		s.mu.Unlock()
		runtime.Goexit()
	}
}

// ProcName returns the name of the calling goroutine's process ("?" if unknown).
func (s *Sched) ProcName() string {
	gid := curGID()
	s.mu.Lock()
	defer s.mu.Unlock()
	if p := s.byGid[gid]; p != nil {
		return p.Name
	}
	return "?"
}

// State describes where a process is.
type State struct {
	Exists   bool
	Parked   bool
	Finished bool
	Label    string
	A, B     uint64
}

// Peek returns the state of a process without waiting.
func (s *Sched) Peek(name string) State {
	s.mu.Lock()
	defer s.mu.Unlock()
	return s.peekLocked(name)
}

func (s *Sched) peekLocked(name string) State {
	p := s.byName[name]
	if p == nil {
		return State{}
	}
	return State{Exists: true, Parked: p.parked, Finished: p.finished, Label: p.label, A: p.a, B: p.b}
}

// ParkedProcs lists parked processes.
func (s *Sched) ParkedProcs() map[string]string {
	s.mu.Lock()
	defer s.mu.Unlock()
	out := map[string]string{}
	for n, p := range s.byName {
		if p.parked {
			out[n] = p.label
		}
	}
	return out
}

// WaitStop waits until the process is parked or finished.
func (s *Sched) WaitStop(name string, timeout time.Duration) (State, error) {
	deadline := time.Now().Add(timeout)
	s.mu.Lock()
	for {
		st := s.peekLocked(name)
		if st.Exists && (st.Parked || st.Finished) {
			s.mu.Unlock()
			return st, nil
		}
		ch := s.changed
		s.mu.Unlock()
		rem := time.Until(deadline)
		if rem <= 0 {
			return st, fmt.Errorf("timeout waiting for %s to stop (exists=%v)", name, st.Exists)
		}
		select {
		case <-ch:
		case <-time.After(rem):
		}
		s.mu.Lock()
	}
}

// Release lets a parked process run on.
func (s *Sched) Release(name string) error {
	s.mu.Lock()
	defer s.mu.Unlock()
	p := s.byName[name]
	if p == nil || !p.parked {
		return fmt.Errorf("release: %s is not parked", name)
	}
	s.Steps = append(s.Steps, name+":"+p.label)
	p.parked = false
	close(p.resume)
	s.notify()
	return nil
}

// Step releases a parked process and runs it until it parks at one of the stop labels or
// finishes. Intermediate parks at other labels are released automatically. A nil stops set
// means "the very next park".
func (s *Sched) Step(name string, stops map[string]bool, timeout time.Duration) (State, error) {
	st, err := s.WaitStop(name, timeout)
	if err != nil {
		return st, err
	}
	if st.Finished {
		return st, fmt.Errorf("step: %s already finished", name)
	}
	deadline := time.Now().Add(timeout)
	for n := 0; ; n++ {
		if err := s.Release(name); err != nil {
			return st, err
		}
		st, err = s.waitNextStop(name, timeout)
		if err != nil {
			return st, err
		}
		if st.Finished || stops == nil || stops[st.Label] {
			return st, nil
		}
		if n > 20000 || time.Now().After(deadline) {
			return st, fmt.Errorf("step: %s does not reach any of its stop gates (now at %s)", name, st.Label)
		}
	}
}

// waitNextStop waits for a park that happened after the last release, or for finish.
func (s *Sched) waitNextStop(name string, timeout time.Duration) (State, error) {
	return s.WaitStop(name, timeout)
}

// RunToStop runs a process that is possibly not yet parked until a stop label or finish,
// WITHOUT an initial release when it is not parked (used right after starting a goroutine).
func (s *Sched) RunToStop(name string, stops map[string]bool, timeout time.Duration) (State, error) {
	deadline := time.Now().Add(timeout)
	for {
		st, err := s.WaitStop(name, timeout)
		if err != nil {
			return st, err
		}
		if st.Finished || stops == nil || stops[st.Label] {
			return st, nil
		}
		if time.Now().After(deadline) {
			return st, fmt.Errorf("run: %s does not reach any of its stop gates (now at %s)", name, st.Label)
		}
		if err := s.Release(name); err != nil {
			return st, err
		}
	}
}

// Retire kills every goroutine parked now or arriving later at a gate of this scheduler and
// waits (bounded) for the named background processes to be gone.
func (s *Sched) Retire(waitFor []string, timeout time.Duration) []string {
	s.mu.Lock()
	s.dead = true
	close(s.kill)
	s.notify()
	s.mu.Unlock()
	deadline := time.Now().Add(timeout)
	var missing []string
	for {
		missing = missing[:0]
		s.mu.Lock()
		for _, n := range waitFor {
			if !s.killed[n] {
				missing = append(missing, n)
			}
		}
		ch := s.changed
		s.mu.Unlock()
		if len(missing) == 0 || time.Now().After(deadline) {
			return missing
		}
		select {
		case <-ch:
		case <-time.After(time.Millisecond):
		}
	}
}

// ProcNameFor returns the process name of the calling goroutine, identifying it by label if new.
func (s *Sched) ProcNameFor(label string) string {
	gid := curGID()
	s.mu.Lock()
	defer s.mu.Unlock()
	if s.dead {
		return "?"
	}
	return s.identify(gid, label).Name
}
