package gate

import (
	"context"
	"sync"

	"github.com/kubewharf/kubebrain/pkg/storage"
)

// Faulty sits BELOW the wrappers of the repository (the storage metrics wrapper) and above the engine: "the engine itself
// fails". A fault decided by the Store above is armed here and the call then travels through every layer in between, so
// that a wrapper which loses or rewrites an error of its engine is part of what the checks observe. Unarmed it is a
// transparent pass-through.
type Faulty struct {
	storage.KvStorage
	mu          sync.Mutex
	delErr      error
	commitErr   error
	commitApply bool
	nextErr     error
	getErr      error
	iterErr     error
	lastApplied bool
}

// NewFaulty wraps an engine.
func NewFaulty(kv storage.KvStorage) *Faulty { return &Faulty{KvStorage: kv} }

// ArmDel makes the next Del / DelCurrent fail with err, without effect.
func (f *Faulty) ArmDel(err error) { f.mu.Lock(); f.delErr = err; f.mu.Unlock() }

// ArmCommit makes the next Commit answer err; with apply the batch is committed first (the answer is lost), and the
// engine's own refusal, if any, is reported instead.
func (f *Faulty) ArmCommit(err error, apply bool) {
	f.mu.Lock()
	f.commitErr, f.commitApply = err, apply
	f.mu.Unlock()
}

// ArmNext makes the next Iter.Next fail with err; the element is not consumed.
func (f *Faulty) ArmNext(err error) { f.mu.Lock(); f.nextErr = err; f.mu.Unlock() }

// ArmIterOpen makes the next Iter (the opening of an iterator) fail with err.
func (f *Faulty) ArmIterOpen(err error) { f.mu.Lock(); f.iterErr = err; f.mu.Unlock() }

// ArmGet makes the next Get fail with err.
func (f *Faulty) ArmGet(err error) { f.mu.Lock(); f.getErr = err; f.mu.Unlock() }

// Get implements storage.KvStorage.
func (f *Faulty) Get(ctx context.Context, key []byte) ([]byte, error) {
	f.mu.Lock()
	e := f.getErr
	f.getErr = nil
	f.mu.Unlock()
	if e != nil {
		return nil, e
	}
	return f.KvStorage.Get(ctx, key)
}

// Disarm drops what is still armed (the call above did not get here).
func (f *Faulty) Disarm() {
	f.mu.Lock()
	f.delErr, f.commitErr, f.nextErr, f.getErr, f.iterErr = nil, nil, nil, nil, nil
	f.mu.Unlock()
}

// LastApplied tells whether the last Commit reached the engine and was accepted by it.
func (f *Faulty) LastApplied() bool { f.mu.Lock(); defer f.mu.Unlock(); return f.lastApplied }

func (f *Faulty) takeDel() error {
	f.mu.Lock()
	defer f.mu.Unlock()
	e := f.delErr
	f.delErr = nil
	return e
}

// Del implements storage.KvStorage.
func (f *Faulty) Del(ctx context.Context, key []byte) error {
	if e := f.takeDel(); e != nil {
		return e
	}
	return f.KvStorage.Del(ctx, key)
}

// DelCurrent implements storage.KvStorage.
func (f *Faulty) DelCurrent(ctx context.Context, it storage.Iter) error {
	if e := f.takeDel(); e != nil {
		return e
	}
	return f.KvStorage.DelCurrent(ctx, unwrapFaultyIter(it))
}

type faultyIter struct {
	storage.Iter
	f *Faulty
}

func unwrapFaultyIter(it storage.Iter) storage.Iter {
	if fi, ok := it.(*faultyIter); ok {
		return fi.Iter
	}
	return it
}

// Iter implements storage.KvStorage.
func (f *Faulty) Iter(ctx context.Context, start []byte, end []byte, timestamp uint64, limit uint64) (storage.Iter, error) {
	f.mu.Lock()
	e := f.iterErr
	f.iterErr = nil
	f.mu.Unlock()
	if e != nil {
		return nil, e
	}
	it, err := f.KvStorage.Iter(ctx, start, end, timestamp, limit)
	if err != nil {
		return nil, err
	}
	return &faultyIter{Iter: it, f: f}, nil
}

func (it *faultyIter) Next(ctx context.Context) error {
	it.f.mu.Lock()
	e := it.f.nextErr
	it.f.nextErr = nil
	it.f.mu.Unlock()
	if e != nil {
		return e
	}
	return it.Iter.Next(ctx)
}

// faultyBatch buffers the operations: the engine's batch is begun only when it is committed (memkv holds its store lock
// from BeginBatchWrite to Commit; a batch whose commit is answered here, without reaching the engine, must not begin one).
type faultyBatch struct {
	f   *Faulty
	ops []func(b storage.BatchWrite)
}

// BeginBatchWrite implements storage.KvStorage.
func (f *Faulty) BeginBatchWrite() storage.BatchWrite { return &faultyBatch{f: f} }

func (b *faultyBatch) PutIfNotExist(key, val []byte, ttl int64) {
	b.ops = append(b.ops, func(bw storage.BatchWrite) { bw.PutIfNotExist(key, val, ttl) })
}
func (b *faultyBatch) CAS(key, newVal, oldVal []byte, ttl int64) {
	b.ops = append(b.ops, func(bw storage.BatchWrite) { bw.CAS(key, newVal, oldVal, ttl) })
}
func (b *faultyBatch) Put(key, val []byte, ttl int64) {
	b.ops = append(b.ops, func(bw storage.BatchWrite) { bw.Put(key, val, ttl) })
}
func (b *faultyBatch) Del(key []byte) {
	b.ops = append(b.ops, func(bw storage.BatchWrite) { bw.Del(key) })
}
func (b *faultyBatch) DelCurrent(it storage.Iter) {
	inner := unwrapFaultyIter(it)
	b.ops = append(b.ops, func(bw storage.BatchWrite) { bw.DelCurrent(inner) })
}

func (b *faultyBatch) run(ctx context.Context) error {
	bw := b.f.KvStorage.BeginBatchWrite()
	for _, op := range b.ops {
		op(bw)
	}
	err := bw.Commit(ctx)
	b.f.mu.Lock()
	b.f.lastApplied = err == nil
	b.f.mu.Unlock()
	return err
}

func (b *faultyBatch) Commit(ctx context.Context) error {
	b.f.mu.Lock()
	e, apply := b.f.commitErr, b.f.commitApply
	b.f.commitErr = nil
	b.f.mu.Unlock()
	if e == nil {
		return b.run(ctx)
	}
	if !apply {
		b.f.mu.Lock()
		b.f.lastApplied = false
		b.f.mu.Unlock()
		return e
	}
	if err := b.run(ctx); err != nil {
		// the engine itself refused: its own answer
		return err
	}
	return e
}
