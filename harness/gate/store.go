package gate

import (
	"bytes"
	"context"
	"encoding/binary"
	"errors"
	"fmt"
	"io"
	"sort"
	"sync"
	"time"

	"github.com/kubewharf/kubebrain/pkg/backend/coder"
	"github.com/kubewharf/kubebrain/pkg/storage"
)

// KeyMap translates between raw user keys and small integers used by the specification.
type KeyMap struct {
	Names []string // index i <-> key number i+1
	// Special maps non-object keys (compact record, election key) to names.
	Special map[string]string
}

// Num returns the key number of a raw key (0 if unknown).
func (m *KeyMap) Num(raw []byte) int {
	for i, n := range m.Names {
		if n == string(raw) {
			return i + 1
		}
	}
	return 0
}

// Raw returns the raw key for a key number.
func (m *KeyMap) Raw(n int) []byte { return []byte(m.Names[n-1]) }

var theCoder = coder.NewNormalCoder()

// DecodeInternal renders an internal key as (kind, keynum, rev). kind: "obj", "special", "raw".
func (m *KeyMap) DecodeInternal(k []byte) (kind string, num int, rev uint64, name string) {
	if sp, ok := m.Special[string(k)]; ok {
		return "special", 0, 0, sp
	}
	if len(k) >= 13 && bytes.Equal(k[:4], []byte("\x57\xfb\x80\x8b")) && k[len(k)-9] == '$' {
		uk, r, err := theCoder.Decode(k)
		if err == nil {
			if n := m.Num(uk); n > 0 {
				return "obj", n, r, string(uk)
			}
			return "raw", 0, r, string(uk)
		}
	}
	return "raw", 0, 0, string(k)
}

// Fault describes an injected engine answer for one commit.
type Fault struct {
	Kind string // "err" (not applied), "unk_applied", "unk_notapplied"
}

// ErrInjected is the non-CAS, certain error injected by the harness.
var ErrInjected = errors.New("injected storage error")

// Store wraps a real engine: every call is a gate, is recorded (with decoded arguments, result
// and observed post-state), and may be answered by an injected fault.
type Store struct {
	Inner storage.KvStorage
	S     *Sched
	Rec   *Recorder
	Keys  *KeyMap
	// Below, when set, is the engine-side fault layer under the repository's own wrappers: injected faults are armed there
	// and the call goes through (see Faulty), instead of being answered here.
	Below *Faulty
	// NoTTL makes SupportTTL answer false (expiry then runs inside compaction).
	NoTTL bool
	// Partitions, when set, replaces the engine's answer to GetPartitions.
	Partitions func(start, end []byte) []storage.Partition
	// fault plan
	fmu         sync.Mutex
	CommitFault func(proc string, nth int, ops []Event) *Fault // nil => none
	DelFault    func(proc string, nth int, e Event) string     // "", "err", "cas", "die"
	IterFault   func(proc string, iter int, nth int) error     // nil => none: error returned by the nth Next of an iterator
	GetFault    func(proc string) error                        // nil => none: error returned by a point lookup
	TsoFault    func() error                                   // nil => none: error returned by the engine's timestamp oracle
	BeforeRun   func()                                         // called right before a batch reaches the engine
	commitN     int
	delN        int
	// LogIter makes iterator items part of the trace.
	LogIter bool
	// LogReads makes Get/Iter part of the trace.
	LogReads bool
	// IsCompactor tells whether the named process runs compaction (its Next calls are gates).
	IterNextGate bool
	// TrackAbandoned (free-running drivers only): the wrapper hands a batch to the engine only when it is committed, so a batch
	// that the code begins and then drops would never reach the engine at all. With this set, a goroutine that begins a batch while
	// its previous one was never committed makes the wrapper do what the engine would have seen -- one BeginBatchWrite that is
	// never committed -- and then asks the engine, with a deadline, whether it still answers. An engine that does not (memkv holds
	// its store lock from BeginBatchWrite to Commit) is recorded as wedged and every later call on it fails at once.
	TrackAbandoned bool
	obmu           sync.Mutex
	openBatch      map[int64]*batchW
}

var wedgedMu sync.Mutex
var wedged = map[storage.KvStorage]bool{}

// ErrWedged is the answer of the wrapper for an engine that was found not to answer any more.
var ErrWedged = errors.New("engine does not answer (a batch was begun and never committed)")

// Wedged tells whether the engine under this wrapper was found not to answer.
func (s *Store) Wedged() bool {
	wedgedMu.Lock()
	defer wedgedMu.Unlock()
	return wedged[s.Inner]
}

// IsWedged tells whether the engine was found not to answer.
func IsWedged(inner storage.KvStorage) bool {
	wedgedMu.Lock()
	defer wedgedMu.Unlock()
	return wedged[inner]
}

// CheckAbandoned looks for batches that were begun by a goroutine and not committed (call it between requests of a sequential
// driver: no batch is in flight then), and treats each as abandoned.
func (s *Store) CheckAbandoned() {
	if !s.TrackAbandoned {
		return
	}
	s.obmu.Lock()
	n := 0
	for g, b := range s.openBatch {
		if !b.committed {
			n++
		}
		delete(s.openBatch, g)
	}
	s.obmu.Unlock()
	for ; n > 0 && !s.Wedged(); n-- {
		s.abandoned()
	}
}

func (s *Store) abandoned() {
	_ = s.Inner.BeginBatchWrite() // what the engine would have received from the code
	done := make(chan struct{})
	go func() {
		s.Inner.BeginBatchWrite().Commit(context.Background())
		close(done)
	}()
	select {
	case <-done:
		s.Rec.Log(Event{"e": "AbandonedBatch", "wedged": false})
	case <-time.After(3 * time.Second):
		wedgedMu.Lock()
		wedged[s.Inner] = true
		wedgedMu.Unlock()
		s.Rec.Log(Event{"e": "AbandonedBatch", "wedged": true})
	}
}

var _ storage.KvStorage = (*Store)(nil)

func (s *Store) gate(label string) {
	if s.S != nil {
		s.S.Gate(label, 0, 0)
	}
}

func (s *Store) proc() string {
	if s.S != nil {
		return s.S.ProcName()
	}
	return "?"
}

// ValRepr renders a stored value for the trace as a uniform 4-tuple [tag, int, int, string]:
// absent ["n",0,0,""], index record ["i",rev,del,""], version ["v",0,0,value],
// special record (compaction floor) ["s",num,0,""], anything else ["x",0,0,value].
func ValRepr(kind string, rev uint64, v []byte) interface{} {
	if v == nil {
		return []interface{}{"n", 0, 0, ""}
	}
	if kind == "obj" && rev == 0 {
		if len(v) == 8 {
			return []interface{}{"i", clip(binary.BigEndian.Uint64(v)), 0, ""}
		}
		if len(v) == 9 {
			return []interface{}{"i", clip(binary.BigEndian.Uint64(v)), 1, ""}
		}
		return []interface{}{"x", 0, 0, string(v)}
	}
	if kind == "special" {
		if len(v) == 8 {
			return []interface{}{"s", clip(binary.BigEndian.Uint64(v)), 0, ""}
		}
		return []interface{}{"x", 0, 0, string(v)}
	}
	return []interface{}{"v", 0, 0, string(v)}
}

// clip maps a uint64 into TLC's 32-bit integer range.
func clip(u uint64) int64 {
	if u > 2000000000 {
		return 2000000000
	}
	return int64(u)
}

// Clip is the exported clip.
func Clip(u uint64) int64 { return clip(u) }

func (s *Store) keyEv(e Event, k []byte) (kind string, rev uint64) {
	kind, num, rev, name := s.Keys.DecodeInternal(k)
	e["kk"] = kind
	e["k"] = num
	e["r"] = clip(rev)
	if kind != "obj" {
		e["name"] = name
		if kind == "special" {
			e["r"] = 0
		}
	}
	return kind, rev
}

func errClass(err error) string {
	switch {
	case err == nil:
		return "ok"
	case errors.Is(err, storage.ErrCASFailed):
		return "cas"
	case errors.Is(err, storage.ErrUncertainResult):
		return "unk"
	case err == storage.ErrKeyNotFound:
		return "notfound"
	case err == io.EOF:
		return "eof"
	default:
		return "err"
	}
}

// ErrClass classifies an engine error the way the trace does.
func ErrClass(err error) string { return errClass(err) }

// GetTimestampOracle implements storage.KvStorage.
func (s *Store) GetTimestampOracle(ctx context.Context) (uint64, error) {
	s.gate("kv.ts")
	if tf := s.TsoFault; tf != nil {
		if err := tf(); err != nil {
			s.Rec.Log(Event{"e": "Note", "what": "the engine's timestamp oracle fails: " + err.Error()})
			return 0, err
		}
	}
	return s.Inner.GetTimestampOracle(ctx)
}

// GetPartitions implements storage.KvStorage.
func (s *Store) GetPartitions(ctx context.Context, start, end []byte) ([]storage.Partition, error) {
	s.gate("kv.parts")
	if s.Partitions != nil {
		return s.Partitions(start, end), nil
	}
	ps, err := s.Inner.GetPartitions(ctx, start, end)
	if err != nil {
		return ps, err
	}
	// the engine's own answer: the partitions must tile [start, end) -- every piece non-empty and forward, the pieces
	// (in key order) contiguous, the first starting at start and the last ending at end. The answer is recorded; a
	// malformed one is not handed to the scanner (the mock TiKV panics on the scans it leads to), the request fails.
	if bytes.Compare(start, end) >= 0 {
		return ps, nil // an empty interval was asked for: nothing to tile
	}
	why := ""
	sorted := append([]storage.Partition(nil), ps...)
	sort.Slice(sorted, func(i, j int) bool { return bytes.Compare(sorted[i].Start, sorted[j].Start) < 0 })
	switch {
	case len(sorted) == 0:
		why = "no partition"
	case !bytes.Equal(sorted[0].Start, start):
		why = "first partition does not start at the start of the interval"
	case !bytes.Equal(sorted[len(sorted)-1].End, end):
		why = "last partition does not end at the end of the interval"
	}
	for i := range sorted {
		if why == "" && bytes.Compare(sorted[i].Start, sorted[i].End) >= 0 {
			why = "empty or reversed partition"
		}
		if why == "" && i > 0 && !bytes.Equal(sorted[i-1].End, sorted[i].Start) {
			why = "gap or overlap between partitions"
		}
	}
	if len(ps) > 1 || why != "" {
		s.Rec.Log(Event{"e": "Parts", "p": s.proc(), "n": len(ps), "wellformed": why == "", "why": why})
	}
	if why != "" {
		return nil, fmt.Errorf("malformed partition answer: %s", why)
	}
	return ps, nil
}

// Get implements storage.KvStorage.
func (s *Store) Get(ctx context.Context, key []byte) ([]byte, error) {
	if s.TrackAbandoned && s.Wedged() {
		return nil, ErrWedged
	}
	s.gate("kv.get")
	p := s.proc()
	s.fmu.Lock()
	gf := s.GetFault
	s.fmu.Unlock()
	var ferr error
	if gf != nil {
		ferr = gf(p)
	}
	s.Rec.Mu.Lock()
	var val []byte
	var err error
	switch {
	case ferr != nil && s.Below != nil:
		// the engine fails: what arrives here went through the wrappers in between
		s.Below.ArmGet(ferr)
		val, err = s.Inner.Get(ctx, key)
		s.Below.Disarm()
	case ferr != nil:
		err = ferr
	default:
		val, err = s.Inner.Get(ctx, key)
	}
	if ferr != nil {
		s.Rec.LogLocked(Event{"e": "GetFault", "p": p})
	}
	if s.LogReads {
		e := Event{"e": "Get", "p": p, "res": errClass(err)}
		kind, rev := s.keyEv(e, key)
		e["v"] = ValRepr(kind, rev, val)
		s.Rec.LogLocked(e)
	}
	s.Rec.Mu.Unlock()
	return val, err
}

// SupportTTL implements storage.KvStorage.
func (s *Store) SupportTTL() bool {
	if s.NoTTL {
		return false
	}
	return s.Inner.SupportTTL()
}

// Close implements storage.KvStorage.
func (s *Store) Close() error { return s.Inner.Close() }

// iterW wraps an engine iterator.
type iterW struct {
	st    *Store
	inner storage.Iter
	p     string
	id    int
	n     int // Next calls so far
}

func (it *iterW) Key() []byte { return it.inner.Key() }
func (it *iterW) Val() []byte { return it.inner.Val() }
func (it *iterW) Next(ctx context.Context) error {
	if it.st.IterNextGate {
		it.st.gate("kv.next")
	}
	it.n++
	if f := it.st.IterFault; f != nil {
		// an injected transient iterator error (a timeout, a region error): the element is not consumed
		if err := f(it.p, it.id, it.n); err != nil {
			it.st.Rec.Log(Event{"e": "IterFault", "p": it.p, "it": it.id, "n": it.n})
			if it.st.Below == nil {
				return err
			}
			it.st.Rec.Mu.Lock()
			it.st.Below.ArmNext(err)
			err = it.inner.Next(ctx)
			it.st.Below.Disarm()
			it.st.Rec.Mu.Unlock()
			return err
		}
	}
	it.st.Rec.Mu.Lock()
	err := it.inner.Next(ctx)
	if it.st.LogIter {
		e := Event{"e": "IterItem", "p": it.p, "it": it.id, "res": errClass(err)}
		if err == nil {
			k := it.inner.Key()
			kind, rev := it.st.keyEv(e, k)
			e["v"] = ValRepr(kind, rev, it.inner.Val())
		}
		it.st.Rec.LogLocked(e)
	}
	it.st.Rec.Mu.Unlock()
	return err
}
func (it *iterW) Close() error { return it.inner.Close() }

var iterSeq int
var iterSeqMu sync.Mutex

// Iter implements storage.KvStorage.
func (s *Store) Iter(ctx context.Context, start, end []byte, ts uint64, limit uint64) (storage.Iter, error) {
	if s.TrackAbandoned && s.Wedged() {
		return nil, ErrWedged
	}
	s.gate("kv.iter")
	p := s.proc()
	s.Rec.Mu.Lock()
	inner, err := s.Inner.Iter(ctx, start, end, ts, limit)
	iterSeqMu.Lock()
	iterSeq++
	id := iterSeq
	iterSeqMu.Unlock()
	if s.LogReads || s.LogIter {
		e := Event{"e": "IterOpen", "p": p, "it": id, "res": errClass(err), "limit": int(limit)}
		es := Event{}
		s.keyEv(es, start)
		ee := Event{}
		s.keyEv(ee, end)
		e["start"] = es
		e["end"] = ee
		s.Rec.LogLocked(e)
	}
	s.Rec.Mu.Unlock()
	if err != nil {
		return nil, err
	}
	return &iterW{st: s, inner: inner, p: p, id: id}, nil
}

func (s *Store) readBack(k []byte) interface{} {
	v, err := s.Inner.Get(context.Background(), k)
	if err != nil {
		if err == storage.ErrKeyNotFound {
			return []interface{}{"n", 0, 0, ""}
		}
		return []interface{}{"e", 0, 0, ""}
	}
	kind, _, rev, _ := s.Keys.DecodeInternal(k)
	return ValRepr(kind, rev, v)
}

// Del implements storage.KvStorage.
func (s *Store) Del(ctx context.Context, key []byte) error {
	s.gate("kv.del")
	return s.del(ctx, key, nil)
}

// DelCurrent implements storage.KvStorage.
func (s *Store) DelCurrent(ctx context.Context, it storage.Iter) error {
	s.gate("kv.delcur")
	return s.del(ctx, it.Key(), it)
}

func (s *Store) del(ctx context.Context, key []byte, it storage.Iter) error {
	if s.TrackAbandoned && s.Wedged() {
		return ErrWedged
	}
	p := s.proc()
	e := Event{"e": "Del", "p": p}
	if it != nil {
		e["e"] = "DelCur"
	}
	kind, rev := s.keyEv(e, key)
	if it != nil {
		e["seen"] = ValRepr(kind, rev, it.Val())
	}
	s.fmu.Lock()
	s.delN++
	n := s.delN
	df := s.DelFault
	s.fmu.Unlock()
	e["n"] = n
	fault := ""
	if df != nil {
		fault = df(p, n, e)
	}
	if fault == "die" {
		s.Rec.Log(Event{"e": "Die", "p": p, "n": n})
		// the worker goroutine ends here; deferred wg.Done() of the scanner runs
		panicGoexit()
	}
	s.Rec.Mu.Lock()
	var err error
	through := func() error {
		if it != nil {
			return s.Inner.DelCurrent(ctx, it.(*iterW).inner)
		}
		return s.Inner.Del(ctx, key)
	}
	switch fault {
	case "err", "cas":
		err = ErrInjected
		if fault == "cas" {
			err = storage.ErrCASFailed
		}
		e["fault"] = fault
		if s.Below != nil {
			// the engine fails: what arrives here went through the wrappers in between
			s.Below.ArmDel(err)
			err = through()
			s.Below.Disarm()
		}
	default:
		err = through()
	}
	e["res"] = errClass(err)
	e["post"] = s.readBack(key)
	s.Rec.LogLocked(e)
	s.Rec.Mu.Unlock()
	return err
}

// batchW buffers the operations of a write batch; the real batch is built inside Commit.
type batchW struct {
	committed bool
	st        *Store
	ops       []func(b storage.BatchWrite)
	evs       []Event
	ks        [][]byte
}

// BeginBatchWrite implements storage.KvStorage.
func (s *Store) BeginBatchWrite() storage.BatchWrite {
	b := &batchW{st: s}
	if s.TrackAbandoned {
		gid := curGID()
		s.obmu.Lock()
		if s.openBatch == nil {
			s.openBatch = map[int64]*batchW{}
		}
		prev := s.openBatch[gid]
		s.openBatch[gid] = b
		s.obmu.Unlock()
		if prev != nil && !prev.committed && !s.Wedged() {
			s.abandoned()
		}
	}
	return b
}

func (b *batchW) add(o string, key []byte, f func(bw storage.BatchWrite)) Event {
	e := Event{"o": o}
	b.st.keyEv(e, key)
	b.ops = append(b.ops, f)
	b.evs = append(b.evs, e)
	b.ks = append(b.ks, append([]byte(nil), key...))
	return e
}

func (b *batchW) PutIfNotExist(key, val []byte, ttl int64) {
	e := b.add("pine", key, func(bw storage.BatchWrite) { bw.PutIfNotExist(key, val, ttl) })
	kind, _, rev, _ := b.st.Keys.DecodeInternal(key)
	e["v"] = ValRepr(kind, rev, val)
	e["ttl"] = ttl
}
func (b *batchW) CAS(key, newVal, oldVal []byte, ttl int64) {
	e := b.add("cas", key, func(bw storage.BatchWrite) { bw.CAS(key, newVal, oldVal, ttl) })
	kind, _, rev, _ := b.st.Keys.DecodeInternal(key)
	e["v"] = ValRepr(kind, rev, newVal)
	e["old"] = ValRepr(kind, rev, oldVal)
	e["ttl"] = ttl
}
func (b *batchW) Put(key, val []byte, ttl int64) {
	e := b.add("put", key, func(bw storage.BatchWrite) { bw.Put(key, val, ttl) })
	kind, _, rev, _ := b.st.Keys.DecodeInternal(key)
	e["v"] = ValRepr(kind, rev, val)
	e["ttl"] = ttl
}
func (b *batchW) Del(key []byte) {
	b.add("del", key, func(bw storage.BatchWrite) { bw.Del(key) })
}
func (b *batchW) DelCurrent(it storage.Iter) {
	inner := it.(*iterW).inner
	b.add("delcur", it.Key(), func(bw storage.BatchWrite) { bw.DelCurrent(inner) })
}

func (b *batchW) Commit(ctx context.Context) error {
	s := b.st
	b.committed = true
	if s.Wedged() {
		return ErrWedged
	}
	s.gate("kv.commit")
	p := s.proc()
	s.fmu.Lock()
	s.commitN++
	n := s.commitN
	cf := s.CommitFault
	s.fmu.Unlock()
	var fault *Fault
	if cf != nil {
		fault = cf(p, n, b.evs)
	}
	ops := make([]interface{}, len(b.evs))
	for i, e := range b.evs {
		ops[i] = e
	}
	ev := Event{"e": "Commit", "p": p, "n": n, "ops": ops}
	s.Rec.Mu.Lock()
	pre := make([]interface{}, len(b.ks))
	for i, k := range b.ks {
		pre[i] = s.readBack(k)
	}
	var err error
	applied := false
	run := func() error {
		bw := s.Inner.BeginBatchWrite()
		for _, f := range b.ops {
			f(bw)
		}
		return bw.Commit(ctx)
	}
	if fault == nil {
		if br := s.BeforeRun; br != nil {
			br() // (after the recorder's own read of the previous values: a fault armed inside the engine meets the batch, not that read)
		}
		err = run()
		applied = err == nil
		ev["fault"] = ""
	} else {
		ev["fault"] = fault.Kind
		switch fault.Kind {
		case "err":
			err = ErrInjected
			if s.Below != nil {
				s.Below.ArmCommit(ErrInjected, false)
				err = run()
				s.Below.Disarm()
				applied = s.Below.LastApplied()
			}
		case "unk_applied":
			if s.Below != nil {
				s.Below.ArmCommit(storage.NewErrUncertainResult(fmt.Errorf("injected: answer lost")), true)
				err = run()
				s.Below.Disarm()
				applied = s.Below.LastApplied()
				if !applied && !errors.Is(err, storage.ErrUncertainResult) {
					ev["fault"] = ""
				}
				break
			}
			ierr := run()
			applied = ierr == nil
			if ierr == nil {
				err = storage.NewErrUncertainResult(fmt.Errorf("injected: answer lost"))
			} else {
				// the engine itself refused: report its own answer
				err = ierr
				ev["fault"] = ""
			}
		case "unk_notapplied":
			err = storage.NewErrUncertainResult(fmt.Errorf("injected: request lost"))
			if s.Below != nil {
				s.Below.ArmCommit(err, false)
				err = run()
				s.Below.Disarm()
				applied = s.Below.LastApplied()
			}
		}
	}
	post := make([]interface{}, len(b.ks))
	for i, k := range b.ks {
		post[i] = s.readBack(k)
	}
	ev["res"] = errClass(err)
	ev["applied"] = applied
	ev["pre"] = pre
	ev["post"] = post
	s.Rec.LogLocked(ev)
	s.Rec.Mu.Unlock()
	return err
}
