package gate

import "runtime"

func panicGoexit() { runtime.Goexit() }
