package main

import (
	"context"
	"encoding/json"
	"errors"
	"flag"
	"fmt"
	"os"
	"runtime"
	"sync/atomic"
	"time"

	proto "github.com/kubewharf/kubebrain-client/api/v2rpc"

	"github.com/kubewharf/kubebrain/pkg/backend"
	"github.com/kubewharf/kubebrain/pkg/server/service/leader"

	"kbverif/gate"
	"kbverif/kb"
)

// cmdLeadRun (C15): an old leader (real Campaign, real OnStartedLeading) writes a history with
// many failed writes, then a restarted node over the same store becomes leader through the same
// code path; the revisions it hands out are recorded relative to the old leader's seed.
var tsoDisarmed int32

func cmdLeadRun(args []string) int {
	fs := flag.NewFlagSet("leadrun", flag.ExitOnError)
	out := fs.String("out", "", "trace output")
	report := fs.String("report", "", "report output")
	engine := fs.String("engine", "memkv", "engine")
	fails := fs.Int("fails", 50, "failed writes of the old leader (each consumes a revision)")
	succ := fs.Int("succ", 3, "successful writes of the old leader")
	stopAfter := fs.Int("stopafter", -1, "the old leader stops after this many requests (-1: after all)")
	future := fs.Bool("future", false, "the old leader also serves a guarded update that names a revision far in the future, then more writes")
	follower := fs.Bool("follower", false, "the new leader is a node that was a follower and served a read (it adopted the old leader's revision at that time) before the old leader's last writes")
	tsoFault := fs.Int("tsofault", 0, "the engine's timestamp oracle fails on its n-th call while the restarted node campaigns (0: never)")
	fs.Parse(args)
	kb.QuietLogs()
	backend.VerifSetRetryIntervals(0, time.Millisecond)
	eng, err := kb.NewEngine(*engine)
	if err != nil {
		fmt.Println(err)
		return 2
	}
	defer eng.Close()
	nkeys := *succ + 4
	names := make([]string, nkeys)
	for i := range names {
		names[i] = fmt.Sprintf("/k%02d", i)
	}
	const shift = 1000000000
	newNode := func(id string) *kb.Env {
		return kb.NewEnv(kb.Options{Engine: eng, KeyNames: names, Gated: false, Record: true, Prefix: "/lead", Identity: id})
	}
	var standby *kb.Env
	probeEarly := false
	var earlyDone chan struct{}
	var earlyRev uint64
	earlyOk := false
	earlyPanic := ""
	startNode := func(id string) (*kb.Env, uint64, bool) {
		env := standby
		standby = nil
		if env == nil {
			env = newNode(id)
		}
		if *tsoFault > 0 && probeEarly {
			// (the restarted node only) one failing answer of the oracle during the take-over: the election retries, and whatever
			// the node does, it must not hand out revisions below what is stored
			var calls int64
			n := int64(*tsoFault)
			env.Store.TsoFault = func() error {
				if atomic.LoadInt32(&tsoDisarmed) != 0 {
					return nil // (the fault belongs to the take-over; the driver's own reads afterwards are not to meet it)
				}
				if atomic.AddInt64(&calls, 1) == n {
					return errors.New("injected: oracle unavailable")
				}
				return nil
			}
		}
		started := make(chan struct{})
		le := leader.NewLeaderElection(env.B, kb.Metrics(), func(context.Context) { close(started) }, func() {})
		if probeEarly {
			// a client that writes as soon as the node says it leads (the servers gate writes on IsLeader())
			earlyDone = make(chan struct{})
			go func() {
				defer close(earlyDone)
				for t0 := time.Now(); !le.IsLeader(); {
					if time.Since(t0) > 6*time.Second {
						return
					}
					runtime.Gosched()
				}
				func() {
					// a panic of the code under test is an observation: the write got no usable revision
					defer func() {
						if x := recover(); x != nil {
							earlyRev, earlyOk, earlyPanic = 1, false, fmt.Sprint(x)
						}
					}()
					r, err := env.B.Create(context.Background(), &proto.CreateRequest{Key: env.Keys.Raw(len(names) - 1), Value: []byte("early")})
					if err == nil {
						earlyRev, earlyOk = r.Header.Revision, r.Succeeded
					}
				}()
			}()
		}
		go le.Campaign()
		select {
		case <-started:
			atomic.StoreInt32(&tsoDisarmed, 1)
		case <-time.After(6 * time.Second):
			return env, 0, false
		}
		return env, env.B.GetCurrentRevision(), true
	}
	var evs []gate.Event
	log := func(e gate.Event) { evs = append(evs, e) }
	a, seedA, ok := startNode("node-1")
	if !ok {
		fmt.Println("the first node did not become leader in time")
		return 2
	}
	rel := func(r uint64) int64 {
		d := int64(r-seedA) + shift
		if r < seedA {
			d = shift - int64(seedA-r)
		}
		if d < 0 {
			d = 0
		}
		if d > 2*shift {
			d = 2 * shift
		}
		return d
	}
	ctx := context.Background()
	oldRev := map[int]uint64{}
	reqs := 0
	stop := func() bool { return *stopAfter >= 0 && reqs >= *stopAfter }
	func() {
		// a panic of the code under test while the old leader serves its requests is an observation
		defer func() {
			if x := recover(); x != nil {
				log(gate.Event{"e": "Panic", "who": "old leader", "msg": fmt.Sprint(x)})
			}
		}()
		for i := 0; i < *succ && !stop(); i++ {
			r, err := a.B.Create(ctx, &proto.CreateRequest{Key: a.Keys.Raw(i + 1), Value: []byte("old")})
			reqs++
			if err == nil && r.Succeeded {
				oldRev[i+1] = r.Header.Revision
			}
		}
		if *follower {
			// a second node of the cluster serves a read as follower: the revision syncer stores the leader's
			// committed revision in its backend (revision.go: SetCurrentRevision)
			standby = newNode("node-1")
			standby.B.SetCurrentRevision(a.B.GetCurrentRevision())
		}
		for i := 0; i < *fails && !stop(); i++ {
			// creating an existing key fails and consumes a revision without touching the engine
			a.B.Create(ctx, &proto.CreateRequest{Key: a.Keys.Raw(1), Value: []byte("again")})
			reqs++
		}
		if !stop() {
			// one more success so that a high revision is actually stored
			r, err := a.B.Create(ctx, &proto.CreateRequest{Key: a.Keys.Raw(*succ + 1), Value: []byte("old")})
			reqs++
			if err == nil && r.Succeeded {
				oldRev[*succ+1] = r.Header.Revision
			}
		}
		if *future && !stop() {
			// a client names a revision far ahead of the generator (refused: "revision drift back"); what the leader writes
			// afterwards must still be below what a later leader hands out
			k := 1
			a.B.Update(ctx, &proto.UpdateRequest{Kv: &proto.KeyValue{Key: a.Keys.Raw(k), Value: []byte("future"), Revision: a.B.GetCurrentRevision() + 3600*1000000000}})
			reqs++
			r, err := a.B.Create(ctx, &proto.CreateRequest{Key: a.Keys.Raw(*succ + 2), Value: []byte("after")})
			reqs++
			if err == nil && r.Succeeded {
				oldRev[*succ+2] = r.Header.Revision
			}
		}
	}()
	var maxStored uint64
	for _, r := range oldRev {
		if r > maxStored {
			maxStored = r
		}
	}
	log(gate.Event{"e": "Stored", "max": rel(maxStored), "seed_old": shift, "requests": reqs, "engine": *engine})
	// restart: a new node instance with the same identity over the same store
	probeEarly = true
	atomic.StoreInt32(&tsoDisarmed, 0)
	b, seedB, ok := startNode("node-1")
	if !ok {
		fmt.Println("the restarted node did not become leader in time")
		return 2
	}
	log(gate.Event{"e": "LeaderStart", "seed": rel(seedB), "engine": *engine, "was_follower": *follower})
	if earlyDone != nil {
		select {
		case <-earlyDone:
			if earlyRev > 0 {
				log(gate.Event{"e": "NewWrite", "rev": rel(earlyRev), "ok": earlyOk, "guarded": false, "what": "a write issued the moment the node reported that it leads", "panic": earlyPanic})
			}
		case <-time.After(2 * time.Second):
		}
	}
	func() {
		// a panic of the code under test while the new leader serves its first requests is an observation
		defer func() {
			if x := recover(); x != nil {
				log(gate.Event{"e": "NewWrite", "rev": rel(1), "ok": false, "guarded": false, "what": "the new leader panicked: " + fmt.Sprint(x), "panic": fmt.Sprint(x)})
			}
		}()
		r, err := b.B.Create(ctx, &proto.CreateRequest{Key: b.Keys.Raw(nkeys), Value: []byte("new")})
		if err == nil {
			log(gate.Event{"e": "NewWrite", "rev": rel(r.Header.Revision), "ok": r.Succeeded, "guarded": false, "what": "create of a new key"})
		}
		for k, rv := range oldRev {
			u, err := b.B.Update(ctx, &proto.UpdateRequest{Kv: &proto.KeyValue{Key: b.Keys.Raw(k), Value: []byte("upd"), Revision: rv}})
			if err != nil {
				log(gate.Event{"e": "NewWrite", "rev": rel(b.B.GetCurrentRevision()), "ok": false, "guarded": true, "what": "guarded update of an old key: " + err.Error()})
				continue
			}
			log(gate.Event{"e": "NewWrite", "rev": rel(u.Header.Revision), "ok": u.Succeeded, "guarded": true, "what": "guarded update of an old key"})
			break
		}
		b.WaitCommitted(b.B.GetCurrentRevision()+0, time.Second)
		time.Sleep(2 * time.Millisecond)
		lr, err := b.B.List(ctx, &proto.RangeRequest{Key: []byte("/lead/"), End: backend.PrefixEnd([]byte("/lead/"))})
		missing := 0
		if err != nil {
			missing = len(oldRev)
		} else {
			seen := map[string]bool{}
			for _, kv := range lr.Kvs {
				seen[string(kv.Key)] = true
			}
			for k := range oldRev {
				if !seen[string(b.Keys.Raw(k))] {
					missing++
				}
			}
		}
		log(gate.Event{"e": "ListAfter", "missing": missing, "old_keys": len(oldRev)})
	}()
	w, err := os.Create(*out)
	if err != nil {
		fmt.Println(err)
		return 2
	}
	for _, e := range evs {
		bs, _ := json.Marshal(e)
		w.Write(append(bs, '\n'))
	}
	w.WriteString("{\"e\":\"Reset\"}\n")
	w.Close()
	if *report != "" {
		bs, _ := json.Marshal(map[string]interface{}{"behaviours": 1, "nontrivial": 1, "engine": *engine, "old_requests": reqs,
			"max_stored_rel": rel(maxStored) - shift, "new_seed_rel": rel(seedB) - shift})
		os.WriteFile(*report, bs, 0644)
	}
	fmt.Printf("leadrun engine=%s old requests=%d max stored=seed+%d new seed=seed%+d\n", *engine, reqs, rel(maxStored)-shift, rel(seedB)-shift)
	return 0
}
