package main

import (
	"bufio"
	"encoding/json"
	"flag"
	"fmt"
	"os"
	"sync"
	"time"

	"github.com/kubewharf/kubebrain/pkg/backend/tso"
	"github.com/kubewharf/kubebrain/pkg/verifhook"

	"kbverif/gate"
	"kbverif/kb"
)

// cmdTsoRun (C02): behaviours of spec/Tso.tla on the real revision allocator. A Commit is a goroutine that stops at the
// yield point between its load of the allocator and its compare-and-swap, and is let go by the CommitCas step.
type tsoStep struct {
	A string `json:"a"`
	P string `json:"p"`
	V uint64 `json:"v"`
}
type tsoBehaviour struct {
	Steps []tsoStep `json:"steps"`
}

func cmdTsoRun(args []string) int {
	fs := flag.NewFlagSet("tsorun", flag.ExitOnError)
	in := fs.String("in", "", "behaviours of Tso.tla")
	out := fs.String("out", "", "trace output")
	report := fs.String("report", "", "report output")
	shard := fs.Int("shard", 0, "shard")
	shards := fs.Int("shards", 1, "shards")
	fs.String("engine", "", "unused")
	fs.Parse(args)
	kb.QuietLogs()
	f, err := os.Open(*in)
	if err != nil {
		fmt.Println(err)
		return 2
	}
	defer f.Close()
	w, err := os.Create(*out)
	if err != nil {
		fmt.Println(err)
		return 2
	}
	defer w.Close()
	// the yield point parks the committing goroutine named by the revision it commits
	type gatepair struct {
		arrived chan uint64
		release chan struct{}
	}
	var mu sync.Mutex
	parked := map[uint64]*gatepair{}
	verifhook.Hook = func(point string, a, b uint64) {
		if point != "tso.commit" {
			return
		}
		mu.Lock()
		g := parked[b]
		mu.Unlock()
		if g == nil {
			return
		}
		g.arrived <- a
		<-g.release
	}
	sc := bufio.NewScanner(f)
	sc.Buffer(make([]byte, 1<<20), 1<<24)
	nb, idx, notExec := 0, -1, 0
	for sc.Scan() {
		idx++
		if idx%*shards != *shard {
			continue
		}
		var b tsoBehaviour
		if err := json.Unmarshal(sc.Bytes(), &b); err != nil {
			fmt.Println("bad behaviour:", err)
			return 2
		}
		t := tso.NewTSO()
		t.Init(0)
		done := map[string]chan struct{}{}
		gates := map[string]*gatepair{}
		ok := true
		var evs []gate.Event
		for _, s := range b.Steps {
			switch s.A {
			case "Deal":
				v, _ := t.Deal()
				evs = append(evs, gate.Event{"e": "TDeal", "p": s.P, "v": gate.Clip(v)})
			case "CommitLoad":
				g := &gatepair{arrived: make(chan uint64, 1), release: make(chan struct{})}
				mu.Lock()
				if parked[s.V] != nil {
					ok = false // two commits of one revision in flight: the yield point cannot tell them apart
				}
				parked[s.V] = g
				mu.Unlock()
				if !ok {
					break
				}
				gates[s.P] = g
				d := make(chan struct{})
				done[s.P] = d
				go func(v uint64) { t.Commit(v); close(d) }(s.V)
				select {
				case pre := <-g.arrived:
					evs = append(evs, gate.Event{"e": "TCommitLoad", "p": s.P, "v": gate.Clip(s.V), "pre": gate.Clip(pre), "published": gate.Clip(t.GetRevision())})
				case <-time.After(5 * time.Second):
					ok = false
				}
			case "CommitCas":
				g := gates[s.P]
				if g == nil {
					ok = false
					break
				}
				close(g.release)
				select {
				case <-done[s.P]:
				case <-time.After(5 * time.Second):
					ok = false
				}
				mu.Lock()
				delete(parked, s.V)
				mu.Unlock()
				evs = append(evs, gate.Event{"e": "TCommitCas", "p": s.P, "v": gate.Clip(s.V)})
			}
			if !ok {
				break
			}
		}
		// let every parked goroutine go
		for p, g := range gates {
			select {
			case <-done[p]:
			default:
				func() {
					defer func() { recover() }()
					close(g.release)
				}()
				<-done[p]
			}
		}
		mu.Lock()
		parked = map[uint64]*gatepair{}
		mu.Unlock()
		if !ok {
			notExec++
			continue
		}
		for _, ev := range evs {
			bs, _ := json.Marshal(ev)
			w.Write(append(bs, '\n'))
		}
		w.WriteString("{\"e\":\"Reset\"}\n")
		nb++
	}
	if *report != "" {
		bs, _ := json.Marshal(map[string]interface{}{"behaviours": nb + notExec, "nontrivial": nb, "agreed": nb, "obs_mismatch": notExec})
		os.WriteFile(*report, bs, 0644)
	}
	fmt.Printf("tsorun behaviours=%d not_executable=%d\n", nb, notExec)
	return 0
}
