package main

import (
	"bufio"
	"context"
	"encoding/json"
	"errors"
	"flag"
	"fmt"
	"io"
	"os"
	"sync"
	"sync/atomic"
	"time"

	"go.etcd.io/etcd/api/v3/etcdserverpb"
	"go.etcd.io/etcd/api/v3/mvccpb"
	"google.golang.org/grpc/metadata"

	"github.com/kubewharf/kubebrain/pkg/backend"
	"github.com/kubewharf/kubebrain/pkg/verifhook"

	"kbverif/gate"
	"kbverif/kb"
)

// cmdMuxRun (C05, C16, C20): behaviours of spec/WatchMux.tla on the real etcd watch handler (RPCServer.Watch): several watches on one
// stream, on nested prefixes, created from revision 0 / inside the cached window / the next revision; cancel requests; a send that
// fails for one watch; the end of the stream. The stream is a recording fake (every response is logged in the order the handler sent
// it); writes go through the real Txn handler. Revisions are logged as positions in the sequence of writes of the behaviour.
type muxStep struct {
	A string `json:"a"`
	K int    `json:"k"`
	P int    `json:"p"`
	S int    `json:"s"`
	W int    `json:"w"`
}
type muxBehaviour struct {
	Steps []muxStep `json:"steps"`
}

var muxKeyNames = []string{"/a/x", "/a/b/x", "/c/x"}
var muxPfx = []string{"/a/", "/a/b/", "/c/"}

func muxMatch(k, p int) bool {
	return (p == 1 && (k == 1 || k == 2)) || (p == 2 && k == 2) || (p == 3 && k == 3)
}

type muxStream struct {
	ctx    context.Context
	cancel context.CancelFunc
	reqs   chan *etcdserverpb.WatchRequest

	mu       sync.Mutex
	evs      []gate.Event
	env      *kb.Env
	idxOf    map[int64]int // actual revision -> position in the write log
	armed    map[int64]bool
	got      map[int64]int // events received per watch id (positions >= from only)
	from     map[int64]int // per watch id
	created  []int64       // ids in order of the created responses
	canceled map[int64]int
	failed   map[int64]bool
	pendFrom []int
	lastSend time.Time
	idBase   int64 // added to every logged watch id: ids are unique per process, traces of several processes are validated together
}

func (f *muxStream) log(e gate.Event) { f.evs = append(f.evs, e) }

func (f *muxStream) Send(r *etcdserverpb.WatchResponse) error {
	f.mu.Lock()
	defer f.mu.Unlock()
	f.lastSend = time.Now()
	switch {
	case r.Created:
		f.created = append(f.created, r.WatchId)
		if len(f.pendFrom) > 0 {
			f.from[r.WatchId] = f.pendFrom[0]
			f.pendFrom = f.pendFrom[1:]
		}
		f.log(gate.Event{"e": "MCreated", "id": f.idBase + r.WatchId})
	case r.Canceled:
		f.canceled[r.WatchId]++
		f.log(gate.Event{"e": "MCanceled", "id": f.idBase + r.WatchId, "compact": r.CompactRevision})
	default:
		if f.armed[r.WatchId] && len(r.Events) > 0 {
			f.armed[r.WatchId] = false
			f.failed[r.WatchId] = true
			f.log(gate.Event{"e": "MSendFail", "id": f.idBase + r.WatchId})
			return errors.New("transport is closing")
		}
		revs, ks, dels, prevs := []interface{}{}, []interface{}{}, []interface{}{}, []interface{}{}
		for _, e := range r.Events {
			i := f.idxOf[e.Kv.ModRevision]
			revs = append(revs, i)
			ks = append(ks, f.env.Keys.Num(e.Kv.Key))
			dels = append(dels, e.Type == mvccpb.DELETE)
			pv := 0
			if e.Type == mvccpb.DELETE && e.PrevKv != nil {
				pv = f.idxOf[e.PrevKv.ModRevision]
				if pv == 0 {
					pv = -1
				}
			}
			prevs = append(prevs, pv)
			if i >= f.from[r.WatchId] {
				f.got[r.WatchId]++
			}
		}
		f.log(gate.Event{"e": "MEvents", "id": f.idBase + r.WatchId, "revs": revs, "ks": ks, "dels": dels, "prevs": prevs, "hdr": f.idxOf[r.Header.GetRevision()]})
	}
	return nil
}
func (f *muxStream) Recv() (*etcdserverpb.WatchRequest, error) {
	select {
	case r := <-f.reqs:
		return r, nil
	case <-f.ctx.Done():
		return nil, io.EOF
	}
}
func (f *muxStream) SetHeader(metadata.MD) error  { return nil }
func (f *muxStream) SendHeader(metadata.MD) error { return nil }
func (f *muxStream) SetTrailer(metadata.MD)       {}
func (f *muxStream) Context() context.Context     { return f.ctx }
func (f *muxStream) SendMsg(m interface{}) error  { return errors.New("unused") }
func (f *muxStream) RecvMsg(m interface{}) error  { return errors.New("unused") }

var muxSubscribed, muxCacheRead int64

func cmdMuxRun(args []string) int {
	fs := flag.NewFlagSet("muxrun", flag.ExitOnError)
	in := fs.String("in", "", "behaviours of WatchMux.tla")
	out := fs.String("out", "", "trace output")
	report := fs.String("report", "", "report output")
	shard := fs.Int("shard", 0, "shard")
	shards := fs.Int("shards", 1, "shards")
	engName := fs.String("engine", "memkv", "engine")
	fs.Parse(args)
	kb.QuietLogs()
	backend.VerifSetRetryIntervals(0, time.Millisecond)
	f, err := os.Open(*in)
	if err != nil {
		fmt.Println(err)
		return 2
	}
	defer f.Close()
	w, err := os.Create(*out)
	if err != nil {
		fmt.Println(err)
		return 2
	}
	defer w.Close()
	inner := verifhook.Hook
	verifhook.Hook = func(point string, a, b uint64) {
		if point == "watch.subscribed" {
			atomic.AddInt64(&muxSubscribed, 1)
		}
		if point == "watch.cacheread" {
			atomic.AddInt64(&muxCacheRead, 1)
		}
		if inner != nil {
			inner(point, a, b)
		}
	}
	eng, err := kb.NewEngine(*engName)
	if err != nil {
		fmt.Println(err)
		return 2
	}
	defer eng.Close()
	sc := bufio.NewScanner(f)
	sc.Buffer(make([]byte, 1<<20), 1<<24)
	nb, idx, nontrivial, notExec := 0, -1, 0, 0
	for sc.Scan() {
		idx++
		if idx%*shards != *shard {
			continue
		}
		var b muxBehaviour
		if err := json.Unmarshal(sc.Bytes(), &b); err != nil {
			fmt.Println("bad behaviour:", err)
			return 2
		}
		evs, ok, multi := muxOne(eng, b, int64(*shard)*1000000)
		if !ok {
			notExec++
			continue
		}
		for _, ev := range evs {
			bs, _ := json.Marshal(ev)
			w.Write(append(bs, '\n'))
		}
		w.WriteString("{\"e\":\"Reset\"}\n")
		nb++
		if multi {
			nontrivial++
		}
	}
	if *report != "" {
		bs, _ := json.Marshal(map[string]interface{}{"behaviours": nb + notExec, "nontrivial": nontrivial, "agreed": nb, "obs_mismatch": notExec})
		os.WriteFile(*report, bs, 0644)
	}
	fmt.Printf("muxrun behaviours=%d not_executable=%d\n", nb, notExec)
	return 0
}

func muxOne(eng *kb.Engine, b muxBehaviour, idBase int64) ([]gate.Event, bool, bool) {
	const base = 100
	env := kb.NewEnv(kb.Options{Engine: eng, KeyNames: muxKeyNames, Gated: false, Base: base, Record: false, Etcd: true, NoTTL: true, CacheSize: 256})
	defer env.Retire()
	env.Sched.Register("c1")
	ap := newAPI(env, "etcd")
	ctx, cancel := context.WithCancel(context.Background())
	defer cancel()
	st := &muxStream{ctx: ctx, cancel: cancel, reqs: make(chan *etcdserverpb.WatchRequest, 16), env: env, idxOf: map[int64]int{}, armed: map[int64]bool{},
		got: map[int64]int{}, from: map[int64]int{}, canceled: map[int64]int{}, failed: map[int64]bool{}, idBase: idBase}
	returned := make(chan struct{})
	go func() { ap.etcd.Watch(st); close(returned) }()

	type wrec struct {
		k   int
		del bool
	}
	var wl []wrec
	actual := []uint64{base}    // actual[i] = revision of write i
	lastRev := map[int]uint64{} // per key: revision of the live version
	ended := map[int64]bool{}   // per watch id: cancel requested by the client
	muxPfxOf := map[int64]int{} // per watch id: its prefix
	wait := func(cond func() bool, d time.Duration) bool {
		dl := time.Now().Add(d)
		for !cond() {
			if time.Now().After(dl) {
				return false
			}
			time.Sleep(200 * time.Microsecond)
		}
		return true
	}
	// settle: every open watch has received what the write log holds for it (or ten seconds have passed), and the stream is quiet
	settle := func() {
		wait(func() bool {
			st.mu.Lock()
			defer st.mu.Unlock()
			for _, id := range st.created {
				if ended[id] || st.failed[id] || st.canceled[id] > 0 {
					continue
				}
				p, want := muxPfxOf[id], 0
				for i, wr := range wl {
					if i+1 >= st.from[id] && muxMatch(wr.k, p) {
						want++
					}
				}
				if st.got[id] < want {
					return false // (an armed watch stays behind until its next send has failed: it then counts as failed)
				}
			}
			return true
		}, 10*time.Second)
		wait(func() bool { st.mu.Lock(); defer st.mu.Unlock(); return time.Since(st.lastSend) > 3*time.Millisecond }, time.Second)
		st.mu.Lock()
		st.log(gate.Event{"e": "MQuiet"})
		st.mu.Unlock()
	}
	ok := true
	closedStream := false
	for _, s := range b.Steps {
		switch s.A {
		case "Write", "Delete":
			var o specOp
			if s.A == "Delete" {
				o = specOp{Type: "delete", Key: s.K, Exp: lastRev[s.K]}
			} else if lastRev[s.K] == 0 {
				o = specOp{Type: "create", Key: s.K, Val: fmt.Sprintf("v%d", len(wl)+1)}
			} else {
				o = specOp{Type: "update", Key: s.K, Val: fmt.Sprintf("v%d", len(wl)+1), Exp: lastRev[s.K]}
			}
			st.mu.Lock()
			// the revision of this write is known before any of its events can be sent: it is the next one (one client, no failed writes)
			next := actual[len(actual)-1] + 1
			st.idxOf[int64(next)] = len(wl) + 1
			// (logged before the request is issued: its event can reach the stream before the Txn call has returned to this client)
			st.log(gate.Event{"e": "MWrite", "k": s.K, "del": s.A == "Delete", "i": len(wl) + 1})
			st.mu.Unlock()
			r := ap.write(o)
			if r.Err != "" || !r.Succ || r.Hdr != next {
				ok = false
				break
			}
			actual = append(actual, r.Hdr)
			wl = append(wl, wrec{s.K, s.A == "Delete"})
			if s.A == "Delete" {
				lastRev[s.K] = 0
			} else {
				lastRev[s.K] = r.Hdr
			}
			env.WaitCommitted(r.Hdr, 5*time.Second)
			settle()
		case "Create":
			from := s.S
			start := int64(0)
			if s.S == 0 {
				from = len(wl) + 1
			} else {
				start = int64(base + s.S)
			}
			st.mu.Lock()
			st.pendFrom = append(st.pendFrom, from)
			ncreated := len(st.created)
			st.log(gate.Event{"e": "MCreate", "p": s.P, "from": from, "zero": s.S == 0})
			st.mu.Unlock()
			sub0 := atomic.LoadInt64(&muxSubscribed)
			cr0 := atomic.LoadInt64(&muxCacheRead)
			pfx := []byte(env.Prefix + muxPfx[s.P-1])
			st.reqs <- &etcdserverpb.WatchRequest{RequestUnion: &etcdserverpb.WatchRequest_CreateRequest{CreateRequest: &etcdserverpb.WatchCreateRequest{
				Key: pfx, RangeEnd: backend.PrefixEnd(pfx), StartRevision: start, PrevKv: true}}}
			if !wait(func() bool { st.mu.Lock(); defer st.mu.Unlock(); return len(st.created) > ncreated }, 5*time.Second) {
				st.mu.Lock()
				st.log(gate.Event{"e": "MNoCreated"})
				st.mu.Unlock()
			} else {
				st.mu.Lock()
				id := st.created[len(st.created)-1]
				muxPfxOf[id] = s.P
				st.mu.Unlock()
				// the subscription at the hub is in place (or the watch was refused) before the next client step
				wait(func() bool {
					st.mu.Lock()
					defer st.mu.Unlock()
					// (a watch from a revision also reads the event cache after it has subscribed: a write that falls between the two
					//  meets a cache that does not hold its event yet, and the backend may refuse the watch -- legitimate, but not
					//  what this script is about)
					return (atomic.LoadInt64(&muxSubscribed) > sub0 && (start == 0 || atomic.LoadInt64(&muxCacheRead) > cr0)) || st.canceled[id] > 0
				}, 5*time.Second)
			}
			settle()
		case "Cancel":
			st.mu.Lock()
			if s.W > len(st.created) {
				st.mu.Unlock()
				ok = false
				break
			}
			id := st.created[s.W-1]
			n0 := st.canceled[id]
			ended[id] = true
			st.log(gate.Event{"e": "MCancelReq", "id": st.idBase + id})
			st.mu.Unlock()
			st.reqs <- &etcdserverpb.WatchRequest{RequestUnion: &etcdserverpb.WatchRequest_CancelRequest{CancelRequest: &etcdserverpb.WatchCancelRequest{WatchId: id}}}
			wait(func() bool { st.mu.Lock(); defer st.mu.Unlock(); return st.canceled[id] > n0 }, 5*time.Second)
			settle()
		case "Arm":
			st.mu.Lock()
			if s.W > len(st.created) {
				st.mu.Unlock()
				ok = false
				break
			}
			id := st.created[s.W-1]
			st.armed[id] = true
			st.log(gate.Event{"e": "MArm", "id": st.idBase + id})
			st.mu.Unlock()
		case "Close":
			st.mu.Lock()
			st.log(gate.Event{"e": "MClose"})
			st.mu.Unlock()
			cancel()
			closedStream = true
			ret := false
			select {
			case <-returned:
				ret = true
			case <-time.After(10 * time.Second):
			}
			// every subscription of this stream is gone from the hub
			wait(func() bool { return backend.VerifHubSubs(env.B) == 0 }, 5*time.Second)
			st.mu.Lock()
			st.log(gate.Event{"e": "MReturned", "ok": ret, "subs": backend.VerifHubSubs(env.B)})
			st.mu.Unlock()
		}
		if !ok {
			break
		}
	}
	if !closedStream {
		cancel()
		select {
		case <-returned:
		case <-time.After(10 * time.Second):
		}
	}
	st.mu.Lock()
	defer st.mu.Unlock()
	return st.evs, ok, len(st.created) > 1
}
