package main

import (
	"bufio"
	"context"
	"encoding/json"
	"errors"
	"flag"
	"fmt"
	"math/rand"
	"os"
	"sort"
	"strings"
	"sync"
	"sync/atomic"
	"time"

	proto "github.com/kubewharf/kubebrain-client/api/v2rpc"

	"github.com/kubewharf/kubebrain/pkg/backend"
	"github.com/kubewharf/kubebrain/pkg/storage"

	"kbverif/gate"
	"kbverif/kb"
)

var regionSeq int64

// ---- behaviours of spec/KBSeq.tla ----

type seqOp struct {
	Op    string `json:"op"`
	K     int    `json:"k"`
	Exp   uint64 `json:"exp"`
	V     string `json:"v"`
	Succ  bool   `json:"succ"`
	Hdr   uint64 `json:"hdr"`
	KvRev uint64 `json:"kvrev"`
	KvVal string `json:"kvval"`
	Err   string `json:"err"`
	// compact
	Req   uint64 `json:"req"`
	Aged  int    `json:"aged"`
	Floor uint64 `json:"floor"`
	TExp  uint64 `json:"texp"`
	Crash int    `json:"crash"`
	Bad   int    `json:"bad"`
	Fk    string `json:"fk"`
	NDels int    `json:"ndels"`
}

type seqBehaviour struct {
	Base  uint64  `json:"base"`
	NKeys int     `json:"nkeys"`
	Ops   []seqOp `json:"ops"`
}

const STAR = "tombstone*"

func realVal(v string) string {
	if v == STAR {
		return "tombstone"
	}
	return v
}

// bound is a raw range bound with the number of the first key >= it.
type bound struct {
	raw  string
	ceil int
}

func boundsFor(env *kb.Env, nkeys int) []bound {
	bs := []bound{{env.Prefix + "/", 1}}
	for i := 1; i <= nkeys; i++ {
		k := string(env.Keys.Raw(i))
		bs = append(bs, bound{k, i}, bound{k + "%", i + 1})
	}
	bs = append(bs, bound{string(backend.PrefixEnd([]byte(env.Prefix + "/"))), nkeys + 1})
	return bs
}

type reader struct {
	lastErr string
	lastHdr uint64
	lastKvs []interface{}
	pname   string
	api     *api
	env     *kb.Env
	n       int
	agree   *[]string
	eng     string
	// fault marks the reads issued while a transient iterator error is armed (they may fail; if they answer, the answer counts)
	fault bool
}

func kvList(env *kb.Env, kvs []*proto.KeyValue) []interface{} {
	out := []interface{}{}
	for _, kv := range kvs {
		out = append(out, []interface{}{env.Keys.Num(kv.Key), gate.Clip(kv.Revision), string(kv.Value)})
	}
	return out
}

func errStr(err error) string {
	if err == nil {
		return ""
	}
	return "err"
}

func (r *reader) note(s string) {
	if r.agree != nil && !r.fault {
		*r.agree = append(*r.agree, s)
	}
}

func (r *reader) ap() *api {
	if r.api == nil {
		r.api = &api{env: r.env}
	}
	return r.api
}

func (r *reader) apiName() string {
	if r.api != nil && r.api.etcd != nil {
		return "etcd"
	}
	return "native"
}

func (r *reader) proc() string {
	if r.pname != "" {
		return r.pname
	}
	return "rd"
}

func (r *reader) get(k int, rev uint64) {
	env := r.env
	r.n++
	p := r.proc()
	env.Rec.Log(gate.Event{"e": "RInvoke", "p": p, "op": "get", "k": k, "lo": k, "hi": k + 1, "rev": gate.Clip(rev), "limit": 0, "pfx": -1, "fault": r.fault})
	rr := r.ap().get(env.Keys.Raw(k), rev)
	err := rr.err
	ev := gate.Event{"e": "RReturn", "p": p, "op": "get", "err": errStr(err), "hdr": 0, "kvs": []interface{}{}, "more": false, "count": 0, "api": r.apiName(), "ecount": -1}
	if err == nil {
		ev["hdr"] = gate.Clip(rr.hdr)
		ev["kvs"] = kvList(env, rr.kvs)
		if r.apiName() == "etcd" {
			ev["ecount"] = rr.count
		}
	}
	env.Rec.Log(ev)
	r.lastErr, r.lastHdr, r.lastKvs = errStr(err), rr.hdr, ev["kvs"].([]interface{})
	r.note(fmt.Sprintf("get k%d@%d -> %v %v", k, rev, ev["err"], ev["kvs"]))
}

func (r *reader) list(lo, hi bound, rev uint64, limit int64, pfx int) {
	env := r.env
	r.n++
	p := r.proc()
	env.Rec.Log(gate.Event{"e": "RInvoke", "p": p, "op": "list", "k": 0, "lo": lo.ceil, "hi": hi.ceil, "rev": gate.Clip(rev), "limit": limit, "pfx": pfx, "fault": r.fault,
		"rawlo": strings.TrimPrefix(lo.raw, env.Prefix), "rawhi": strings.TrimPrefix(hi.raw, env.Prefix)})
	rr := r.ap().list([]byte(lo.raw), []byte(hi.raw), rev, limit)
	err := rr.err
	ev := gate.Event{"e": "RReturn", "p": p, "op": "list", "err": errStr(err), "hdr": 0, "kvs": []interface{}{}, "more": false, "count": 0, "api": r.apiName(), "ecount": -1}
	if err == nil {
		ev["hdr"] = gate.Clip(rr.hdr)
		ev["kvs"] = kvList(env, rr.kvs)
		ev["more"] = rr.more
		if r.apiName() == "etcd" {
			ev["ecount"] = rr.count
		}
	}
	env.Rec.Log(ev)
	r.lastErr, r.lastHdr, r.lastKvs = errStr(err), rr.hdr, ev["kvs"].([]interface{})
	r.note(fmt.Sprintf("list [%d,%d)@%d lim %d -> %v %v %v", lo.ceil, hi.ceil, rev, limit, ev["err"], ev["kvs"], ev["more"]))
}

func (r *reader) count(lo, hi bound) {
	env := r.env
	r.n++
	p := "rd"
	env.Rec.Log(gate.Event{"e": "RInvoke", "p": p, "op": "count", "k": 0, "lo": lo.ceil, "hi": hi.ceil, "rev": 0, "limit": 0, "pfx": -1})
	rr := r.ap().count([]byte(lo.raw), []byte(hi.raw))
	err := rr.err
	ev := gate.Event{"e": "RReturn", "p": p, "op": "count", "err": errStr(err), "hdr": 0, "kvs": []interface{}{}, "more": false, "count": 0, "api": r.apiName(), "ecount": -1}
	if err == nil {
		ev["hdr"] = gate.Clip(rr.hdr)
		ev["count"] = int(rr.count)
	}
	env.Rec.Log(ev)
	r.note(fmt.Sprintf("count [%d,%d) -> %v %v", lo.ceil, hi.ceil, ev["err"], ev["count"]))
}

// streamRead reads one streamed range over internal keys [start,end).
func streamRead(env *kb.Env, start, end []byte, rev uint64) (kvs []interface{}, brevs []interface{}, terms int, serr string, ok bool) {
	kvs, brevs = []interface{}{}, []interface{}{}
	ch, err := env.B.ListByStream(context.Background(), start, end, rev)
	if err != nil {
		return kvs, brevs, 0, "err", true
	}
	timeout := time.After(10 * time.Second)
	for {
		select {
		case m, more := <-ch:
			if !more {
				return kvs, brevs, terms, serr, true
			}
			if m.RangeResponse == nil {
				continue
			}
			if !m.RangeResponse.More {
				terms++
				if m.Err != "" {
					serr = "err"
				}
				continue
			}
			brevs = append(brevs, gate.Clip(m.RangeResponse.Header.GetRevision()))
			kvs = append(kvs, kvList(env, m.RangeResponse.Kvs)...)
		case <-timeout:
			return kvs, brevs, terms, "timeout", false
		}
	}
}

func (r *reader) stream(lo, hi bound, rev uint64) {
	env := r.env
	r.n++
	p := "rd"
	env.Rec.Log(gate.Event{"e": "RInvoke", "p": p, "op": "stream", "k": 0, "lo": lo.ceil, "hi": hi.ceil, "rev": gate.Clip(rev), "limit": 0, "pfx": -1})
	kvs, brevs, terms, serr, _ := streamRead(env, kb.Coder.EncodeObjectKey([]byte(lo.raw), 0), kb.Coder.EncodeObjectKey([]byte(hi.raw), 0), rev)
	hdr := rev
	if rev == 0 {
		hdr = env.B.GetCurrentRevision()
	}
	env.Rec.Log(gate.Event{"e": "RReturn", "p": p, "op": "stream", "err": serr, "hdr": gate.Clip(hdr), "kvs": kvs, "more": false, "count": 0, "brevs": brevs, "terms": terms, "api": "native", "ecount": -1})
	// (a stream over several partitions delivers its batches in any order: the transcript line is order-free)
	sorted := append([]interface{}(nil), kvs...)
	sort.Slice(sorted, func(i, j int) bool { return fmt.Sprint(sorted[i]) < fmt.Sprint(sorted[j]) })
	r.note(fmt.Sprintf("stream [%d,%d)@%d -> %v %v %v", lo.ceil, hi.ceil, rev, serr, sorted, terms))
}

// sweep issues reads over the bounded space; frac < 1 samples it.
func (r *reader) sweep(rnd *rand.Rand, nkeys int, base, cur uint64, frac float64, streams bool) {
	bs := boundsFor(r.env, nkeys)
	revs := []uint64{0}
	for x := base + 1; x <= cur; x++ {
		revs = append(revs, x)
	}
	pick := func() bool { return frac >= 1 || rnd.Float64() < frac }
	for k := 1; k <= nkeys; k++ {
		for _, rev := range revs {
			if pick() {
				r.get(k, rev)
			}
		}
	}
	for i := range bs {
		for j := range bs {
			if bs[i].raw >= bs[j].raw {
				continue
			}
			for _, rev := range revs {
				for lim := int64(0); lim <= int64(nkeys)+1; lim++ {
					if pick() {
						pfx := -1
						if i == 0 && j == len(bs)-1 && lim == 0 {
							pfx = 0
						}
						r.list(bs[i], bs[j], rev, lim, pfx)
					}
				}
				if streams && pick() {
					r.stream(bs[i], bs[j], rev)
				}
			}
			if pick() {
				r.count(bs[i], bs[j])
			}
		}
	}
}

// faultSweep repeats point reads and limited range reads with one transient error of the engine's iterator armed (the
// first or the second Next of the read fails once): the read may fail, but an answer is judged like any other. (Unlimited
// lists, counts and streams start over after a second: those run in streambulk.)
func (r *reader) faultSweep(rnd *rand.Rand, nkeys int, base, cur uint64) int {
	env := r.env
	bs := boundsFor(env, nkeys)
	n := 0
	arm := func(nth int) {
		fired := false
		var mu sync.Mutex
		env.Store.IterFault = func(proc string, iter, k int) error {
			mu.Lock()
			defer mu.Unlock()
			if !fired && k == nth {
				fired = true
				return errors.New("injected transient iterator error")
			}
			return nil
		}
	}
	r.fault = true
	defer func() { r.fault = false; env.Store.IterFault = nil }()
	revs := []uint64{0, cur}
	if cur > base+1 {
		revs = append(revs, base+1+uint64(rnd.Intn(int(cur-base-1))))
	}
	for k := 1; k <= nkeys; k++ {
		for _, rev := range revs {
			arm(1)
			r.get(k, rev)
			n++
		}
	}
	for _, rev := range revs {
		for lim := int64(1); lim <= int64(nkeys); lim++ {
			arm(1 + rnd.Intn(3))
			r.list(bs[0], bs[len(bs)-1], rev, lim, -1)
			n++
		}
	}
	env.Store.IterFault = nil
	// the compaction record cannot be looked up (every point lookup of the engine fails for a while): a range read below the
	// floor is still not answered with data, and a compaction request naming an older revision does not lower the floor
	if fl := env.CompactRecord(); fl > base+1 {
		env.Store.GetFault = func(proc string) error { return errors.New("injected transient lookup error") }
		r.list(bs[0], bs[len(bs)-1], fl-1, 0, -1)
		r.list(bs[0], bs[len(bs)-1], fl-1, 1, -1)
		r.stream(bs[0], bs[len(bs)-1], fl-1)
		env.Rec.Log(gate.Event{"e": "CInvoke", "p": "c1", "rev": gate.Clip(fl - 1)})
		resp, err := env.B.Compact(context.Background(), fl-1)
		ev := gate.Event{"e": "CReturn", "p": "c1", "err": errStr(err), "hdr": 0, "minunc": 0}
		if err == nil && resp != nil && resp.Header != nil {
			ev["hdr"] = gate.Clip(resp.Header.Revision)
		}
		env.Rec.Log(ev)
		env.Store.GetFault = nil
		n += 4
	}
	return n
}

type seqReport struct {
	Histories     int            `json:"behaviours"`
	Agreed        int            `json:"agreed"`
	ObsMismatch   int            `json:"obs_mismatch"`
	Errors        int            `json:"errors"`
	Ops           int            `json:"steps"`
	Reads         int            `json:"reads"`
	Events        int            `json:"events"`
	Nontrivial    int            `json:"nontrivial"`
	OpCount       map[string]int `json:"action_count"`
	Samples       []string       `json:"samples"`
	MismatchNotes []string       `json:"mismatch_notes"`
	Engine        string         `json:"engine"`
	WallS         float64        `json:"wall_s"`
}

// runSeqHistory runs one history on one engine; returns events, transcript lines, mismatch notes.
func runSeqHistory(eng *kb.Engine, engName string, b *seqBehaviour, rnd *rand.Rand, frac float64, opt seqOptions) ([]gate.Event, []string, []string, int) {
	var notes []string
	if gate.IsWedged(eng.KV) {
		// (found not to answer in an earlier history of this process: every history says so, none hangs)
		return []gate.Event{{"e": "EngineWedged", "engine": engName}}, []string{"the engine no longer answers"}, []string{"engine wedged"}, 0
	}
	keyNames := defaultKeyNames[:b.NKeys]
	if opt.keyNames != nil {
		keyNames = opt.keyNames[:b.NKeys]
	}
	fixedPrefix := ""
	beyond := true
	if engName == "tikv-regions" {
		// prefixes in increasing order: every history lies beyond all region borders made so far, so that -- in every second
		// history, which gets no border beyond its prefix -- a scan of the prefix reaches the last region of the cluster, the
		// one whose end is unbounded
		n := atomic.AddInt64(&regionSeq, 1)
		fixedPrefix = fmt.Sprintf("/z%06d", n)
		beyond = n%2 == 0
	}
	// (a backend's background goroutines never end, so no backend of an earlier history is ever collected: keep what each one
	//  allocates small -- an event cache of 256 entries instead of the default 200000; a history has a few dozen events)
	env := kb.NewEnv(kb.Options{Engine: eng, KeyNames: keyNames, Gated: false, Base: b.Base, Record: true, Etcd: true, NoTTL: opt.noTTL, Partitions: opt.partitions, Prefix: fixedPrefix, CacheSize: 256, TrackAbandoned: true})
	defer env.Retire()
	env.Sched.Register("c1")
	store0, _ := env.Dump()
	if store0 == nil {
		store0 = []interface{}{}
	}
	exp := []interface{}{}
	for _, k := range opt.eventKeys {
		exp = append(exp, k)
	}
	env.Rec.Log(gate.Event{"e": "Init", "base": gate.Clip(b.Base), "nkeys": b.NKeys, "store": store0, "engine": engName,
		"prefixes": []interface{}{allKeys(b.NKeys)}, "expiring": exp, "ttl_ms": opt.ttlMs})
	lastCompact := time.Time{}
	oldestMark := time.Time{}
	inconclusive := false
	var transcript []string
	ap := newAPI(env, opt.api)
	rd := &reader{env: env, agree: &transcript, eng: engName, api: ap}
	// a watcher over everything from the first revision
	wctx, wcancel := context.WithCancel(context.Background())
	defer wcancel()
	env.Rec.Log(gate.Event{"e": "WatchInvoke", "w": "w0", "prefix": 0, "start": gate.Clip(b.Base + 1)})
	wch, werr := ap.watchAll(wctx, env.Prefix+"/", b.Base+1)
	env.Rec.Log(gate.Event{"e": "WatchReturn", "w": "w0", "prefix": 0, "start": gate.Clip(b.Base + 1), "ok": werr == nil})
	var evlines []string
	nsucc := 0 // successful writes so far
	drain := func() {
		if wch == nil {
			return
		}
		for {
			select {
			case batch, ok := <-wch:
				if !ok {
					env.Rec.Log(gate.Event{"e": "Closed", "w": "w0"})
					wch = nil
					return
				}
				evs := batch
				for _, x := range batch {
					e := x.([]interface{})
					evlines = append(evlines, fmt.Sprintf("event %v k%v@%v %q prev %v", e[0], e[1], e[2], e[3], e[4]))
				}
				env.Rec.Log(gate.Event{"e": "Recv", "w": "w0", "evs": evs})
			default:
				return
			}
		}
	}
	cur := b.Base
	for i, o := range b.Ops {
		if o.Op == "compact" {
			if opt.beforeCompact != nil {
				opt.beforeCompact(env, o)
			}
			if opt.ttlMs > 0 {
				ttl := time.Duration(opt.ttlMs) * time.Millisecond
				if o.Aged > 0 {
					// every compaction mark so far must be older than the TTL
					if !lastCompact.IsZero() {
						if d := ttl*13/10 - time.Since(lastCompact); d > 0 {
							time.Sleep(d)
						}
					}
					oldestMark = time.Time{}
				} else if !oldestMark.IsZero() && time.Since(oldestMark) > ttl*8/10 {
					inconclusive = true // a mark that the model keeps young has aged: timing not as modelled
				}
			}
			minunc := backend.VerifRetryMinRevision(env.B)
			// fault plan of this compaction: the bad-th issued deletion fails with outcome fk,
			// the worker dies when it is about to issue deletion number crash+1
			issued := 0
			env.Store.DelFault = func(proc string, nth int, e gate.Event) string {
				issued++
				if o.Fk != "" && o.Fk != "ok" && issued == o.Bad {
					return o.Fk
				}
				if o.Crash < o.NDels && issued == o.Crash+1 {
					return "die"
				}
				return ""
			}
			if engName == "tikv-regions" {
				// real region borders in the middle of the keys' versions BEFORE the compaction runs (every second revision: a key with
				// four versions has two consecutive borders inside its versions), so that its workers get partitions that start and
				// end inside one key
				for k := 1; k <= b.NKeys; k++ {
					for r := b.Base + 1; r <= cur; r += 2 {
						eng.SplitAt(env.InternalKey(k, r))
					}
				}
			}
			env.Rec.Log(gate.Event{"e": "CInvoke", "p": "c1", "req": gate.Clip(o.Req), "crash": o.Crash, "bad": o.Bad, "fk": o.Fk})
			resp, err := env.B.Compact(context.Background(), o.Req)
			hdr := uint64(0)
			if err == nil {
				hdr = resp.Header.GetRevision()
			}
			if env.Store.CheckAbandoned(); env.Store.Wedged() {
				// the engine stopped answering during this request (a batch begun and never committed: memkv keeps its store lock):
				// nothing after this point can be asked of it; the transcript says so and differs from every engine that still answers
				transcript = append(transcript, fmt.Sprintf("compact %d -> the engine no longer answers", o.Req))
				env.Rec.Log(gate.Event{"e": "EngineWedged", "engine": engName})
				return env.Rec.Events(), transcript, append(notes, "engine wedged after compact"), rd.n
			}
			env.Rec.Log(gate.Event{"e": "CReturn", "p": "c1", "req": gate.Clip(o.Req), "hdr": gate.Clip(hdr), "err": errStr(err), "minunc": gate.Clip(minunc)})
			env.Store.DelFault = nil
			lastCompact = time.Now()
			if oldestMark.IsZero() {
				oldestMark = lastCompact
			}
			transcript = append(transcript, fmt.Sprintf("compact %d -> %d %v", o.Req, hdr, errStr(err)))
			if err != nil || hdr != o.Hdr {
				notes = append(notes, fmt.Sprintf("op %d compact(%d): real hdr %d err %v, spec hdr %d", i, o.Req, hdr, err, o.Hdr))
			}
			if fl := env.CompactRecord(); fl != o.Floor {
				notes = append(notes, fmt.Sprintf("op %d compact(%d): real floor %d, spec floor %d", i, o.Req, fl, o.Floor))
			}
		} else {
			so := specOp{Type: o.Op, Key: o.K, Val: realVal(o.V), Exp: o.Exp}
			env.Rec.Log(gate.Event{"e": "Invoke", "p": "c1", "i": i + 1, "op": o.Op, "k": o.K, "exp": gate.Clip(o.Exp), "v": so.Val})
			r := ap.write(so)
			env.Rec.Log(gate.Event{"e": "Return", "p": "c1", "i": i + 1, "op": o.Op, "k": o.K, "exp": gate.Clip(o.Exp), "v": so.Val,
				"succ": r.Succ, "hdr": gate.Clip(r.Hdr), "kvrev": gate.Clip(r.KvRev), "kvval": r.KvVal, "err": r.Err})
			transcript = append(transcript, fmt.Sprintf("%s k%d exp %d %q -> succ %v hdr %d kv %d %q err %q", o.Op, o.K, o.Exp, so.Val, r.Succ, r.Hdr, r.KvRev, r.KvVal, r.Err))
			cur++
			if r.Succ {
				nsucc++
			}
			if r.Err != o.Err || (o.Err == "" && (r.Succ != o.Succ || r.Hdr != o.Hdr || r.KvRev != o.KvRev || (o.KvRev != 0 && r.KvVal != realVal(o.KvVal)))) {
				notes = append(notes, fmt.Sprintf("op %d %s k%d exp %d: real %+v spec %+v", i, o.Op, o.K, o.Exp, r, o))
			}
			if !env.WaitCommitted(cur, 2*time.Second) {
				notes = append(notes, fmt.Sprintf("op %d: committed revision stuck at %d, expected %d", i, env.B.GetCurrentRevision(), cur))
			}
		}
		drain()
		if opt.afterOp != nil {
			opt.afterOp(env, i, o, rd)
		}
		last := i == len(b.Ops)-1
		if last && engName == "tikv-regions" {
			// real TiKV regions with borders on index records and in the middle of the keys' versions
			for k := 1; k <= b.NKeys; k++ {
				for r := b.Base + 1; r <= cur; r += 2 {
					eng.SplitAt(env.InternalKey(k, r))
				}
				if k%2 == 0 {
					eng.SplitAt(env.InternalKey(k, 0))
				}
			}
			// ... and a region border BEYOND the end of the prefix, with a foreign record between the two: the last
			// region that overlaps a scan of the prefix then ends after the scan does
			if beyond {
				eng.SplitAt(kb.Coder.EncodeObjectKey([]byte(env.Prefix+"1/zz"), 0))
				fb := eng.KV.BeginBatchWrite()
				fb.Put(kb.Coder.EncodeObjectKey([]byte(env.Prefix+"1/a"), 1), []byte("foreign"), 0)
				fb.Commit(context.Background())
			}
		}
		if last {
			rd.sweep(rnd, b.NKeys, b.Base, cur, opt.finalFrac, opt.streams)
			if opt.readFaults {
				rd.faultSweep(rnd, b.NKeys, b.Base, cur)
			}
		} else if frac > 0 {
			rd.sweep(rnd, b.NKeys, b.Base, cur, frac, opt.streams)
		}
	}
	// the event stream is asynchronous: every successful write yields one event on this watch; wait for them (a
	// fixed quiet period alone loses the last event when the machine is busy), then until nothing arrives for a while
	for deadline := time.Now().Add(3 * time.Second); wch != nil && len(evlines) < nsucc && time.Now().Before(deadline); {
		drain()
		time.Sleep(200 * time.Microsecond)
	}
	for quiet, n0 := 0, -1; quiet < 10; {
		drain()
		if len(evlines) == n0 {
			quiet++
		} else {
			quiet, n0 = 0, len(evlines)
		}
		time.Sleep(200 * time.Microsecond)
	}
	transcript = append(transcript, evlines...)
	if inconclusive {
		return nil, nil, []string{"inconclusive timing"}, rd.n
	}
	env.Rec.Log(gate.Event{"e": "Quiesce", "committed": gate.Clip(env.B.GetCurrentRevision()), "returned": true, "retryq": backend.VerifRetryQueueSize(env.B)})
	return env.Rec.Events(), transcript, notes, rd.n
}

func allKeys(n int) []interface{} {
	out := []interface{}{}
	for i := 1; i <= n; i++ {
		out = append(out, i)
	}
	return out
}

type seqOptions struct {
	ttlMs         int
	api           string // "" = native backend, "etcd" = through the etcd-compatible server
	noTTL         bool
	streams       bool
	readFaults    bool
	finalFrac     float64
	keyNames      []string
	eventKeys     []int
	partitions    func(start, end []byte) []storage.Partition
	beforeCompact func(env *kb.Env, o seqOp)
	afterOp       func(env *kb.Env, i int, o seqOp, rd *reader)
}

// cmdSeqRun replays sequential histories of spec/KBSeq.tla on one or several engines.
func cmdSeqRun(args []string) int {
	fs := flag.NewFlagSet("seqrun", flag.ExitOnError)
	in := fs.String("in", "", "behaviours")
	out := fs.String("out", "", "trace output")
	report := fs.String("report", "", "report output")
	engine := fs.String("engine", "memkv", "engine, or comma separated list (then an agreement transcript is written)")
	agree := fs.String("agree", "", "agreement trace output (several engines)")
	readFaults := fs.Bool("readfaults", false, "after the final sweep: point and limited reads under one transient iterator error")
	shard := fs.Int("shard", 0, "shard")
	shards := fs.Int("shards", 1, "shards")
	seed := fs.Int64("seed", 1, "seed")
	frac := fs.Float64("frac", 0.05, "fraction of the read space sampled after every operation")
	finalFrac := fs.Float64("finalfrac", 1.0, "fraction of the read space read at the end of a history")
	streams := fs.Bool("streams", true, "include streamed ranges")
	apiKind := fs.String("api", "", "\"etcd\": issue the requests through the etcd-compatible server")
	ttlSec := fs.Int("ttl", 0, "TTL of Event records in seconds (0: default); enables the expiry scenarios")
	keyset := fs.String("keyset", "", "\"events\": key names with Event records and look-alikes")
	fs.Parse(args)
	kb.QuietLogs()
	backend.VerifSetRetryIntervals(0, time.Millisecond)
	if *ttlSec > 0 {
		backend.VerifSetEventsTTL(int64(*ttlSec))
	}
	var keyNames []string
	var eventKeys []int
	if *keyset == "events" {
		keyNames = []string{"/a", "/events/n/e1", "/events/n/e2", "/pods/events/p1"}
		eventKeys = []int{2, 3}
	}
	if *keyset == "events2" {
		// the non-event keys are siblings of the events directory whose names start with "events"
		keyNames = []string{"/events.example.io/w0", "/events/n/e1", "/events/n/e2", "/eventsinks/s1"}
		eventKeys = []int{2, 3}
	}
	names := strings.Split(*engine, ",")
	engs := map[string]*kb.Engine{}
	for _, n := range names {
		e, err := kb.NewEngine(n)
		if err != nil {
			fmt.Println(err)
			return 2
		}
		defer e.Close()
		engs[n] = e
	}
	f, err := os.Open(*in)
	if err != nil {
		fmt.Println(err)
		return 2
	}
	defer f.Close()
	w, err := os.Create(*out)
	if err != nil {
		fmt.Println(err)
		return 2
	}
	bw := bufio.NewWriterSize(w, 1<<20)
	var aw *bufio.Writer
	if *agree != "" {
		af, err := os.Create(*agree)
		if err != nil {
			fmt.Println(err)
			return 2
		}
		defer af.Close()
		aw = bufio.NewWriterSize(af, 1<<20)
		defer aw.Flush()
	}
	rep := &seqReport{OpCount: map[string]int{}, Engine: *engine}
	start := time.Now()
	sc := bufio.NewScanner(f)
	sc.Buffer(make([]byte, 1<<20), 1<<26)
	n := 0
	for sc.Scan() {
		line := sc.Text()
		if strings.TrimSpace(line) == "" {
			continue
		}
		n++
		if (n-1)%*shards != *shard {
			continue
		}
		var b seqBehaviour
		if err := json.Unmarshal([]byte(line), &b); err != nil {
			rep.Errors++
			continue
		}
		rep.Histories++
		if len(b.Ops) >= 2 {
			rep.Nontrivial++
		}
		if len(rep.Samples) < 2 {
			rep.Samples = append(rep.Samples, line)
		}
		for _, o := range b.Ops {
			rep.OpCount[o.Op]++
			rep.Ops++
		}
		bad := false
		for _, en := range names {
			rnd := rand.New(rand.NewSource(*seed*7919 + int64(n)))
			evs, transcript, notes, reads := runSeqHistory(engs[en], en, &b, rnd, *frac, seqOptions{readFaults: *readFaults, streams: *streams && *apiKind == "", finalFrac: *finalFrac, api: *apiKind, ttlMs: *ttlSec * 1000, keyNames: keyNames, eventKeys: eventKeys})
			rep.Reads += reads
			rep.Events += len(evs)
			for _, e := range evs {
				bs, _ := json.Marshal(e)
				bw.Write(bs)
				bw.WriteByte('\n')
			}
			bw.WriteString("{\"e\":\"Reset\"}\n")
			if len(notes) > 0 {
				bad = true
				if len(rep.MismatchNotes) < 10 {
					rep.MismatchNotes = append(rep.MismatchNotes, en+": "+strings.Join(notes, " | "))
				}
			}
			if aw != nil {
				for i, t := range transcript {
					bs, _ := json.Marshal(gate.Event{"e": "Resp", "h": n, "i": i + 1, "eng": en, "r": t})
					aw.Write(bs)
					aw.WriteByte('\n')
				}
				bs, _ := json.Marshal(gate.Event{"e": "Done", "h": n, "eng": en, "n": len(transcript)})
				aw.Write(bs)
				aw.WriteByte('\n')
			}
		}
		if aw != nil {
			aw.WriteString("{\"e\":\"Reset\"}\n")
		}
		if bad {
			rep.ObsMismatch++
		} else {
			rep.Agreed++
		}
	}
	bw.Flush()
	w.Close()
	rep.WallS = time.Since(start).Seconds()
	if *report != "" {
		bs, _ := json.MarshalIndent(rep, "", " ")
		os.WriteFile(*report, bs, 0644)
	}
	fmt.Printf("seqrun engines=%s histories=%d agreed=%d obs_mismatch=%d ops=%d reads=%d events=%d wall=%.1fs\n",
		*engine, rep.Histories, rep.Agreed, rep.ObsMismatch, rep.Ops, rep.Reads, rep.Events, rep.WallS)
	for _, m := range rep.MismatchNotes {
		fmt.Println("  NOTE", m)
	}
	if rep.Errors > 0 {
		return 2
	}
	return 0
}
