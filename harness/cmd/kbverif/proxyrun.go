package main

import (
	"bufio"
	"context"
	"encoding/json"
	"flag"
	"fmt"
	"net"
	"os"
	"strings"
	"sync"
	"time"

	proto "github.com/kubewharf/kubebrain-client/api/v2rpc"
	"go.etcd.io/etcd/api/v3/etcdserverpb"
	"go.etcd.io/etcd/api/v3/mvccpb"
	"google.golang.org/grpc"
	"k8s.io/client-go/tools/leaderelection/resourcelock"

	"github.com/kubewharf/kubebrain/pkg/backend"
	"github.com/kubewharf/kubebrain/pkg/server/etcd"
	"github.com/kubewharf/kubebrain/pkg/server/service/etcdproxy"
	"github.com/kubewharf/kubebrain/pkg/server/service/leader"

	"kbverif/gate"
	"kbverif/kb"
)

// cmdProxyRun (C18, part 3): behaviours of spec/Proxy.tla executed on the REAL etcd proxy of a follower
// (pkg/server/service/etcdproxy) against two real etcd gRPC servers over one store. Leadership, the follower's election
// view and the death of a node are scripted; the proxy's own loop is left running and observed.
type proxyStep struct {
	A string `json:"a"`
	N string `json:"n"`
}
type proxyBehaviour struct {
	Steps []proxyStep `json:"steps"`
}

// named lock: the refusal of a node that does not lead names the node ("txn error addr is <identity> ...")
type namedLock struct {
	resourcelock.Interface
	name string
}

func (n namedLock) Identity() string { return n.name }

type nodeBackend struct {
	*recBackend
	name string
}

func (n *nodeBackend) GetResourceLock() resourcelock.Interface {
	return namedLock{Interface: n.recBackend.Backend.GetResourceLock(), name: "node-" + n.name}
}

type proxyNode struct {
	name  string
	rb    *nodeBackend
	peers *peerStub
	srv   *grpc.Server
	addr  string
	up    bool
}

// followerPeers: a scripted election view, the REAL etcd proxy, reads never used here
type followerPeers struct {
	*leader.Stub
	etcdproxy.EtcdProxy
}

func (f *followerPeers) SyncReadRevision() error { return fmt.Errorf("unused") }
func (f *followerPeers) Close() error            { return nil }

type pxWatch struct {
	id       int
	ws       *fakeWatchStream
	cancel   context.CancelFunc
	events   []*mvccpb.Event
	created  bool
	canceled bool
	done     chan error
	from     int // index into acked at which the watch was started
	mu       sync.Mutex
}

func (w *pxWatch) pump() {
	for {
		select {
		case r := <-w.ws.resps:
			w.mu.Lock()
			if r.Created {
				w.created = true
			}
			if r.Canceled {
				w.canceled = true
			}
			w.events = append(w.events, r.Events...)
			w.mu.Unlock()
		case <-w.ws.ctx.Done():
			return
		}
	}
}

func cmdProxyRun(args []string) int {
	fs := flag.NewFlagSet("proxyrun", flag.ExitOnError)
	in := fs.String("in", "", "behaviours of Proxy.tla")
	out := fs.String("out", "", "trace output")
	report := fs.String("report", "", "report output")
	shard := fs.Int("shard", 0, "shard")
	shards := fs.Int("shards", 1, "shards")
	fs.String("engine", "memkv", "unused")
	fs.Parse(args)
	kb.QuietLogs()
	backend.VerifSetRetryIntervals(0, time.Millisecond)
	f, err := os.Open(*in)
	if err != nil {
		fmt.Println(err)
		return 2
	}
	defer f.Close()
	w, err := os.Create(*out)
	if err != nil {
		fmt.Println(err)
		return 2
	}
	defer w.Close()
	eng, err := kb.NewEngine("memkv")
	if err != nil {
		fmt.Println(err)
		return 2
	}
	defer eng.Close()
	sc := bufio.NewScanner(f)
	sc.Buffer(make([]byte, 1<<20), 1<<26)
	nb, idx := 0, -1
	for sc.Scan() {
		idx++
		if idx%*shards != *shard {
			continue
		}
		var b proxyBehaviour
		if err := json.Unmarshal(sc.Bytes(), &b); err != nil {
			fmt.Println("bad behaviour:", err)
			return 2
		}
		evs, ok := runProxyBehaviour(eng, &b)
		if !ok {
			fmt.Println("proxyrun: set-up failed")
			return 2
		}
		for _, ev := range evs {
			bs, _ := json.Marshal(ev)
			w.Write(append(bs, '\n'))
		}
		w.WriteString("{\"e\":\"Reset\"}\n")
		nb++
	}
	if *report != "" {
		bs, _ := json.Marshal(map[string]interface{}{"behaviours": nb, "nontrivial": nb, "agreed": nb})
		os.WriteFile(*report, bs, 0644)
	}
	fmt.Printf("proxyrun behaviours=%d\n", nb)
	return 0
}

func runProxyBehaviour(eng *kb.Engine, b *proxyBehaviour) ([]gate.Event, bool) {
	env := kb.NewEnv(kb.Options{Engine: eng, KeyNames: []string{"/px"}, Gated: false, Record: false, Base: 100, Etcd: true})
	defer env.Retire()
	ctx, cancelAll := context.WithCancel(context.Background())
	defer cancelAll()
	nodes := map[string]*proxyNode{}
	for _, name := range []string{"a", "b"} {
		n := &proxyNode{name: name, up: true}
		n.rb = &nodeBackend{recBackend: &recBackend{Backend: env.B}, name: name}
		n.peers = &peerStub{Stub: leader.Stub{ElectionInfo: leader.ElectionInfo{LeaderAddress: "", IsLeader: false}}}
		es := etcd.New(n.rb, kb.Metrics(), n.peers)
		n.srv = grpc.NewServer()
		es.Register(n.srv)
		lis, err := net.Listen("tcp", "127.0.0.1:0")
		if err != nil {
			return nil, false
		}
		n.addr = lis.Addr().String()
		go n.srv.Serve(lis)
		nodes[name] = n
	}
	defer func() {
		for _, n := range nodes {
			if n.up {
				n.srv.Stop()
			}
		}
	}()
	addrOf := func(name string) string {
		if n, ok := nodes[name]; ok {
			return n.addr
		}
		return ""
	}
	// model state, kept only to know what to wait for (the trace specification recomputes it)
	mleader, mview, mconn := "", "", ""
	setLeader := func(name string) {
		mleader = name
		for _, n := range nodes {
			n.peers.mu.Lock()
			n.peers.Stub.ElectionInfo.IsLeader = n.name == name
			n.peers.mu.Unlock()
		}
	}
	// the initial state of the model: somebody leads, the follower knows and is connected
	init0 := "a"
	for _, s := range b.Steps {
		if s.A == "Init" {
			init0 = s.N
		}
	}
	setLeader(init0)
	mview, mconn = init0, init0
	stub := &leader.Stub{ElectionInfo: leader.ElectionInfo{LeaderAddress: addrOf(init0), IsLeader: false}}
	frb := &recBackend{Backend: env.B}
	proxy := etcdproxy.NewEtcdProxy(stub, nil)
	fes := etcd.New(frb, kb.Metrics(), &followerPeers{Stub: stub, EtcdProxy: proxy})
	defer func() { stub.ElectionInfo.LeaderAddress = "" }()

	nkey := 0
	freshKey := func() []byte { nkey++; return []byte(fmt.Sprintf("%s/px/k%03d", env.Prefix, nkey)) }
	type ack struct {
		key string
		rev int64
	}
	var acked []ack
	writesOf := func() map[string]int {
		m := map[string]int{"f": frb.writes}
		for _, n := range nodes {
			m[n.name] = n.rb.writes
		}
		return m
	}
	// probe: creating a key outside the watched prefix (it exists after the first time: the answer is then "not succeeded",
	// without an error) tells where the follower's client points
	probe := func() string {
		c, cancel := context.WithTimeout(ctx, 2*time.Second)
		defer cancel()
		key := []byte(env.Prefix + "/probe")
		_, err := fes.Txn(c, &etcdserverpb.TxnRequest{Compare: []*etcdserverpb.Compare{cmpMod(key, 0)},
			Success: []*etcdserverpb.RequestOp{opPut(key, []byte("p"))}, Failure: []*etcdserverpb.RequestOp{opRange(key)}})
		switch {
		case err == nil:
			return "leader"
		case strings.Contains(err.Error(), "txn error addr is node-a"):
			return "a"
		case strings.Contains(err.Error(), "txn error addr is node-b"):
			return "b"
		case strings.Contains(err.Error(), "no ready right now"):
			return "none"
		}
		return "dead"
	}
	expectObs := func(conn string) string {
		switch {
		case conn == "":
			return "none"
		case !nodes[conn].up:
			return "dead"
		case conn == mleader:
			return "leader"
		}
		return conn
	}
	var evs []gate.Event
	name := func(s string) string {
		if s == "" {
			return "none"
		}
		return s
	}
	var watches []*pxWatch
	watchState := func(wt *pxWatch, settle bool) gate.Event {
		if settle {
			// until the watch is ended or has everything that was acknowledged since it began -- or for a while: a watch
			// that goes through a client pointing at a node that does not lead is neither (requests at the follower also
			// wait while the proxy's loop tries a node that does not answer: up to a second a round)
			for t0 := time.Now(); time.Since(t0) < 2500*time.Millisecond; time.Sleep(20 * time.Millisecond) {
				wt.mu.Lock()
				done := wt.canceled || len(wt.events) >= len(acked)-wt.from
				wt.mu.Unlock()
				if done && time.Since(t0) > 300*time.Millisecond {
					break
				}
			}
		}
		wt.mu.Lock()
		defer wt.mu.Unlock()
		// the delivered events against the acknowledged writes since the watch began
		exp := acked[wt.from:]
		pos := map[string]int{}
		for i, a := range exp {
			pos[a.key] = i
		}
		wrong, disorder, dups, lastPos := 0, 0, 0, -1
		seen := map[string]int{}
		for _, e := range wt.events {
			k := string(e.Kv.Key)
			p, ok := pos[k]
			if !ok || e.Type != mvccpb.PUT || e.Kv.ModRevision != exp[p].rev {
				wrong++
				continue
			}
			seen[k]++
			if seen[k] > 1 {
				dups++
			}
			if p <= lastPos {
				disorder++
			}
			lastPos = p
		}
		holes, missing, firstMissing := 0, 0, -1
		for i, a := range exp {
			if seen[a.key] == 0 {
				missing++
				if firstMissing < 0 {
					firstMissing = i
				}
			}
		}
		if firstMissing >= 0 {
			for _, a := range exp[firstMissing:] {
				if seen[a.key] > 0 {
					holes++
				}
			}
		}
		return gate.Event{"e": "X", "a": "WatchState", "n": "", "id": wt.id, "created": wt.created, "canceled": wt.canceled, "delivered": len(wt.events),
			"expected": len(exp), "missing": missing, "holes": holes, "wrong": wrong, "dups": dups, "disorder": disorder, "fwatch": frb.watch, "fwrites": frb.writes}
	}
	evs = append(evs, gate.Event{"e": "X", "a": "Init", "n": init0})
	for _, s := range b.Steps {
		switch s.A {
		case "Init":
		case "LeaderChange":
			n := s.N
			if n == "none" {
				n = ""
			}
			setLeader(n)
			evs = append(evs, gate.Event{"e": "X", "a": "LeaderChange", "n": name(n)})
		case "ViewUpdate":
			mview = mleader
			stub.ElectionInfo.LeaderAddress = addrOf(mview)
			evs = append(evs, gate.Event{"e": "X", "a": "ViewUpdate", "n": name(mview)})
		case "Down":
			n := nodes[s.N]
			if n.up {
				n.up = false
				n.srv.Stop()
			}
			if mleader == s.N {
				setLeader("")
			}
			evs = append(evs, gate.Event{"e": "X", "a": "Down", "n": s.N})
		case "Tick":
			// the model's successor state; the real loop runs once a second: wait until the probe shows it (or give up and
			// report what is there)
			// the real loop runs on its own clock, once a second, also between the steps of this script: wait for the
			// fixed point of the model's rounds (a dead client dropped, the view adopted), which it reaches by itself
			for i := 0; i < 3; i++ {
				dead := mconn != "" && !nodes[mconn].up
				moved := mview != "" && mview != mconn
				switch {
				case dead:
					mconn = ""
				case moved:
					if nodes[mview].up {
						mconn = mview
					} else {
						mconn = ""
					}
				}
			}
			want := expectObs(mconn)
			obs := ""
			time.Sleep(1100 * time.Millisecond) // (at least one round of the loop)
			for t0 := time.Now(); ; time.Sleep(150 * time.Millisecond) {
				obs = probe()
				if obs == want || time.Since(t0) > 12*time.Second {
					break
				}
			}
			evs = append(evs, gate.Event{"e": "X", "a": "Tick", "n": name(mconn), "obs": obs})
			// the watches that went through a replaced client: give their cancellation time to arrive
			time.Sleep(200 * time.Millisecond)
			for _, wt := range watches {
				evs = append(evs, watchState(wt, true))
			}
		case "Txn":
			before := writesOf()
			key := freshKey()
			c, cancel := context.WithTimeout(ctx, 3*time.Second)
			resp, err := fes.Txn(c, &etcdserverpb.TxnRequest{Compare: []*etcdserverpb.Compare{cmpMod(key, 0)},
				Success: []*etcdserverpb.RequestOp{opPut(key, []byte("v"))}, Failure: []*etcdserverpb.RequestOp{opRange(key)}})
			cancel()
			after := writesOf()
			by := "none"
			for _, nn := range []string{"a", "b", "f"} {
				if after[nn] > before[nn] {
					by = nn
				}
			}
			ok := err == nil && resp != nil && resp.Succeeded
			var respRev, storedRev int64
			stored := ""
			if ok {
				respRev = resp.Header.GetRevision()
			}
			env.WaitCommitted(uint64(respRev), time.Second)
			if g, gerr := env.B.Get(ctx, &proto.GetRequest{Key: key}); gerr == nil && g.Kv != nil {
				storedRev, stored = int64(g.Kv.Revision), string(g.Kv.Value)
			}
			if ok {
				acked = append(acked, ack{string(key), respRev})
			}
			evs = append(evs, gate.Event{"e": "X", "a": "Txn", "n": name(mconn), "ok": ok, "by": by, "resp_rev": gate.Clip(uint64(respRev)), "stored_rev": gate.Clip(uint64(storedRev)),
				"stored": stored, "fwrites": frb.writes, "fwatch": frb.watch})
		case "Write":
			if mleader == "" {
				continue
			}
			key := freshKey()
			es := etcd.New(nodes[mleader].rb, kb.Metrics(), nodes[mleader].peers)
			c, cancel := context.WithTimeout(ctx, 3*time.Second)
			resp, err := es.Txn(c, &etcdserverpb.TxnRequest{Compare: []*etcdserverpb.Compare{cmpMod(key, 0)},
				Success: []*etcdserverpb.RequestOp{opPut(key, []byte("v"))}, Failure: []*etcdserverpb.RequestOp{opRange(key)}})
			cancel()
			ok := err == nil && resp.Succeeded
			if ok {
				acked = append(acked, ack{string(key), resp.Header.GetRevision()})
				env.WaitCommitted(uint64(resp.Header.GetRevision()), time.Second)
			}
			evs = append(evs, gate.Event{"e": "X", "a": "Write", "n": name(mleader), "ok": ok})
		case "StartWatch":
			// (from the next revision on: a watch "from now" (0) may or may not see a write that was acknowledged a moment ago)
			startRev := int64(env.B.GetCurrentRevision()) + 1
			wctx, wcancel := context.WithCancel(ctx)
			wt := &pxWatch{id: len(watches) + 1, ws: newFakeWatchStream(wctx), cancel: wcancel, done: make(chan error, 1), from: len(acked)}
			go wt.pump()
			go func() { wt.done <- fes.Watch(wt.ws) }()
			pfx := []byte(env.Prefix + "/px/")
			wt.ws.reqs <- &etcdserverpb.WatchRequest{RequestUnion: &etcdserverpb.WatchRequest_CreateRequest{
				CreateRequest: &etcdserverpb.WatchCreateRequest{Key: pfx, RangeEnd: backend.PrefixEnd(pfx), StartRevision: startRev}}}
			time.Sleep(400 * time.Millisecond)
			watches = append(watches, wt)
			ev := watchState(wt, false)
			ev["a"] = "StartWatch"
			ev["n"] = name(mconn)
			evs = append(evs, ev)
		}
	}
	// the end: everything that was acknowledged has had time to travel
	time.Sleep(300 * time.Millisecond)
	for _, wt := range watches {
		ev := watchState(wt, true)
		ev["a"] = "WatchEnd"
		evs = append(evs, ev)
		wt.cancel()
	}
	return evs, true
}
