package main

import (
	"context"
	"encoding/json"
	"errors"
	"flag"
	"fmt"
	"net/http"
	"net/http/httptest"
	"os"
	"strings"
	"sync"
	"time"

	"go.etcd.io/etcd/api/v3/etcdserverpb"
	"google.golang.org/grpc/codes"
	"google.golang.org/grpc/metadata"
	"google.golang.org/grpc/status"
	"k8s.io/client-go/tools/leaderelection/resourcelock"

	proto "github.com/kubewharf/kubebrain-client/api/v2rpc"

	"github.com/kubewharf/kubebrain/pkg/backend"
	"github.com/kubewharf/kubebrain/pkg/server"
	"github.com/kubewharf/kubebrain/pkg/server/brain"
	"github.com/kubewharf/kubebrain/pkg/server/etcd"
	"github.com/kubewharf/kubebrain/pkg/server/service/leader"
	"github.com/kubewharf/kubebrain/pkg/server/service/revision"

	"kbverif/gate"
	"kbverif/kb"
)

// recBackend wraps a real backend and counts which kinds of methods the handlers reach.
type recBackend struct {
	backend.Backend
	mu     sync.Mutex
	writes int
	watch  int
	reads  int
	sets   []uint64
	order  []string // "set" / "read" in call order
}

func (r *recBackend) note(kind string) {
	r.mu.Lock()
	switch kind {
	case "write":
		r.writes++
	case "watch":
		r.watch++
	case "read":
		r.reads++
		r.order = append(r.order, "read")
	}
	r.mu.Unlock()
}
func (r *recBackend) Create(ctx context.Context, q *proto.CreateRequest) (*proto.CreateResponse, error) {
	r.note("write")
	return r.Backend.Create(ctx, q)
}
func (r *recBackend) Update(ctx context.Context, q *proto.UpdateRequest) (*proto.UpdateResponse, error) {
	r.note("write")
	return r.Backend.Update(ctx, q)
}
func (r *recBackend) Delete(ctx context.Context, q *proto.DeleteRequest) (*proto.DeleteResponse, error) {
	r.note("write")
	return r.Backend.Delete(ctx, q)
}
func (r *recBackend) Compact(ctx context.Context, rev uint64) (*proto.CompactResponse, error) {
	r.note("write")
	return r.Backend.Compact(ctx, rev)
}
func (r *recBackend) Get(ctx context.Context, q *proto.GetRequest) (*proto.GetResponse, error) {
	r.note("read")
	return r.Backend.Get(ctx, q)
}
func (r *recBackend) List(ctx context.Context, q *proto.RangeRequest) (*proto.RangeResponse, error) {
	r.note("read")
	return r.Backend.List(ctx, q)
}
func (r *recBackend) Count(ctx context.Context, q *proto.CountRequest) (*proto.CountResponse, error) {
	r.note("read")
	return r.Backend.Count(ctx, q)
}
func (r *recBackend) GetPartitions(ctx context.Context, q *proto.ListPartitionRequest) (*proto.ListPartitionResponse, error) {
	r.note("read")
	return r.Backend.GetPartitions(ctx, q)
}
func (r *recBackend) ListByStream(ctx context.Context, s, e []byte, rev uint64) (<-chan *proto.StreamRangeResponse, error) {
	r.note("read")
	return r.Backend.ListByStream(ctx, s, e, rev)
}
func (r *recBackend) Watch(ctx context.Context, key string, rev uint64) (<-chan []*proto.Event, error) {
	r.note("watch")
	return r.Backend.Watch(ctx, key, rev)
}
func (r *recBackend) SetCurrentRevision(rev uint64) {
	r.mu.Lock()
	r.sets = append(r.sets, rev)
	r.order = append(r.order, "set")
	r.mu.Unlock()
	r.Backend.SetCurrentRevision(rev)
}
func (r *recBackend) GetResourceLock() resourcelock.Interface { return r.Backend.GetResourceLock() }

// realPeers: the REAL revision syncer against an HTTP /status endpoint, a scripted role, a
// recording proxy.
type realPeers struct {
	*peerStub
	syncer revision.RevisionSyncer
}

func (p *realPeers) SyncReadRevision() error {
	p.mu.Lock()
	p.syncCalls++
	p.mu.Unlock()
	return p.syncer.SyncReadRevision()
}

// fake brain streams
type fakeBrainStream struct{ ctx context.Context }

func (f *fakeBrainStream) SetHeader(metadata.MD) error  { return nil }
func (f *fakeBrainStream) SendHeader(metadata.MD) error { return nil }
func (f *fakeBrainStream) SetTrailer(metadata.MD)       {}
func (f *fakeBrainStream) Context() context.Context     { return f.ctx }
func (f *fakeBrainStream) SendMsg(m interface{}) error  { return nil }
func (f *fakeBrainStream) RecvMsg(m interface{}) error  { return errors.New("unused") }

type fakeRangeStream struct {
	fakeBrainStream
	n int
}

func (f *fakeRangeStream) Send(*proto.StreamRangeResponse) error { f.n++; return nil }

type fakeBrainWatch struct {
	fakeBrainStream
	n int
}

func (f *fakeBrainWatch) Send(*proto.WatchResponse) error { f.n++; return nil }

// cmdRoleRun (C18, part 1): every request type of both APIs x {leader, follower} x {proxy on,
// off} x {leader reachable, unreachable, answering with an error} on the real handlers with a
// recording backend, the real revision syncer and a scripted leader.
func cmdRoleRun(args []string) int {
	fs := flag.NewFlagSet("rolerun", flag.ExitOnError)
	out := fs.String("out", "", "trace output")
	report := fs.String("report", "", "report output")
	engine := fs.String("engine", "memkv", "engine")
	fs.Parse(args)
	kb.QuietLogs()
	backend.VerifSetRetryIntervals(0, time.Millisecond)
	eng, err := kb.NewEngine(*engine)
	if err != nil {
		fmt.Println(err)
		return 2
	}
	defer eng.Close()
	var leaderRev uint64 = 777
	// the "leader": an HTTP endpoint that answers /status like server.revisionHandler does
	mode := "reachable"
	var modeMu sync.Mutex
	// the leader's and a non-leader's /status are the REAL handlers of two real servers (pkg/server) over one store:
	// the first node wins the election (brain.New starts the campaign), the second one stays a follower and refuses
	lenv := kb.NewEnv(kb.Options{Engine: eng, KeyNames: defaultKeyNames, Gated: false, Record: false, Base: 100, Etcd: true, Prefix: "/roleleader", Identity: "leader-node"})
	lsrv := server.NewServer(lenv.B, kb.Metrics(), server.Config{})
	lstatus := lsrv.GetPeerHttpHandlers()["/status"]
	isLeader := func(h http.Handler) bool {
		rr := httptest.NewRecorder()
		h.ServeHTTP(rr, httptest.NewRequest("GET", "/status", nil))
		return rr.Code == 200
	}
	for t0 := time.Now(); !isLeader(lstatus); time.Sleep(20 * time.Millisecond) {
		if time.Since(t0) > 10*time.Second {
			fmt.Println("the leader node did not win its election in time")
			return 2
		}
	}
	lenv.B.SetCurrentRevision(leaderRev)
	leaderRev = lenv.B.GetCurrentRevision() // (the committed revision only rises: what the leader's /status answers is this)
	fenv := kb.NewEnv(kb.Options{Engine: eng, KeyNames: defaultKeyNames, Gated: false, Record: false, Base: 100, Etcd: true, Prefix: "/roleleader", Identity: "other-node"})
	fstatus := server.NewServer(fenv.B, kb.Metrics(), server.Config{}).GetPeerHttpHandlers()["/status"]
	srv := httptest.NewServer(http.HandlerFunc(func(w http.ResponseWriter, req *http.Request) {
		modeMu.Lock()
		m := mode
		modeMu.Unlock()
		if m == "error" {
			fstatus.ServeHTTP(w, req) // a node that is not the leader
			return
		}
		if m == "cut" {
			// a leader that dies after the head of its answer: 200 OK, a body announced, the connection closed in the middle of it
			if hj, ok := w.(http.Hijacker); ok {
				if conn, buf, err := hj.Hijack(); err == nil {
					buf.WriteString("HTTP/1.1 200 OK\r\nContent-Type: application/json\r\nContent-Length: 64\r\n\r\n{\"rev")
					buf.Flush()
					conn.Close()
					return
				}
			}
		}
		lstatus.ServeHTTP(w, req)
	}))
	defer srv.Close()
	deadSrv := httptest.NewServer(http.NotFoundHandler())
	deadAddr := strings.TrimPrefix(deadSrv.URL, "http://")
	deadSrv.Close() // nothing listens there any more
	liveAddr := strings.TrimPrefix(srv.URL, "http://")

	methods := []struct{ api, m, kind string }{
		{"etcd", "Txn", "write"}, {"etcd", "Range", "read"}, {"etcd", "Watch", "watch"}, {"etcd", "RangeStream", "read"},
		{"etcd", "Get", "read"}, {"etcd", "RangeAtRev", "read"}, {"etcd", "CountAtRev", "read"}, {"etcd", "ListPartition", "read"},
		{"etcd", "RangeOptions", "read"}, {"etcd", "GetSerializable", "read"},
		{"brain", "Create", "write"}, {"brain", "Update", "write"}, {"brain", "Delete", "write"}, {"brain", "Compact", "write"},
		{"brain", "Get", "read"}, {"brain", "Range", "read"}, {"brain", "Count", "read"}, {"brain", "ListPartition", "read"},
		{"brain", "RangeStream", "read"}, {"brain", "Watch", "watch"},
	}
	var evs []gate.Event
	ncases := 0
	for _, role := range []string{"leader", "follower"} {
		for _, proxy := range []string{"on", "off"} {
			for _, lstate := range []string{"reachable", "unreachable", "error", "cut"} {
				for _, me := range methods {
					ncases++
					env := kb.NewEnv(kb.Options{Engine: eng, KeyNames: defaultKeyNames, Gated: false, Record: false, Base: 100, Etcd: true})
					// some data written directly through the backend (before the roles matter)
					env.B.Create(context.Background(), &proto.CreateRequest{Key: env.Keys.Raw(1), Value: []byte("x")})
					env.WaitCommitted(101, time.Second)
					rb := &recBackend{Backend: env.B}
					addr := liveAddr
					if lstate == "unreachable" {
						addr = deadAddr
					}
					modeMu.Lock()
					mode = lstate
					modeMu.Unlock()
					stub := &peerStub{Stub: leader.Stub{ElectionInfo: leader.ElectionInfo{LeaderAddress: addr, IsLeader: role == "leader"}}, proxyOn: proxy == "on"}
					peers := &realPeers{peerStub: stub}
					peers.syncer = revision.NewRevisionSyncer(rb, kb.Metrics(), &stub.Stub, nil)
					es := etcd.New(rb, kb.Metrics(), peers)
					bs := brain.New(rb, kb.Metrics(), peers)
					ctx, cancel := context.WithTimeout(context.Background(), 3*time.Second)
					key := env.Keys.Raw(2)
					lo, hi := []byte(env.Prefix+"/"), backend.PrefixEnd([]byte(env.Prefix+"/"))
					var cerr error
					switch me.api + "." + me.m {
					case "etcd.Txn":
						_, cerr = es.Txn(ctx, &etcdserverpb.TxnRequest{Compare: []*etcdserverpb.Compare{cmpMod(key, 0)}, Success: []*etcdserverpb.RequestOp{opPut(key, []byte("v"))}})
					case "etcd.Range":
						_, cerr = es.Range(ctx, &etcdserverpb.RangeRequest{Key: lo, RangeEnd: hi})
					case "etcd.Get":
						_, cerr = es.Range(ctx, &etcdserverpb.RangeRequest{Key: env.Keys.Raw(1)})
					case "etcd.RangeAtRev":
						_, cerr = es.Range(ctx, &etcdserverpb.RangeRequest{Key: lo, RangeEnd: hi, Revision: 101})
					case "etcd.CountAtRev":
						_, cerr = es.Range(ctx, &etcdserverpb.RangeRequest{Key: lo, RangeEnd: hi, Revision: 101, CountOnly: true})
					case "etcd.RangeOptions":
						_, cerr = es.Range(ctx, &etcdserverpb.RangeRequest{Key: lo, RangeEnd: hi, Serializable: true, KeysOnly: true, Limit: 5})
					case "etcd.GetSerializable":
						_, cerr = es.Range(ctx, &etcdserverpb.RangeRequest{Key: env.Keys.Raw(1), Serializable: true})
					case "etcd.ListPartition":
						_, cerr = es.Range(ctx, &etcdserverpb.RangeRequest{Key: lo, RangeEnd: hi, Revision: etcd.GetPartitionMagic})
					case "etcd.Watch", "etcd.RangeStream":
						wctx, wcancel := context.WithCancel(ctx)
						ws := newFakeWatchStream(wctx)
						done := make(chan error, 1)
						go func() { done <- es.Watch(ws) }()
						cr := &etcdserverpb.WatchCreateRequest{Key: lo, RangeEnd: hi, StartRevision: 0}
						if me.m == "RangeStream" {
							cr = &etcdserverpb.WatchCreateRequest{Key: kb.Coder.EncodeObjectKey(lo, 0), RangeEnd: kb.Coder.EncodeObjectKey(hi, 0), StartRevision: -101}
						}
						ws.reqs <- &etcdserverpb.WatchRequest{RequestUnion: &etcdserverpb.WatchRequest_CreateRequest{CreateRequest: cr}}
						// wait for the handler to act: an early return, a cancel message, or a settled stream
						deadline := time.After(1500 * time.Millisecond)
						settled := false
						for !settled {
							select {
							case e := <-done:
								cerr = e
								settled = true
							case r := <-ws.resps:
								if r.Canceled && r.WatchId != 0 && me.m == "Watch" && role == "follower" {
									// the proxy channel of the stub closes at once: a forwarded watch ends with a plain cancel
								}
								if me.m == "RangeStream" && r.Header != nil && r.Header.Revision == -1 {
									settled = true // end of the range stream
									for _, ev := range r.Events {
										if ev.Kv != nil && len(ev.Kv.Value) > 0 {
											cerr = errors.New(string(ev.Kv.Value))
										}
									}
								}
								if me.m == "RangeStream" && r.Canceled && r.CompactRevision == 1 {
									settled = true
									cerr = errors.New("range stream cancelled: " + r.CancelReason)
								}
							case <-time.After(150 * time.Millisecond):
								settled = true
							case <-deadline:
								settled = true
							}
						}
						wcancel()
					case "brain.Create":
						_, cerr = bs.Create(ctx, &proto.CreateRequest{Key: key, Value: []byte("v")})
					case "brain.Update":
						_, cerr = bs.Update(ctx, &proto.UpdateRequest{Kv: &proto.KeyValue{Key: env.Keys.Raw(1), Value: []byte("v"), Revision: 101}})
					case "brain.Delete":
						_, cerr = bs.Delete(ctx, &proto.DeleteRequest{Key: env.Keys.Raw(1)})
					case "brain.Compact":
						_, cerr = bs.Compact(ctx, &proto.CompactRequest{Revision: 100})
					case "brain.Get":
						_, cerr = bs.Get(ctx, &proto.GetRequest{Key: env.Keys.Raw(1)})
					case "brain.Range":
						_, cerr = bs.Range(ctx, &proto.RangeRequest{Key: lo, End: hi})
					case "brain.Count":
						_, cerr = bs.Count(ctx, &proto.CountRequest{Key: lo, End: hi})
					case "brain.ListPartition":
						_, cerr = bs.ListPartition(ctx, &proto.ListPartitionRequest{Key: lo, End: hi})
					case "brain.RangeStream":
						cerr = bs.RangeStream(&proto.RangeRequest{Key: kb.Coder.EncodeObjectKey(lo, 0), End: kb.Coder.EncodeObjectKey(hi, 0)}, &fakeRangeStream{fakeBrainStream: fakeBrainStream{ctx: ctx}})
					case "brain.Watch":
						wctx, wcancel := context.WithTimeout(ctx, 150*time.Millisecond)
						cerr = bs.Watch(&proto.WatchRequest{Key: lo}, &fakeBrainWatch{fakeBrainStream: fakeBrainStream{ctx: wctx}})
						wcancel()
					}
					cancel()
					rb.mu.Lock()
					stub.mu.Lock()
					setBeforeRead := true
					seenSet := false
					for _, o := range rb.order {
						if o == "set" {
							seenSet = true
						}
						if o == "read" && !seenSet {
							setBeforeRead = false
						}
					}
					setOK := len(rb.sets) > 0
					for _, s := range rb.sets {
						if s != leaderRev {
							setOK = false
						}
					}
					code := ""
					if cerr != nil {
						code = status.Code(cerr).String()
						if status.Code(cerr) == codes.Unknown {
							code = "Error"
						}
					}
					evs = append(evs, gate.Event{"e": "Case", "api": me.api, "m": me.m, "kind": me.kind, "role": role, "proxy": proxy, "lstate": lstate,
						"writes": rb.writes, "watches": rb.watch, "reads": rb.reads, "sets": len(rb.sets), "set_is_leader_rev": setOK, "set_before_read": setBeforeRead,
						"ptxn": stub.proxyTxn, "pwatch": stub.proxyWatch, "syncs": stub.syncCalls, "err": cerr != nil, "code": code})
					stub.mu.Unlock()
					rb.mu.Unlock()
					peers.syncer.Close()
					env.Retire()
				}
			}
		}
	}
	w, err := os.Create(*out)
	if err != nil {
		fmt.Println(err)
		return 2
	}
	for _, e := range evs {
		bs, _ := json.Marshal(e)
		w.Write(append(bs, '\n'))
	}
	w.WriteString("{\"e\":\"Reset\"}\n")
	w.Close()
	if *report != "" {
		bs, _ := json.Marshal(map[string]interface{}{"behaviours": ncases, "nontrivial": ncases, "engine": *engine})
		os.WriteFile(*report, bs, 0644)
	}
	fmt.Printf("rolerun cases=%d\n", ncases)
	return 0
}
