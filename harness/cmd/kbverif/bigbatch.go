package main

import (
	"context"
	"encoding/json"
	"flag"
	"fmt"
	"io"
	"os"
	"strings"
	"sync/atomic"

	"kbverif/gate"
	"kbverif/kb"
)

// cmdBigBatch (C11, "a write batch takes effect entirely or not at all", at a size the contract sequences of Storage.tla do
// not reach): one batch of N puts -- more than an engine may accept in one transaction (Badger: about 104 000 entries) --
// alone, and followed by a compare-and-swap on a missing key. Whatever the engine answers, afterwards either all of the
// batch is visible or nothing is; and a batch with a failed condition is refused.
func cmdBigBatch(args []string) int {
	fs := flag.NewFlagSet("bigbatch", flag.ExitOnError)
	out := fs.String("out", "", "trace output")
	report := fs.String("report", "", "report output")
	engine := fs.String("engine", "memkv", "engines (comma separated)")
	n := fs.Int("n", 120000, "puts in the batch")
	fs.String("in", "", "unused")
	fs.Int("shard", 0, "unused")
	fs.Int("shards", 1, "unused")
	fs.Parse(args)
	kb.QuietLogs()
	w, err := os.Create(*out)
	if err != nil {
		fmt.Println(err)
		return 2
	}
	defer w.Close()
	ctx := context.Background()
	runs := 0
	for _, en := range strings.Split(*engine, ",") {
		e, err := kb.NewEngine(en)
		if err != nil {
			fmt.Println(err)
			return 2
		}
		kv := e.KV
		for _, withCond := range []bool{false, true} {
			prefix := fmt.Sprintf("/bb%d/", atomic.AddInt64(&bulkSeq, 1))
			b := kv.BeginBatchWrite()
			for i := 0; i < *n; i++ {
				b.Put([]byte(fmt.Sprintf("%sk%07d", prefix, i)), []byte("v"), 0)
			}
			if withCond {
				b.CAS([]byte(prefix+"missing"), []byte("new"), []byte("old"), 0)
			}
			cerr := b.Commit(ctx)
			visible := 0
			it, ierr := kv.Iter(ctx, []byte(prefix), []byte(prefix+"\xff"), 0, 0)
			if ierr == nil {
				for {
					if err := it.Next(ctx); err != nil {
						if err != io.EOF {
							ierr = err
						}
						break
					}
					visible++
				}
				it.Close()
			}
			ev := gate.Event{"e": "SBigBatch", "engine": en, "n": *n, "with_failing_condition": withCond, "res": gate.ErrClass(cerr), "visible": visible, "scan_ok": ierr == nil}
			bs, _ := json.Marshal(ev)
			w.Write(append(bs, '\n'))
			runs++
		}
		e.Close()
	}
	w.WriteString("{\"e\":\"Reset\"}\n")
	if *report != "" {
		bs, _ := json.Marshal(map[string]interface{}{"behaviours": runs, "nontrivial": runs, "agreed": runs})
		os.WriteFile(*report, bs, 0644)
	}
	fmt.Printf("bigbatch runs=%d\n", runs)
	return 0
}
