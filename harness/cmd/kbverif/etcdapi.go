package main

import (
	"context"
	"errors"
	"io"
	"sync"

	"go.etcd.io/etcd/api/v3/etcdserverpb"
	"go.etcd.io/etcd/api/v3/mvccpb"
	"google.golang.org/grpc/metadata"

	proto "github.com/kubewharf/kubebrain-client/api/v2rpc"

	"github.com/kubewharf/kubebrain/pkg/backend"
	"github.com/kubewharf/kubebrain/pkg/server/etcd"
	"github.com/kubewharf/kubebrain/pkg/server/service/leader"

	"kbverif/gate"
	"kbverif/kb"
)

// ---- scripted peer service ---------------------------------------------------------------

// peerStub implements service.PeerService: a scripted role, a scripted revision sync, a
// recording proxy.
type peerStub struct {
	leader.Stub
	mu         sync.Mutex
	proxyOn    bool
	syncErr    error
	syncCalls  int
	proxyTxn   int
	proxyWatch int
	onSync     func() error
}

func (p *peerStub) SyncReadRevision() error {
	p.mu.Lock()
	p.syncCalls++
	f := p.onSync
	e := p.syncErr
	p.mu.Unlock()
	if f != nil {
		return f()
	}
	return e
}
func (p *peerStub) Close() error           { return nil }
func (p *peerStub) EtcdProxyEnabled() bool { return p.proxyOn }
func (p *peerStub) Txn(ctx context.Context, txn *etcdserverpb.TxnRequest) (*etcdserverpb.TxnResponse, error) {
	p.mu.Lock()
	p.proxyTxn++
	p.mu.Unlock()
	return &etcdserverpb.TxnResponse{Header: &etcdserverpb.ResponseHeader{Revision: -7}}, nil
}
func (p *peerStub) Watch(ctx context.Context, key string, revision uint64) (<-chan []*mvccpb.Event, error) {
	p.mu.Lock()
	p.proxyWatch++
	p.mu.Unlock()
	ch := make(chan []*mvccpb.Event)
	close(ch)
	return ch, nil
}

func leaderPeers() *peerStub {
	return &peerStub{Stub: leader.Stub{ElectionInfo: leader.ElectionInfo{LeaderAddress: "127.0.0.1:1", IsLeader: true}}}
}

// ---- fake etcd watch stream ----------------------------------------------------------------

type fakeWatchStream struct {
	ctx    context.Context
	reqs   chan *etcdserverpb.WatchRequest
	resps  chan *etcdserverpb.WatchResponse
	closed chan struct{}
}

func newFakeWatchStream(ctx context.Context) *fakeWatchStream {
	return &fakeWatchStream{ctx: ctx, reqs: make(chan *etcdserverpb.WatchRequest, 16), resps: make(chan *etcdserverpb.WatchResponse, 100000), closed: make(chan struct{})}
}
func (f *fakeWatchStream) Send(r *etcdserverpb.WatchResponse) error {
	select {
	case f.resps <- r:
		return nil
	case <-f.ctx.Done():
		return f.ctx.Err()
	}
}
func (f *fakeWatchStream) Recv() (*etcdserverpb.WatchRequest, error) {
	select {
	case r := <-f.reqs:
		return r, nil
	case <-f.ctx.Done():
		return nil, io.EOF
	}
}
func (f *fakeWatchStream) SetHeader(metadata.MD) error  { return nil }
func (f *fakeWatchStream) SendHeader(metadata.MD) error { return nil }
func (f *fakeWatchStream) SetTrailer(metadata.MD)       {}
func (f *fakeWatchStream) Context() context.Context     { return f.ctx }
func (f *fakeWatchStream) SendMsg(m interface{}) error  { return errors.New("unused") }
func (f *fakeWatchStream) RecvMsg(m interface{}) error  { return errors.New("unused") }

// ---- API abstraction used by the sequential driver ------------------------------------------

// api issues client requests either on the native backend or through the etcd-compatible server.
type api struct {
	env  *kb.Env
	etcd *etcd.RPCServer // nil: native backend
}

func newAPI(env *kb.Env, kind string) *api {
	a := &api{env: env}
	if kind == "etcd" {
		a.etcd = etcd.New(env.B, kb.Metrics(), leaderPeers())
	}
	return a
}

func cmpMod(key []byte, rev int64) *etcdserverpb.Compare {
	return &etcdserverpb.Compare{Target: etcdserverpb.Compare_MOD, Result: etcdserverpb.Compare_EQUAL, Key: key,
		TargetUnion: &etcdserverpb.Compare_ModRevision{ModRevision: rev}}
}
func opPut(key, val []byte) *etcdserverpb.RequestOp {
	return &etcdserverpb.RequestOp{Request: &etcdserverpb.RequestOp_RequestPut{RequestPut: &etcdserverpb.PutRequest{Key: key, Value: val}}}
}
func opRange(key []byte) *etcdserverpb.RequestOp {
	return &etcdserverpb.RequestOp{Request: &etcdserverpb.RequestOp_RequestRange{RequestRange: &etcdserverpb.RangeRequest{Key: key}}}
}
func opDel(key []byte) *etcdserverpb.RequestOp {
	return &etcdserverpb.RequestOp{Request: &etcdserverpb.RequestOp_RequestDeleteRange{RequestDeleteRange: &etcdserverpb.DeleteRangeRequest{Key: key}}}
}

func txnResult(r *etcdserverpb.TxnResponse, err error) opResult {
	if err != nil {
		return opResult{Err: classifyErr(err)}
	}
	res := opResult{Succ: r.Succeeded, Hdr: uint64(r.Header.GetRevision())}
	for _, ro := range r.Responses {
		if rr := ro.GetResponseRange(); rr != nil && len(rr.Kvs) > 0 {
			res.KvRev, res.KvVal = uint64(rr.Kvs[0].ModRevision), string(rr.Kvs[0].Value)
		}
	}
	return res
}

// write issues one write operation.
func (a *api) write(o specOp) opResult {
	if a.etcd == nil {
		return callOp(a.env, o)
	}
	ctx := context.Background()
	key := a.env.Keys.Raw(o.Key)
	var t *etcdserverpb.TxnRequest
	switch o.Type {
	case "create":
		t = &etcdserverpb.TxnRequest{Compare: []*etcdserverpb.Compare{cmpMod(key, 0)}, Success: []*etcdserverpb.RequestOp{opPut(key, []byte(o.Val))}}
	case "update":
		t = &etcdserverpb.TxnRequest{Compare: []*etcdserverpb.Compare{cmpMod(key, int64(o.Exp))}, Success: []*etcdserverpb.RequestOp{opPut(key, []byte(o.Val))},
			Failure: []*etcdserverpb.RequestOp{opRange(key)}}
	case "delete":
		if o.Exp == 0 {
			t = &etcdserverpb.TxnRequest{Success: []*etcdserverpb.RequestOp{opRange(key), opDel(key)}}
		} else {
			t = &etcdserverpb.TxnRequest{Compare: []*etcdserverpb.Compare{cmpMod(key, int64(o.Exp))}, Success: []*etcdserverpb.RequestOp{opDel(key)},
				Failure: []*etcdserverpb.RequestOp{opRange(key)}}
		}
	}
	return txnResult(a.etcd.Txn(ctx, t))
}

type readResult struct {
	err   error
	hdr   uint64
	kvs   []*proto.KeyValue
	more  bool
	count int64
}

func fromEtcdKvs(kvs []*mvccpb.KeyValue) []*proto.KeyValue {
	out := make([]*proto.KeyValue, 0, len(kvs))
	for _, kv := range kvs {
		out = append(out, &proto.KeyValue{Key: kv.Key, Value: kv.Value, Revision: uint64(kv.ModRevision)})
	}
	return out
}

func (a *api) get(key []byte, rev uint64) readResult {
	ctx := context.Background()
	if a.etcd == nil {
		r, err := a.env.B.Get(ctx, &proto.GetRequest{Key: key, Revision: rev})
		if err != nil {
			return readResult{err: err}
		}
		rr := readResult{hdr: r.Header.GetRevision()}
		if r.Kv != nil {
			rr.kvs = []*proto.KeyValue{r.Kv}
		}
		return rr
	}
	r, err := a.etcd.Range(ctx, &etcdserverpb.RangeRequest{Key: key, Revision: int64(rev)})
	if err != nil {
		return readResult{err: err}
	}
	return readResult{hdr: uint64(r.Header.GetRevision()), kvs: fromEtcdKvs(r.Kvs), count: r.Count}
}

func (a *api) list(lo, hi []byte, rev uint64, limit int64) readResult {
	ctx := context.Background()
	if a.etcd == nil {
		r, err := a.env.B.List(ctx, &proto.RangeRequest{Key: lo, End: hi, Revision: rev, Limit: limit})
		if err != nil {
			return readResult{err: err}
		}
		return readResult{hdr: r.Header.GetRevision(), kvs: r.Kvs, more: r.More, count: -1}
	}
	r, err := a.etcd.Range(ctx, &etcdserverpb.RangeRequest{Key: lo, RangeEnd: hi, Revision: int64(rev), Limit: limit})
	if err != nil {
		return readResult{err: err}
	}
	return readResult{hdr: uint64(r.Header.GetRevision()), kvs: fromEtcdKvs(r.Kvs), more: r.More, count: r.Count}
}

func (a *api) count(lo, hi []byte) readResult {
	ctx := context.Background()
	if a.etcd == nil {
		r, err := a.env.B.Count(ctx, &proto.CountRequest{Key: lo, End: hi})
		if err != nil {
			return readResult{err: err}
		}
		return readResult{hdr: r.Header.GetRevision(), count: int64(r.Count)}
	}
	r, err := a.etcd.Range(ctx, &etcdserverpb.RangeRequest{Key: lo, RangeEnd: hi, CountOnly: true})
	if err != nil {
		return readResult{err: err}
	}
	return readResult{hdr: uint64(r.Header.GetRevision()), count: r.Count}
}

// watchAll opens a prefix watch from revision start; events arrive on the returned channel in
// the harness' abstract form [type, key#, rev, val, kvrev].
func (a *api) watchAll(ctx context.Context, prefix string, start uint64) (<-chan []interface{}, error) {
	out := make(chan []interface{}, 4096) // (per history: a few dozen batches; 100000 slots each were 2.4 MB that outlived the history)
	env := a.env
	if a.etcd == nil {
		ch, err := env.B.Watch(ctx, prefix, start)
		if err != nil {
			return nil, err
		}
		go func() {
			defer close(out)
			for batch := range ch {
				var evs []interface{}
				for _, e := range batch {
					k, val := 0, ""
					var kvrev uint64
					if e.Kv != nil {
						k, val, kvrev = env.Keys.Num(e.Kv.Key), string(e.Kv.Value), e.Kv.Revision
					}
					evs = append(evs, []interface{}{e.Type.String(), k, gate.Clip(e.Revision), val, gate.Clip(kvrev)})
				}
				out <- evs
			}
		}()
		return out, nil
	}
	ws := newFakeWatchStream(ctx)
	go a.etcd.Watch(ws)
	ws.reqs <- &etcdserverpb.WatchRequest{RequestUnion: &etcdserverpb.WatchRequest_CreateRequest{CreateRequest: &etcdserverpb.WatchCreateRequest{
		Key: []byte(prefix), RangeEnd: backend.PrefixEnd([]byte(prefix)), StartRevision: int64(start), PrevKv: true}}}
	go func() {
		defer close(out)
		for {
			select {
			case <-ctx.Done():
				return
			case r := <-ws.resps:
				if r.Created {
					continue
				}
				if r.Canceled {
					return
				}
				var evs []interface{}
				for _, e := range r.Events {
					if e.Type == mvccpb.DELETE {
						val, prev := "", int64(0)
						if e.PrevKv != nil {
							val, prev = string(e.PrevKv.Value), e.PrevKv.ModRevision
						}
						evs = append(evs, []interface{}{"DELETE", env.Keys.Num(e.Kv.Key), gate.Clip(uint64(e.Kv.ModRevision)), val, gate.Clip(uint64(prev))})
					} else {
						evs = append(evs, []interface{}{"EPUT", env.Keys.Num(e.Kv.Key), gate.Clip(uint64(e.Kv.ModRevision)), string(e.Kv.Value), gate.Clip(uint64(e.Kv.ModRevision))})
					}
				}
				if len(evs) > 0 {
					out <- evs
				}
			}
		}
	}()
	return out, nil
}
