package main

import (
	"context"
	"encoding/json"
	"flag"
	"fmt"
	"os"
	"time"

	proto "github.com/kubewharf/kubebrain-client/api/v2rpc"

	"github.com/kubewharf/kubebrain/pkg/backend"

	"kbverif/gate"
	"kbverif/kb"
)

// cmdWrapRun (C04): the write-result ring of the real backend has 100000 slots; KubeBrain.tla explores its wrap-around
// with 3 slots. Here the real ring is driven once around: failed writes (their events are invalid) first and in between,
// then more than 100000 revisions. Afterwards the committed revision must have reached the last revision handed out, a
// List without revision must see the last write and a watch must get the next event.
func cmdWrapRun(args []string) int {
	fs := flag.NewFlagSet("wraprun", flag.ExitOnError)
	out := fs.String("out", "", "trace output")
	report := fs.String("report", "", "report output")
	engine := fs.String("engine", "memkv", "engine")
	n := fs.Int("n", 100200, "revisions to consume")
	fs.String("in", "", "unused")
	fs.Int("shard", 0, "unused")
	fs.Int("shards", 1, "unused")
	fs.Parse(args)
	kb.QuietLogs()
	backend.VerifSetRetryIntervals(0, time.Millisecond)
	eng, err := kb.NewEngine(*engine)
	if err != nil {
		fmt.Println(err)
		return 2
	}
	defer eng.Close()
	env := kb.NewEnv(kb.Options{Engine: eng, KeyNames: []string{"/a", "/a-b", "/a/b", "/ab"}, Gated: false, Record: false, Base: 1000})
	ctx := context.Background()
	ev := gate.Event{"e": "WrapRun", "engine": *engine, "n": *n, "panic": false, "detail": ""}
	var lastHdr uint64
	okWrites, failedWrites := 0, 0
	func() {
		defer func() {
			if x := recover(); x != nil {
				ev["panic"] = true
				ev["detail"] = fmt.Sprint(x)
			}
		}()
		revs := map[int]uint64{}
		for k := 1; k <= 3; k++ {
			r, err := env.B.Create(ctx, &proto.CreateRequest{Key: env.Keys.Raw(k), Value: []byte("v")})
			if err == nil && r.Succeeded {
				revs[k] = r.Header.Revision
				lastHdr = r.Header.Revision
				okWrites++
			}
		}
		for i := 0; i < *n; i++ {
			k := 1 + i%3
			if i >= *n-600 {
				// the second time around the slots of the first failed writes: let the sequencer catch up and wait at the next
				// slot, as it does in a node that is not saturated (a sequencer that lags never looks at a slot before it is refilled)
				env.WaitCommitted(lastHdr, time.Second)
			}
			if i%997 == 0 {
				// a write that fails: creating an existing key consumes a revision and leaves an invalid event
				r, err := env.B.Create(ctx, &proto.CreateRequest{Key: env.Keys.Raw(k), Value: []byte("again")})
				if err == nil && !r.Succeeded {
					failedWrites++
					if r.Header.Revision > lastHdr {
						lastHdr = r.Header.Revision
					}
				}
				continue
			}
			u, err := env.B.Update(ctx, &proto.UpdateRequest{Kv: &proto.KeyValue{Key: env.Keys.Raw(k), Value: []byte("v"), Revision: revs[k]}})
			if err == nil && u.Succeeded {
				revs[k] = u.Header.Revision
				lastHdr = u.Header.Revision
				okWrites++
			}
		}
		// one more, announced to a watcher
		env.WaitCommitted(lastHdr, 3*time.Second)
		wctx, cancel := context.WithCancel(ctx)
		defer cancel()
		wch, werr := env.B.Watch(wctx, env.Prefix+"/", 0)
		c4, err := env.B.Create(ctx, &proto.CreateRequest{Key: env.Keys.Raw(4), Value: []byte("last")})
		created := err == nil && c4.Succeeded
		if created {
			lastHdr = c4.Header.Revision
			okWrites++
		}
		env.WaitCommitted(lastHdr, 3*time.Second)
		watched := false
		if werr == nil && created {
			// (the fan-out may still be working through the backlog of the run: read until the event shows up)
			for deadline := time.After(10 * time.Second); !watched; {
				select {
				case b, ok := <-wch:
					if !ok {
						deadline = nil
						break
					}
					for _, e := range b {
						if e.Revision == c4.Header.Revision {
							watched = true
						}
					}
				case <-deadline:
					deadline = nil
				}
				if deadline == nil {
					break
				}
			}
		}
		l, lerr := env.B.List(ctx, &proto.RangeRequest{Key: []byte(env.Prefix + "/"), End: backend.PrefixEnd([]byte(env.Prefix + "/"))})
		listed := false
		if lerr == nil {
			for _, kv := range l.Kvs {
				if string(kv.Key) == string(env.Keys.Raw(4)) {
					listed = true
				}
			}
		}
		ev["last_created"], ev["watched_last"], ev["listed_last"] = created, watched, listed
	}()
	ev["last_hdr"], ev["committed"] = gate.Clip(lastHdr), gate.Clip(env.B.GetCurrentRevision())
	ev["ok_writes"], ev["failed_writes"] = okWrites, failedWrites
	w, err := os.Create(*out)
	if err != nil {
		fmt.Println(err)
		return 2
	}
	bs, _ := json.Marshal(ev)
	w.Write(append(bs, '\n'))
	w.WriteString("{\"e\":\"Reset\"}\n")
	w.Close()
	if *report != "" {
		bs, _ := json.Marshal(map[string]interface{}{"behaviours": 1, "nontrivial": 1, "agreed": 1, "writes": okWrites, "failed_writes": failedWrites})
		os.WriteFile(*report, bs, 0644)
	}
	fmt.Printf("wraprun engine=%s ok=%d failed=%d last=%d committed=%d panic=%v\n", *engine, okWrites, failedWrites, lastHdr, env.B.GetCurrentRevision(), ev["panic"])
	return 0
}
