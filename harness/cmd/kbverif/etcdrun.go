package main

import (
	"bufio"
	"context"
	"encoding/json"
	"flag"
	"fmt"
	"os"
	"strings"
	"time"

	"go.etcd.io/etcd/api/v3/etcdserverpb"

	proto "github.com/kubewharf/kubebrain-client/api/v2rpc"

	"github.com/kubewharf/kubebrain/pkg/backend"
	"github.com/kubewharf/kubebrain/pkg/server/etcd"

	"kbverif/gate"
	"kbverif/kb"
)

type eCmp struct {
	Target string `json:"target"`
	Result string `json:"result"`
	Key    int    `json:"key"`
	Rev    int64  `json:"rev"`
}
type eOp struct {
	Kind string `json:"kind"`
	Key  int    `json:"key"`
}
type eTxn struct {
	Cmp  []eCmp `json:"cmp"`
	Succ []eOp  `json:"succ"`
	Fail []eOp  `json:"fail"`
}
type eKv struct {
	Mod uint64 `json:"mod"`
	Val string `json:"val"`
}
type eCase struct {
	Txn eTxn  `json:"txn"`
	St  []eKv `json:"st"`
}

// cmdEtcdRun (C16): every (transaction, store) pair chosen by TLC from the bounded space of
// Etcd.tla is sent to the real Txn handler over a store seeded accordingly.
func cmdEtcdRun(args []string) int {
	fs := flag.NewFlagSet("etcdrun", flag.ExitOnError)
	in := fs.String("in", "", "cases")
	out := fs.String("out", "", "trace output")
	report := fs.String("report", "", "report output")
	engine := fs.String("engine", "memkv", "engines")
	shard := fs.Int("shard", 0, "shard")
	shards := fs.Int("shards", 1, "shards")
	fs.Parse(args)
	kb.QuietLogs()
	backend.VerifSetRetryIntervals(0, time.Millisecond)
	names := strings.Split(*engine, ",")
	engs := map[string]*kb.Engine{}
	for _, n := range names {
		e, err := kb.NewEngine(n)
		if err != nil {
			fmt.Println(err)
			return 2
		}
		defer e.Close()
		engs[n] = e
	}
	f, err := os.Open(*in)
	if err != nil {
		fmt.Println(err)
		return 2
	}
	defer f.Close()
	w, err := os.Create(*out)
	if err != nil {
		fmt.Println(err)
		return 2
	}
	bw := bufio.NewWriterSize(w, 1<<20)
	rep := &seqReport{OpCount: map[string]int{}, Engine: *engine}
	start := time.Now()
	sc := bufio.NewScanner(f)
	sc.Buffer(make([]byte, 1<<20), 1<<26)
	n := 0
	ctx := context.Background()
	for sc.Scan() {
		line := sc.Text()
		if strings.TrimSpace(line) == "" {
			continue
		}
		n++
		if (n-1)%*shards != *shard {
			continue
		}
		var c eCase
		if err := json.Unmarshal([]byte(line), &c); err != nil {
			rep.Errors++
			continue
		}
		rep.Histories++
		rep.Nontrivial++
		if len(rep.Samples) < 2 {
			rep.Samples = append(rep.Samples, line)
		}
		for _, en := range names {
			env := kb.NewEnv(kb.Options{Engine: engs[en], KeyNames: defaultKeyNames[:len(c.St)], Gated: false, Record: false})
			for k, kv := range c.St {
				if kv.Mod > 0 {
					env.SeedVersion(k+1, kv.Mod, kv.Val)
					env.SeedIndex(k+1, kv.Mod, false)
				}
			}
			// "compact_rev_key" carries no prefix: whatever an earlier case wrote under it is still in the engine
			purgeRaw(engs[en], []byte("compact_rev_key"))
			env.B.SetCurrentRevision(5)
			srv := etcd.New(env.B, kb.Metrics(), leaderPeers())
			keyOf := func(k int) []byte {
				if k == 9 {
					return []byte("compact_rev_key")
				}
				return env.Keys.Raw(k)
			}
			t := &etcdserverpb.TxnRequest{}
			for _, cm := range c.Txn.Cmp {
				x := &etcdserverpb.Compare{Key: keyOf(cm.Key)}
				switch cm.Result {
				case "EQUAL":
					x.Result = etcdserverpb.Compare_EQUAL
				default:
					x.Result = etcdserverpb.Compare_GREATER
				}
				switch cm.Target {
				case "MOD":
					x.Target = etcdserverpb.Compare_MOD
					x.TargetUnion = &etcdserverpb.Compare_ModRevision{ModRevision: cm.Rev}
				case "VERSION":
					x.Target = etcdserverpb.Compare_VERSION
					x.TargetUnion = &etcdserverpb.Compare_Version{Version: cm.Rev}
				default:
					x.Target = etcdserverpb.Compare_CREATE
					x.TargetUnion = &etcdserverpb.Compare_CreateRevision{CreateRevision: cm.Rev}
				}
				t.Compare = append(t.Compare, x)
			}
			mk := func(ops []eOp) []*etcdserverpb.RequestOp {
				var out []*etcdserverpb.RequestOp
				for _, o := range ops {
					switch o.Kind {
					case "put":
						out = append(out, opPut(keyOf(o.Key), []byte("v")))
					case "range":
						out = append(out, opRange(keyOf(o.Key)))
					default:
						out = append(out, opDel(keyOf(o.Key)))
					}
				}
				return out
			}
			t.Success, t.Failure = mk(c.Txn.Succ), mk(c.Txn.Fail)
			resp, err := srv.Txn(ctx, t)
			res := txnResult(resp, err)
			// observe the store through the native read path
			if err == nil && res.Hdr > 5 {
				env.WaitCommitted(res.Hdr, 50*time.Millisecond)
			}
			post := []interface{}{}
			for k := range c.St {
				g, gerr := env.B.Get(ctx, &proto.GetRequest{Key: env.Keys.Raw(k + 1)})
				if gerr == nil && g.Kv != nil {
					post = append(post, gate.Event{"mod": gate.Clip(g.Kv.Revision), "val": string(g.Kv.Value)})
				} else {
					post = append(post, gate.Event{"mod": 0, "val": "-"})
				}
			}
			kv := gate.Event{"mod": gate.Clip(res.KvRev), "val": res.KvVal}
			if res.KvRev == 0 {
				kv = gate.Event{"mod": 0, "val": "-"}
			}
			var txnEv, stEv interface{}
			json.Unmarshal([]byte(line), &struct {
				Txn *interface{} `json:"txn"`
				St  *interface{} `json:"st"`
			}{&txnEv, &stEv})
			bs, _ := json.Marshal(gate.Event{"e": "ETxn", "txn": txnEv, "st": stEv, "succ": res.Succ, "err": err != nil, "kv": kv, "post": post, "engine": en})
			bw.Write(bs)
			bw.WriteByte('\n')
			rep.Events++
			rep.Ops++
			env.Retire()
		}
		bw.WriteString("{\"e\":\"Reset\"}\n")
	}
	bw.Flush()
	w.Close()
	rep.WallS = time.Since(start).Seconds()
	rep.Agreed = rep.Histories
	if *report != "" {
		bs, _ := json.MarshalIndent(rep, "", " ")
		os.WriteFile(*report, bs, 0644)
	}
	fmt.Printf("etcdrun engines=%s cases=%d events=%d wall=%.1fs\n", *engine, rep.Histories, rep.Events, rep.WallS)
	return 0
}

// purgeRaw removes the index record and every version record of a raw key directly from the engine.
func purgeRaw(e *kb.Engine, raw []byte) {
	ctx := context.Background()
	lo := kb.Coder.EncodeObjectKey(raw, 0)
	hi := kb.Coder.EncodeObjectKey(raw, ^uint64(0))
	it, err := e.KV.Iter(ctx, lo, append(append([]byte(nil), hi...), 0), 0, 0)
	if err != nil {
		return
	}
	var keys [][]byte
	for it.Next(ctx) == nil {
		keys = append(keys, append([]byte(nil), it.Key()...))
	}
	it.Close()
	for _, k := range keys {
		e.KV.Del(ctx, k)
	}
}
