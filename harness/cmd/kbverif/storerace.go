package main

import (
	"bufio"
	"context"
	"encoding/json"
	"errors"
	"flag"
	"fmt"
	"os"
	"sort"
	"strings"
	"sync"
	"sync/atomic"
	"time"

	"github.com/kubewharf/kubebrain/pkg/storage"

	"kbverif/gate"
	"kbverif/kb"
)

type raceOp struct {
	O   string `json:"o"`
	K   int    `json:"k"`
	V   string `json:"v"`
	Old string `json:"old"`
}

type raceCase struct {
	Init map[string]string `json:"-"`
	A    raceOp            `json:"a"`
	B    raceOp            `json:"b"`
	Raw  json.RawMessage   `json:"init"`
}

var raceSeq int64

// cmdStoreRace (C01 / C11): two clients assemble one write batch each on the real storage adapter, in
// parallel, and commit; every distinct outcome (results + final contents) of every case generated from
// StorageRace.tla is recorded and judged by TLC: it must be explainable by running the batches one after
// the other.
func cmdStoreRace(args []string) int {
	fs := flag.NewFlagSet("storerace", flag.ExitOnError)
	in := fs.String("in", "", "cases")
	out := fs.String("out", "", "trace output")
	report := fs.String("report", "", "report output")
	engine := fs.String("engine", "memkv", "engines (comma separated)")
	shard := fs.Int("shard", 0, "shard")
	shards := fs.Int("shards", 1, "shards")
	reps := fs.Int("reps", 20, "rounds per case and engine")
	fs.Parse(args)
	kb.QuietLogs()
	names := strings.Split(*engine, ",")
	engs := map[string]*kb.Engine{}
	for _, n := range names {
		e, err := kb.NewEngine(n)
		if err != nil {
			fmt.Println(err)
			return 2
		}
		defer e.Close()
		engs[n] = e
	}
	f, err := os.Open(*in)
	if err != nil {
		fmt.Println(err)
		return 2
	}
	defer f.Close()
	w, err := os.Create(*out)
	if err != nil {
		fmt.Println(err)
		return 2
	}
	bw := bufio.NewWriterSize(w, 1<<20)
	rep := &seqReport{OpCount: map[string]int{}, Engine: *engine}
	emit := func(e gate.Event) {
		bs, _ := json.Marshal(e)
		bw.Write(bs)
		bw.WriteByte('\n')
		rep.Events++
	}
	ctx := context.Background()
	sc := bufio.NewScanner(f)
	sc.Buffer(make([]byte, 1<<20), 1<<26)
	n := 0
	rounds, overlapped := 0, 0
	classify := func(err error) string {
		switch {
		case err == nil:
			return "ok"
		case errors.Is(err, storage.ErrCASFailed):
			return "cas"
		case errors.Is(err, storage.ErrUncertainResult):
			return "unc"
		}
		return "err"
	}
	for sc.Scan() {
		line := strings.TrimSpace(sc.Text())
		if line == "" {
			continue
		}
		n++
		if (n-1)%*shards != *shard {
			continue
		}
		var c raceCase
		if err := json.Unmarshal([]byte(line), &c); err != nil {
			rep.Errors++
			continue
		}
		// init is a TLA+ function over {2, 4}: JSON object or array depending on the domain
		initv := map[int]string{}
		var asMap map[string]string
		if json.Unmarshal(c.Raw, &asMap) == nil {
			for k, v := range asMap {
				var ki int
				fmt.Sscanf(k, "%d", &ki)
				initv[ki] = v
			}
		}
		rep.Histories++
		if c.A.K == c.B.K {
			rep.Nontrivial++
		}
		for _, en := range names {
			kvs := engs[en].KV
			seen := map[string]int{}
			badReads := map[string]int{}
			for r := 0; r < *reps; r++ {
				prefix := fmt.Sprintf("/r%d/", atomic.AddInt64(&raceSeq, 1))
				keys := []int{}
				for k, v := range initv {
					keys = append(keys, k)
					if v != "<absent>" {
						b := kvs.BeginBatchWrite()
						b.Put(posKey(prefix, k), []byte(v), 0)
						if err := b.Commit(ctx); err != nil {
							rep.Errors++
						}
					}
				}
				sort.Ints(keys)
				var wg sync.WaitGroup
				res := [2]string{}
				var ready int32
				run := func(i int, o raceOp) {
					defer wg.Done()
					b := kvs.BeginBatchWrite()
					k := posKey(prefix, o.K)
					switch o.O {
					case "pine":
						b.PutIfNotExist(k, []byte(o.V), 0)
					case "cas":
						b.CAS(k, []byte(o.V), []byte(o.Old), 0)
					case "put":
						b.Put(k, []byte(o.V), 0)
					case "del":
						b.Del(k)
					}
					// meet the other client with the batch assembled, unless the engine makes one of us wait
					atomic.AddInt32(&ready, 1)
					for t0 := time.Now(); atomic.LoadInt32(&ready) < 2 && time.Since(t0) < 200*time.Microsecond; {
					}
					res[i] = classify(b.Commit(ctx))
				}
				// two readers look the keys up while the batches commit: a lookup never panics and returns a value the key
				// has in this round (its initial value, the value either batch writes) or "not found"
				var stopReaders int32
				var rwg sync.WaitGroup
				badRead := ""
				var brMu sync.Mutex
				for rd := 0; rd < 2; rd++ {
					rwg.Add(1)
					go func() {
						defer rwg.Done()
						defer func() {
							if x := recover(); x != nil {
								brMu.Lock()
								badRead = "panic: " + fmt.Sprint(x)
								brMu.Unlock()
							}
						}()
						for atomic.LoadInt32(&stopReaders) == 0 {
							for _, k := range keys {
								v, err := kvs.Get(ctx, posKey(prefix, k))
								if err != nil {
									continue
								}
								sv := string(v)
								if sv != initv[k] && !(c.A.K == k && sv == c.A.V) && !(c.B.K == k && sv == c.B.V) {
									brMu.Lock()
									badRead = fmt.Sprintf("key %d read as %q", k, sv)
									brMu.Unlock()
								}
							}
						}
					}()
				}
				wg.Add(2)
				go run(0, c.A)
				go run(1, c.B)
				wg.Wait()
				atomic.StoreInt32(&stopReaders, 1)
				rwg.Wait()
				if badRead != "" {
					badReads[badRead]++
				}
				rounds++
				if atomic.LoadInt32(&ready) == 2 {
					overlapped++
				}
				final := map[string]string{}
				for _, k := range keys {
					v, err := kvs.Get(ctx, posKey(prefix, k))
					if err != nil {
						final[fmt.Sprint(k)] = "<absent>"
					} else {
						final[fmt.Sprint(k)] = string(v)
					}
				}
				fb, _ := json.Marshal(final)
				seen[res[0]+"|"+res[1]+"|"+string(fb)]++
			}
			for what, cnt := range badReads {
				emit(gate.Event{"e": "SRaceRead", "engine": en, "a": c.A, "b": c.B, "what": what, "count": cnt})
			}
			for o, cnt := range seen {
				p := strings.SplitN(o, "|", 3)
				var final map[string]string
				json.Unmarshal([]byte(p[2]), &final)
				init := map[string]string{}
				for k, v := range initv {
					init[fmt.Sprint(k)] = v
				}
				emit(gate.Event{"e": "SRace", "engine": en, "init": init, "a": c.A, "b": c.B, "ra": p[0], "rb": p[1], "final": final, "count": cnt})
				rep.OpCount[p[0]+"/"+p[1]]++
			}
		}
	}
	bw.Flush()
	w.Close()
	rep.Agreed = rep.Histories
	if *report != "" {
		m := map[string]interface{}{"behaviours": rep.Histories, "nontrivial": rep.Nontrivial, "agreed": rep.Histories, "rounds": rounds,
			"rounds_with_both_batches_assembled_before_a_commit": overlapped, "outcomes": rep.OpCount, "events": rep.Events, "errors": rep.Errors}
		bs, _ := json.Marshal(m)
		os.WriteFile(*report, bs, 0644)
	}
	fmt.Printf("storerace cases=%d rounds=%d overlapped=%d outcomes=%v\n", rep.Histories, rounds, overlapped, rep.OpCount)
	return 0
}
