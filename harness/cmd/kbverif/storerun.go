package main

import (
	"bufio"
	"context"
	"encoding/json"
	"flag"
	"fmt"
	"io"
	"os"
	"strings"
	"sync/atomic"
	"time"

	"github.com/kubewharf/kubebrain/pkg/storage"

	"kbverif/gate"
	"kbverif/kb"
)

// ---- behaviours of spec/Storage.tla ----
type stOp struct {
	O   string `json:"o"`
	K   int    `json:"k"`
	V   string `json:"v"`
	Old string `json:"old"`
}
type stStep struct {
	E     string `json:"e"`
	Ops   []stOp `json:"ops"`
	Res   string `json:"res"`
	K     int    `json:"k"`
	V     string `json:"v"`
	ID    int    `json:"id"`
	S     int    `json:"s"`
	En    int    `json:"en"`
	Limit int    `json:"limit"`
}
type stBehaviour struct {
	Steps []stStep `json:"steps"`
}

var stSeq int64

// positions map to byte keys in the same order; the table contains keys that are prefixes of one
// another and the bytes 0x00 / 0xff next to a shared prefix, where bound arithmetic goes wrong first
var posNames = []string{"a", "a\x00", "a\x01", "ab", "b", "b\xff", "c", "c0", "d"}

func posKey(prefix string, p int) []byte {
	if p >= 1 && p <= len(posNames) {
		return []byte(prefix + posNames[p-1])
	}
	if p <= 0 {
		return []byte(prefix + "0") // below every key of the table
	}
	return []byte(prefix + "z") // above every key of the table
}

// keyPos is the inverse of posKey (0: not a key of the table)
func keyPos(prefix string, key []byte) int {
	for i, n := range posNames {
		if string(key) == prefix+n {
			return i + 1
		}
	}
	if len(key) > 0 {
		return int(key[len(key)-1] - '0')
	}
	return 0
}

// cmdStoreRun (C11) executes operation sequences generated from spec/Storage.tla directly on a
// storage adapter (no backend) and records every result.
func cmdStoreRun(args []string) int {
	fs := flag.NewFlagSet("storerun", flag.ExitOnError)
	in := fs.String("in", "", "behaviours")
	out := fs.String("out", "", "trace output")
	report := fs.String("report", "", "report output")
	engine := fs.String("engine", "memkv", "engines (comma separated)")
	shard := fs.Int("shard", 0, "shard")
	shards := fs.Int("shards", 1, "shards")
	fs.Parse(args)
	kb.QuietLogs()
	names := strings.Split(*engine, ",")
	engs := map[string]*kb.Engine{}
	for _, n := range names {
		e, err := kb.NewEngine(n)
		if err != nil {
			fmt.Println(err)
			return 2
		}
		defer e.Close()
		engs[n] = e
	}
	f, err := os.Open(*in)
	if err != nil {
		fmt.Println(err)
		return 2
	}
	defer f.Close()
	w, err := os.Create(*out)
	if err != nil {
		fmt.Println(err)
		return 2
	}
	bw := bufio.NewWriterSize(w, 1<<20)
	rep := &seqReport{OpCount: map[string]int{}, Engine: *engine}
	start := time.Now()
	sc := bufio.NewScanner(f)
	sc.Buffer(make([]byte, 1<<20), 1<<26)
	n := 0
	emit := func(e gate.Event) {
		bs, _ := json.Marshal(e)
		bw.Write(bs)
		bw.WriteByte('\n')
		rep.Events++
	}
	ctx := context.Background()
	for sc.Scan() {
		line := sc.Text()
		if strings.TrimSpace(line) == "" {
			continue
		}
		n++
		if (n-1)%*shards != *shard {
			continue
		}
		var b stBehaviour
		if err := json.Unmarshal([]byte(line), &b); err != nil {
			rep.Errors++
			continue
		}
		rep.Histories++
		if len(rep.Samples) < 2 {
			rep.Samples = append(rep.Samples, line)
		}
		if len(b.Steps) >= 2 {
			rep.Nontrivial++
		}
		for _, en := range names {
			kv := engs[en].KV
			prefix := fmt.Sprintf("/s%d/", atomic.AddInt64(&stSeq, 1))
			emit(gate.Event{"e": "SReset", "engine": en})
			var iters []storage.Iter
			mismatch := false
			for _, s := range b.Steps {
				rep.Ops++
				rep.OpCount[s.E]++
				switch s.E {
				case "SCommit":
					bt := kv.BeginBatchWrite()
					ops := []interface{}{}
					for _, o := range s.Ops {
						k := posKey(prefix, o.K)
						switch o.O {
						case "pine":
							bt.PutIfNotExist(k, []byte(o.V), 0)
						case "cas":
							bt.CAS(k, []byte(o.V), []byte(o.Old), 0)
						case "put":
							bt.Put(k, []byte(o.V), 0)
						case "del":
							bt.Del(k)
						}
						ops = append(ops, gate.Event{"o": o.O, "k": o.K, "v": o.V, "old": o.Old})
					}
					err := bt.Commit(ctx)
					res := gate.ErrClass(err)
					emit(gate.Event{"e": "SCommit", "ops": ops, "res": res, "engine": en})
					if res != s.Res {
						mismatch = true
					}
				case "SGet":
					v, err := kv.Get(ctx, posKey(prefix, s.K))
					val := string(v)
					if err == storage.ErrKeyNotFound {
						val = "<absent>"
					} else if err != nil {
						val = "<error>"
					}
					emit(gate.Event{"e": "SGet", "k": s.K, "v": val, "engine": en})
					if val != s.V {
						mismatch = true
					}
				case "SDel":
					err := kv.Del(ctx, posKey(prefix, s.K))
					emit(gate.Event{"e": "SDel", "k": s.K, "res": gate.ErrClass(err), "engine": en})
				case "SIterOpen":
					it, err := kv.Iter(ctx, posKey(prefix, s.S), posKey(prefix, s.En), 0, uint64(s.Limit))
					iters = append(iters, it)
					emit(gate.Event{"e": "SIterOpen", "id": len(iters), "s": s.S, "en": s.En, "limit": s.Limit, "res": gate.ErrClass(err), "engine": en})
				case "SIterNext":
					it := iters[s.ID-1]
					err := it.Next(ctx)
					ev := gate.Event{"e": "SIterNext", "id": s.ID, "res": gate.ErrClass(err), "k": 0, "v": "", "engine": en}
					if err == nil {
						ev["k"] = keyPos(prefix, it.Key())
						ev["v"] = string(it.Val())
						if ev["k"] != s.K || ev["v"] != s.V {
							mismatch = true
						}
					} else {
						mismatch = true
					}
					emit(ev)
				case "SIterDrain":
					it := iters[s.ID-1]
					items := []interface{}{}
					res := "eof"
					for i := 0; i < 100; i++ {
						err := it.Next(ctx)
						if err == io.EOF {
							break
						}
						if err != nil {
							res = "err"
							break
						}
						items = append(items, []interface{}{keyPos(prefix, it.Key()), string(it.Val())})
					}
					emit(gate.Event{"e": "SIterDrain", "id": s.ID, "items": items, "res": res, "engine": en})
				case "SDelCur":
					it := iters[s.ID-1]
					err := kv.DelCurrent(ctx, it)
					res := gate.ErrClass(err)
					emit(gate.Event{"e": "SDelCur", "id": s.ID, "k": s.K, "res": res, "engine": en})
					if res != s.Res {
						mismatch = true
					}
				}
			}
			for _, it := range iters {
				if it != nil {
					it.Close()
				}
			}
			if mismatch {
				rep.ObsMismatch++
				if len(rep.MismatchNotes) < 5 {
					rep.MismatchNotes = append(rep.MismatchNotes, en+": "+line)
				}
			} else {
				rep.Agreed++
			}
		}
	}
	bw.Flush()
	w.Close()
	rep.WallS = time.Since(start).Seconds()
	if *report != "" {
		bs, _ := json.MarshalIndent(rep, "", " ")
		os.WriteFile(*report, bs, 0644)
	}
	fmt.Printf("storerun engines=%s sequences=%d agreed=%d obs_mismatch=%d ops=%d events=%d wall=%.1fs\n", *engine, rep.Histories, rep.Agreed, rep.ObsMismatch, rep.Ops, rep.Events, rep.WallS)
	return 0
}
