package main

import (
	"context"
	"encoding/json"
	"fmt"
	"sort"
	"time"

	proto "github.com/kubewharf/kubebrain-client/api/v2rpc"

	"kbverif/gate"
)

type watchState struct {
	name     string
	req      specWatchReq
	prefix   string
	ch       <-chan []*proto.Event
	err      error
	cancel   context.CancelFunc
	returned bool
	received []specEvent
	closed   bool
	launched bool
}

func (rs *runState) watchReqs() map[string]specWatchReq {
	m := map[string]specWatchReq{}
	if len(rs.b.XReq) > 0 && rs.b.XReq[0] == '{' {
		_ = json.Unmarshal(rs.b.XReq, &m)
	}
	return m
}

func (rs *runState) isWatcher(p string) bool {
	_, ok := rs.watch[p]
	return ok
}

func (rs *runState) prefixTable() []interface{} {
	var out []interface{}
	for _, p := range rs.cfg.Prefixes {
		var ks []interface{}
		for i := range rs.env.Keys.Names {
			if rs.env.HasPrefix(i+1, rs.env.Prefix+p) {
				ks = append(ks, i+1)
			}
		}
		if ks == nil {
			ks = []interface{}{}
		}
		out = append(out, ks)
	}
	return out
}

func (rs *runState) initWatch() {
	for w, rq := range rs.watchReqs() {
		rs.watch[w] = &watchState{name: w, req: rq, prefix: rs.env.Prefix + rs.cfg.Prefixes[rq.Prefix]}
	}
}

func (rs *runState) launchWatcher(ws *watchState) {
	env := rs.env
	ctx, cancel := context.WithCancel(context.Background())
	ws.cancel = cancel
	ws.launched = true
	started := make(chan struct{})
	go func() {
		env.Sched.Register(ws.name)
		env.Rec.Log(gate.Event{"e": "WatchInvoke", "w": ws.name, "prefix": ws.req.Prefix, "start": gate.Clip(ws.req.Start)})
		close(started)
		ch, err := env.B.Watch(ctx, ws.prefix, ws.req.Start)
		rs.resMu.Lock()
		ws.ch, ws.err, ws.returned = ch, err, true
		rs.resMu.Unlock()
		env.Rec.Log(gate.Event{"e": "WatchReturn", "w": ws.name, "prefix": ws.req.Prefix, "start": gate.Clip(ws.req.Start), "ok": err == nil})
		env.Sched.Finish(ws.name)
	}()
	<-started
}

var noStops = map[string]bool{}

func (rs *runState) execWatchStep(s specStep) error {
	env := rs.env
	to := rs.cfg.Timeout
	ws := rs.watch[s.P]
	if ws == nil {
		return fmt.Errorf("unknown watcher %s", s.P)
	}
	pe := s.P + ".pe"
	switch s.A {
	case "Subscribe":
		rs.launchWatcher(ws)
		st, err := env.Sched.RunToStop(s.P, map[string]bool{"watch.subscribed": true}, to)
		if err != nil {
			return err
		}
		if st.Finished {
			return fmt.Errorf("Subscribe: Watch returned before watch.subscribed")
		}
		return nil
	case "CacheRead":
		st, err := env.Sched.WaitStop(s.P, to)
		if err != nil {
			return err
		}
		if st.Finished || st.Label != "watch.subscribed" {
			return fmt.Errorf("CacheRead: %s at %q finished=%v", s.P, st.Label, st.Finished)
		}
		_, err = env.Sched.Step(s.P, map[string]bool{"watch.cacheread": true}, to)
		return err
	case "Decide":
		st, err := env.Sched.WaitStop(s.P, to)
		if err != nil {
			return err
		}
		if st.Finished {
			return fmt.Errorf("Decide: %s already returned", s.P)
		}
		if !rs.diverged && st.Label != s.G {
			return fmt.Errorf("Decide: %s is at gate %s, specification expects %s", s.P, st.Label, s.G)
		}
		st, err = env.Sched.Step(s.P, noStops, to)
		if err != nil {
			return err
		}
		return nil
	case "Process":
		st, err := env.Sched.WaitStop(pe, to)
		if err != nil {
			return err
		}
		if st.Label != "watch.process" {
			return fmt.Errorf("Process: %s at %q", pe, st.Label)
		}
		if _, err = env.Sched.Step(pe, map[string]bool{"watch.processed": true, "watch.closing": true}, to); err != nil {
			return err
		}
		return rs.releasePE(pe)
	case "CloseOut":
		st, err := env.Sched.WaitStop(pe, to)
		if err != nil {
			return err
		}
		if st.Label != "watch.closing" {
			return fmt.Errorf("CloseOut: %s at %q", pe, st.Label)
		}
		if err := env.Sched.Release(pe); err != nil {
			return err
		}
		// the client channel is closed right after the gate
		deadline := time.Now().Add(to)
		for time.Now().Before(deadline) {
			rs.drainWatch()
			if ws.closed {
				return nil
			}
			time.Sleep(20 * time.Microsecond)
		}
		return fmt.Errorf("CloseOut: client channel of %s not closed", s.P)
	}
	return fmt.Errorf("unknown watcher action %s", s.A)
}

// releasePE lets the forwarding loop go back to its channel receive. If a batch is already
// buffered it parks again at watch.process almost at once; give it that moment so that the hub's
// next delivery sees the same buffer occupancy as the specification.
func (rs *runState) releasePE(pe string) error {
	env := rs.env
	st := env.Sched.Peek(pe)
	if !st.Parked {
		return nil
	}
	if st.Label == "watch.closing" {
		return nil // CloseOut is its own step
	}
	if err := env.Sched.Release(pe); err != nil {
		return err
	}
	deadline := time.Now().Add(300 * time.Microsecond)
	for time.Now().Before(deadline) {
		if s := env.Sched.Peek(pe); s.Parked {
			break
		}
		time.Sleep(10 * time.Microsecond)
	}
	return nil
}

func (rs *runState) execHubStep(s specStep) error {
	env := rs.env
	to := rs.cfg.Timeout
	st, err := env.Sched.WaitStop("hub", to)
	if err != nil {
		return err
	}
	if st.Label != "hub.item" {
		return fmt.Errorf("HubDeliver: hub at %q", st.Label)
	}
	if _, err = env.Sched.Step("hub", map[string]bool{"hub.delivered": true}, to); err != nil {
		return err
	}
	if err = env.Sched.Release("hub"); err != nil {
		return err
	}
	// receivers that were waiting park at watch.process holding the batch
	for w := range rs.watch {
		pe := w + ".pe"
		if s := env.Sched.Peek(pe); s.Exists && !s.Parked && !s.Finished {
			deadline := time.Now().Add(300 * time.Microsecond)
			for time.Now().Before(deadline) {
				if s := env.Sched.Peek(pe); s.Parked {
					break
				}
				time.Sleep(10 * time.Microsecond)
			}
		}
	}
	return nil
}

func evToSpec(rs *runState, e *proto.Event) specEvent {
	se := specEvent{Type: e.Type.String(), Rev: e.Revision}
	if e.Kv != nil {
		se.Key = rs.env.Keys.Num(e.Kv.Key)
		se.Val = string(e.Kv.Value)
		se.KvRev = e.Kv.Revision
	}
	return se
}

// drainWatch moves everything available on the client channels into the received lists.
func (rs *runState) drainWatch() {
	names := make([]string, 0, len(rs.watch))
	for w := range rs.watch {
		names = append(names, w)
	}
	sort.Strings(names)
	for _, w := range names {
		ws := rs.watch[w]
		rs.resMu.Lock()
		ch, returned := ws.ch, ws.returned
		rs.resMu.Unlock()
		if !returned || ch == nil || ws.closed {
			continue
		}
		for {
			stop := false
			select {
			case batch, ok := <-ch:
				if !ok {
					ws.closed = true
					rs.env.Rec.Log(gate.Event{"e": "Closed", "w": w})
					stop = true
					break
				}
				var evs []interface{}
				for _, e := range batch {
					se := evToSpec(rs, e)
					ws.received = append(ws.received, se)
					evs = append(evs, []interface{}{se.Type, se.Key, gate.Clip(se.Rev), se.Val, gate.Clip(se.KvRev)})
				}
				rs.env.Rec.Log(gate.Event{"e": "Recv", "w": w, "evs": evs})
			default:
				stop = true
			}
			if stop {
				break
			}
		}
	}
}

// finishWatch pushes hub and watchers forward at process level; reports progress.
func (rs *runState) finishWatch() bool {
	env := rs.env
	to := rs.cfg.Timeout
	progressed := false
	if len(rs.watch) == 0 {
		// nobody watches: let the hub drain
		if st := env.Sched.Peek("hub"); st.Exists && st.Parked {
			env.Sched.Release("hub")
			return true
		}
		return false
	}
	if st := env.Sched.Peek("hub"); st.Exists && st.Parked {
		if st.Label == "hub.item" {
			env.Sched.Step("hub", map[string]bool{"hub.delivered": true}, to)
		}
		env.Sched.Release("hub")
		progressed = true
		time.Sleep(100 * time.Microsecond)
	}
	for w, ws := range rs.watch {
		if !ws.launched && rs.diverged {
			rs.launchWatcher(ws)
			env.Sched.RunToStop(w, map[string]bool{"watch.subscribed": true}, to)
			progressed = true
		}
		if st := env.Sched.Peek(w); st.Exists && st.Parked {
			env.Sched.Step(w, noStops, to)
			progressed = true
		}
		pe := w + ".pe"
		if st := env.Sched.Peek(pe); st.Exists && st.Parked {
			switch st.Label {
			case "watch.process":
				env.Sched.Step(pe, map[string]bool{"watch.processed": true, "watch.closing": true}, to)
				rs.releasePE(pe)
			default:
				env.Sched.Release(pe)
				time.Sleep(100 * time.Microsecond)
			}
			progressed = true
		}
	}
	rs.drainWatch()
	return progressed
}

func (rs *runState) compareWatch() []string {
	var diffs []string
	if len(rs.watch) == 0 {
		return nil
	}
	want := map[string][]specEvent{}
	if len(rs.b.Final.Delivered) > 0 && rs.b.Final.Delivered[0] == '{' {
		_ = json.Unmarshal(rs.b.Final.Delivered, &want)
	}
	xres := map[string]string{}
	if len(rs.b.Final.XRes) > 0 && rs.b.Final.XRes[0] == '{' {
		_ = json.Unmarshal(rs.b.Final.XRes, &xres)
	}
	closed := map[string]bool{}
	if len(rs.b.Final.Closed) > 0 && rs.b.Final.Closed[0] == '{' {
		_ = json.Unmarshal(rs.b.Final.Closed, &closed)
	}
	for w, ws := range rs.watch {
		if fmt.Sprint(ws.received) != fmt.Sprint(want[w]) {
			diffs = append(diffs, fmt.Sprintf("watch %s delivered: real %v spec %v", w, ws.received, want[w]))
		}
		switch xres[w] {
		case "ok":
			if !ws.returned || ws.err != nil {
				diffs = append(diffs, fmt.Sprintf("watch %s: real refused (%v), spec accepted", w, ws.err))
			}
		case "refused":
			if !ws.returned || ws.err == nil {
				diffs = append(diffs, fmt.Sprintf("watch %s: real accepted, spec refused", w))
			}
		}
		if closed[w] != ws.closed {
			diffs = append(diffs, fmt.Sprintf("watch %s closed: real %v spec %v", w, ws.closed, closed[w]))
		}
	}
	return diffs
}
