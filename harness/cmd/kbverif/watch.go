package main

import (
	"context"
	"encoding/json"
	"fmt"
	"sort"
	"time"

	proto "github.com/kubewharf/kubebrain-client/api/v2rpc"

	"github.com/kubewharf/kubebrain/pkg/backend"

	"kbverif/gate"
)

type watchState struct {
	sub        chan []*proto.Event // the hub's channel of this watcher (buffer scaling only)
	subClosed  bool
	fillPushed int
	spawned    bool
	name       string
	req        specWatchReq
	prefix     string
	ch         <-chan []*proto.Event
	err        error
	cancel     context.CancelFunc
	returned   bool
	received   []specEvent
	closed     bool
	launched   bool
	start      uint64 // effective start revision (list-then-watch: header of the list + 1)
}

func (rs *runState) watchReqs() map[string]specWatchReq {
	m := map[string]specWatchReq{}
	if len(rs.b.XReq) > 0 && rs.b.XReq[0] == '{' {
		_ = json.Unmarshal(rs.b.XReq, &m)
	}
	return m
}

func (rs *runState) isWatcher(p string) bool {
	_, ok := rs.watch[p]
	return ok
}

func (rs *runState) prefixTable() []interface{} {
	var out []interface{}
	for _, p := range rs.cfg.Prefixes {
		var ks []interface{}
		for i := range rs.env.Keys.Names {
			if rs.env.HasPrefix(i+1, rs.env.Prefix+p) {
				ks = append(ks, i+1)
			}
		}
		if ks == nil {
			ks = []interface{}{}
		}
		out = append(out, ks)
	}
	return out
}

func (rs *runState) initWatch() {
	for w, rq := range rs.watchReqs() {
		ws := &watchState{name: w, req: rq, prefix: rs.env.Prefix + rs.cfg.Prefixes[rq.Prefix]}
		if rq.Start > 0 && rq.Start != listMark {
			ws.start = uint64(rq.Start)
		}
		rs.watch[w] = ws
	}
}

func (rs *runState) launchWatcher(ws *watchState) {
	env := rs.env
	ctx, cancel := context.WithCancel(context.Background())
	ws.cancel = cancel
	ws.launched = true
	started := make(chan struct{})
	go func() {
		env.Sched.Register(ws.name)
		env.Rec.Log(gate.Event{"e": "WatchInvoke", "w": ws.name, "prefix": ws.req.Prefix, "start": gate.Clip(ws.start)})
		close(started)
		ch, err := env.B.Watch(ctx, ws.prefix, ws.start)
		rs.resMu.Lock()
		ws.ch, ws.err, ws.returned = ch, err, true
		rs.resMu.Unlock()
		env.Rec.Log(gate.Event{"e": "WatchReturn", "w": ws.name, "prefix": ws.req.Prefix, "start": gate.Clip(ws.start), "ok": err == nil})
		env.Sched.Finish(ws.name)
	}()
	<-started
}

var noStops = map[string]bool{}

// listMark is the start value that stands for "list first, then watch from the list revision + 1".
const listMark = 999

func (rs *runState) execWatchStep(s specStep) error {
	env := rs.env
	to := rs.cfg.Timeout
	ws := rs.watch[s.P]
	if ws == nil {
		return fmt.Errorf("unknown watcher %s", s.P)
	}
	pe := s.P + ".pe"
	switch s.A {
	case "ListFirst":
		// list the prefix (runs to completion as one step), then watch from header + 1
		done := make(chan uint64, 1)
		go func() {
			env.Sched.Register(s.P)
			lo := bound{ws.prefix, 0}
			hi := bound{string(backend.PrefixEnd([]byte(ws.prefix))), 0}
			for i := 1; i <= len(env.Keys.Names); i++ {
				if string(env.Keys.Raw(i)) < lo.raw {
					lo.ceil = i + 1
				}
				if string(env.Keys.Raw(i)) < hi.raw {
					hi.ceil = i + 1
				}
			}
			if lo.ceil == 0 {
				lo.ceil = 1
			}
			if hi.ceil == 0 {
				hi.ceil = 1
			}
			env.Rec.Log(gate.Event{"e": "RInvoke", "p": s.P, "op": "list", "k": 0, "lo": lo.ceil, "hi": hi.ceil, "rev": 0, "limit": 0, "pfx": ws.req.Prefix})
			resp, err := env.B.List(context.Background(), &proto.RangeRequest{Key: []byte(lo.raw), End: []byte(hi.raw)})
			ev := gate.Event{"e": "RReturn", "p": s.P, "op": "list", "err": errStr(err), "hdr": 0, "kvs": []interface{}{}, "more": false, "count": 0}
			var hdr uint64
			if err == nil {
				hdr = resp.Header.GetRevision()
				ev["hdr"] = gate.Clip(hdr)
				ev["kvs"] = kvList(env, resp.Kvs)
			}
			env.Rec.Log(ev)
			env.Sched.Finish(s.P)
			done <- hdr
		}()
		if _, err := env.Sched.RunToStop(s.P, noStops, to); err != nil {
			return err
		}
		ws.start = <-done + 1
		return nil
	case "Subscribe":
		before := map[chan []*proto.Event]bool{}
		if rs.cfg.SubCap > 0 {
			for _, c := range backend.VerifSubs(env.B) {
				before[c] = true
			}
		}
		rs.launchWatcher(ws)
		st, err := env.Sched.RunToStop(s.P, map[string]bool{"watch.subscribed": true}, to)
		if err != nil {
			return err
		}
		if st.Finished {
			return fmt.Errorf("Subscribe: Watch returned before watch.subscribed")
		}
		if rs.cfg.SubCap > 0 {
			for _, c := range backend.VerifSubs(env.B) {
				if !before[c] {
					ws.sub = c
				}
			}
			rs.topUp(ws)
		}
		return nil
	case "CacheRead":
		st, err := env.Sched.WaitStop(s.P, to)
		if err != nil {
			return err
		}
		if st.Finished || st.Label != "watch.subscribed" {
			return fmt.Errorf("CacheRead: %s at %q finished=%v", s.P, st.Label, st.Finished)
		}
		_, err = env.Sched.Step(s.P, map[string]bool{"watch.cacheread": true}, to)
		return err
	case "Decide":
		st, err := env.Sched.WaitStop(s.P, to)
		if err != nil {
			return err
		}
		if st.Finished {
			return fmt.Errorf("Decide: %s already returned", s.P)
		}
		if !rs.diverged && st.Label != s.G {
			return fmt.Errorf("Decide: %s is at gate %s, specification expects %s", s.P, st.Label, s.G)
		}
		reals := rs.realsQueued(ws)
		st, err = env.Sched.Step(s.P, noStops, to)
		if err != nil {
			return err
		}
		rs.resMu.Lock()
		accepted := ws.err == nil
		rs.resMu.Unlock()
		if accepted {
			ws.spawned = true
			rs.settlePE(ws, reals >= 1)
		}
		return nil
	case "Process":
		st, err := env.Sched.WaitStop(pe, to)
		if err != nil {
			return err
		}
		if st.Label != "watch.process" {
			return fmt.Errorf("Process: %s at %q", pe, st.Label)
		}
		reals := rs.realsQueued(ws)
		rs.checkSubClosed(ws)
		if _, err = env.Sched.Step(pe, map[string]bool{"watch.processed": true, "watch.closing": true}, to); err != nil {
			return err
		}
		if err = rs.releasePE(pe); err != nil {
			return err
		}
		// a closed and drained channel makes the loop park at watch.closing
		rs.settlePE(ws, reals >= 1 || ws.subClosed)
		return nil
	case "CloseOut":
		st, err := env.Sched.WaitStop(pe, to)
		if err != nil {
			return err
		}
		if st.Label != "watch.closing" {
			return fmt.Errorf("CloseOut: %s at %q", pe, st.Label)
		}
		if err := env.Sched.Release(pe); err != nil {
			return err
		}
		// the client channel is closed right after the gate
		deadline := time.Now().Add(to)
		for time.Now().Before(deadline) {
			rs.drainWatch()
			if ws.closed {
				return nil
			}
			time.Sleep(20 * time.Microsecond)
		}
		return fmt.Errorf("CloseOut: client channel of %s not closed", s.P)
	}
	return fmt.Errorf("unknown watcher action %s", s.A)
}

// ---- buffer scaling -------------------------------------------------------------------------
// The specification explores subscriber buffers of capacity SubCap (1 or 2); the real buffer
// holds 10000 batches. The replayer keeps F = 10000 - SubCap EMPTY batches ("fillers") in the
// real channel whenever the forwarding loop is not free to consume them (before it is spawned,
// and while it is parked holding a batch). Empty batches are invisible to the client (filtered
// to nothing) and do not park the loop, so the abstract occupancy n corresponds to the real
// occupancy F + n and the hub's "buffer full" branch is reached exactly when the model reaches it.

func (rs *runState) fillersPresent(ws *watchState) int {
	return ws.fillPushed - rs.env.FillersPassed(ws.name+".pe")
}

func (rs *runState) checkSubClosed(ws *watchState) {
	if ws.sub == nil || ws.subClosed {
		return
	}
	for _, c := range backend.VerifSubs(rs.env.B) {
		if c == ws.sub {
			return
		}
	}
	ws.subClosed = true
}

// topUp brings the number of fillers in the channel back to F (non-blocking).
func (rs *runState) topUp(ws *watchState) {
	if rs.cfg.SubCap <= 0 || ws.sub == nil {
		return
	}
	rs.checkSubClosed(ws)
	if ws.subClosed {
		return
	}
	need := backend.VerifWatchBuffer - rs.cfg.SubCap - rs.fillersPresent(ws)
	for i := 0; i < need; i++ {
		select {
		case ws.sub <- []*proto.Event{}:
			ws.fillPushed++
		default:
			return
		}
	}
}

// realsQueued is the number of non-filler batches in the channel (exact while the loop is parked).
func (rs *runState) realsQueued(ws *watchState) int {
	if ws.sub == nil {
		return 0
	}
	return len(ws.sub) - rs.fillersPresent(ws)
}

// settlePE waits until the forwarding loop of ws is parked holding a real batch (expectPark), or
// has consumed everything and waits for the hub; then restores the fillers if it is parked.
func (rs *runState) settlePE(ws *watchState, expectPark bool) {
	if rs.cfg.SubCap <= 0 || ws.sub == nil || !ws.spawned {
		return
	}
	env := rs.env
	pe := ws.name + ".pe"
	deadline := time.Now().Add(rs.cfg.Timeout)
	for time.Now().Before(deadline) {
		st := env.Sched.Peek(pe)
		if st.Exists && st.Parked {
			if st.Label == "watch.process" {
				rs.topUp(ws)
			}
			return
		}
		if !expectPark && rs.fillersPresent(ws) == 0 && len(ws.sub) == 0 {
			return // everything consumed: the loop blocks in its receive
		}
		time.Sleep(10 * time.Microsecond)
	}
	rs.note("settle: forwarding loop of %s neither parked nor drained", ws.name)
}

// releasePE lets the forwarding loop go back to its channel receive. If a batch is already
// buffered it parks again at watch.process almost at once; give it that moment so that the hub's
// next delivery sees the same buffer occupancy as the specification.
func (rs *runState) releasePE(pe string) error {
	env := rs.env
	st := env.Sched.Peek(pe)
	if !st.Parked {
		return nil
	}
	if st.Label == "watch.closing" {
		return nil // CloseOut is its own step
	}
	if err := env.Sched.Release(pe); err != nil {
		return err
	}
	deadline := time.Now().Add(300 * time.Microsecond)
	for time.Now().Before(deadline) {
		if s := env.Sched.Peek(pe); s.Parked {
			break
		}
		time.Sleep(10 * time.Microsecond)
	}
	return nil
}

func (rs *runState) execHubStep(s specStep) error {
	env := rs.env
	to := rs.cfg.Timeout
	st, err := env.Sched.WaitStop("hub", to)
	if err != nil {
		return err
	}
	if st.Label != "hub.item" {
		return fmt.Errorf("HubDeliver: hub at %q", st.Label)
	}
	waitingBefore := map[string]bool{}
	for _, ws := range rs.watch {
		if st := env.Sched.Peek(ws.name + ".pe"); ws.spawned && !ws.subClosed && !(st.Exists && st.Parked) {
			waitingBefore[ws.name] = true
		}
	}
	if _, err = env.Sched.Step("hub", map[string]bool{"hub.delivered": true}, to); err != nil {
		return err
	}
	if err = env.Sched.Release("hub"); err != nil {
		return err
	}
	for _, ws := range rs.watch {
		rs.checkSubClosed(ws)
		// a waiting receiver takes the batch at once and parks holding it
		rs.settlePE(ws, waitingBefore[ws.name])
	}
	// receivers that were waiting park at watch.process holding the batch
	for w := range rs.watch {
		pe := w + ".pe"
		if s := env.Sched.Peek(pe); s.Exists && !s.Parked && !s.Finished {
			deadline := time.Now().Add(300 * time.Microsecond)
			for time.Now().Before(deadline) {
				if s := env.Sched.Peek(pe); s.Parked {
					break
				}
				time.Sleep(10 * time.Microsecond)
			}
		}
	}
	return nil
}

func evToSpec(rs *runState, e *proto.Event) specEvent {
	se := specEvent{Type: e.Type.String(), Rev: e.Revision}
	if e.Kv != nil {
		se.Key = rs.env.Keys.Num(e.Kv.Key)
		se.Val = string(e.Kv.Value)
		se.KvRev = e.Kv.Revision
	}
	return se
}

// drainWatch moves everything available on the client channels into the received lists.
func (rs *runState) drainWatch() {
	names := make([]string, 0, len(rs.watch))
	for w := range rs.watch {
		names = append(names, w)
	}
	sort.Strings(names)
	for _, w := range names {
		ws := rs.watch[w]
		rs.resMu.Lock()
		ch, returned := ws.ch, ws.returned
		rs.resMu.Unlock()
		if !returned || ch == nil || ws.closed {
			continue
		}
		for {
			stop := false
			select {
			case batch, ok := <-ch:
				if !ok {
					ws.closed = true
					rs.env.Rec.Log(gate.Event{"e": "Closed", "w": w})
					stop = true
					break
				}
				var evs []interface{}
				for _, e := range batch {
					se := evToSpec(rs, e)
					ws.received = append(ws.received, se)
					evs = append(evs, []interface{}{se.Type, se.Key, gate.Clip(se.Rev), se.Val, gate.Clip(se.KvRev)})
				}
				rs.env.Rec.Log(gate.Event{"e": "Recv", "w": w, "evs": evs})
			default:
				stop = true
			}
			if stop {
				break
			}
		}
	}
}

// finishWatch pushes hub and watchers forward at process level; reports progress.
func (rs *runState) finishWatch() bool {
	env := rs.env
	to := rs.cfg.Timeout
	progressed := false
	if len(rs.watch) == 0 {
		// nobody watches: let the hub drain
		if st := env.Sched.Peek("hub"); st.Exists && st.Parked {
			env.Sched.Release("hub")
			return true
		}
		return false
	}
	if st := env.Sched.Peek("hub"); st.Exists && st.Parked {
		if st.Label == "hub.item" {
			env.Sched.Step("hub", map[string]bool{"hub.delivered": true}, to)
		}
		env.Sched.Release("hub")
		progressed = true
		time.Sleep(100 * time.Microsecond)
	}
	for w, ws := range rs.watch {
		if !ws.launched && rs.diverged {
			rs.launchWatcher(ws)
			env.Sched.RunToStop(w, map[string]bool{"watch.subscribed": true}, to)
			progressed = true
		}
		if st := env.Sched.Peek(w); st.Exists && st.Parked {
			env.Sched.Step(w, noStops, to)
			progressed = true
		}
		pe := w + ".pe"
		if st := env.Sched.Peek(pe); st.Exists && st.Parked {
			switch st.Label {
			case "watch.process":
				env.Sched.Step(pe, map[string]bool{"watch.processed": true, "watch.closing": true}, to)
				rs.releasePE(pe)
			default:
				env.Sched.Release(pe)
				time.Sleep(100 * time.Microsecond)
			}
			progressed = true
		}
	}
	rs.drainWatch()
	return progressed
}

func (rs *runState) compareWatch() []string {
	var diffs []string
	if len(rs.watch) == 0 {
		return nil
	}
	want := map[string][]specEvent{}
	if len(rs.b.Final.Delivered) > 0 && rs.b.Final.Delivered[0] == '{' {
		_ = json.Unmarshal(rs.b.Final.Delivered, &want)
	}
	xres := map[string]string{}
	if len(rs.b.Final.XRes) > 0 && rs.b.Final.XRes[0] == '{' {
		_ = json.Unmarshal(rs.b.Final.XRes, &xres)
	}
	closed := map[string]bool{}
	if len(rs.b.Final.Closed) > 0 && rs.b.Final.Closed[0] == '{' {
		_ = json.Unmarshal(rs.b.Final.Closed, &closed)
	}
	for w, ws := range rs.watch {
		if fmt.Sprint(ws.received) != fmt.Sprint(want[w]) {
			diffs = append(diffs, fmt.Sprintf("watch %s delivered: real %v spec %v", w, ws.received, want[w]))
		}
		switch xres[w] {
		case "ok":
			if !ws.returned || ws.err != nil {
				diffs = append(diffs, fmt.Sprintf("watch %s: real refused (%v), spec accepted", w, ws.err))
			}
		case "refused":
			if !ws.returned || ws.err == nil {
				diffs = append(diffs, fmt.Sprintf("watch %s: real accepted, spec refused", w))
			}
		}
		if closed[w] != ws.closed {
			diffs = append(diffs, fmt.Sprintf("watch %s closed: real %v spec %v", w, ws.closed, closed[w]))
		}
	}
	return diffs
}
