package main

import (
	"bufio"
	"context"
	"encoding/json"
	"flag"
	"fmt"
	"os"
	"sort"
	"strings"
	"sync/atomic"
	"time"

	proto "github.com/kubewharf/kubebrain-client/api/v2rpc"

	"github.com/kubewharf/kubebrain/pkg/backend"

	"kbverif/gate"
	"kbverif/kb"
)

var skipSeq int64

// positions of Borders.tla -> key names relative to the main prefix P (the last two live under the
// sibling prefix P+"2", which option.Validate accepts as a skipped prefix because P is a string prefix of it)
var skipKeyNames = []string{"/0", "/a/x/k", "/a/y", "/b/a", "/b/m/1", "/b/m/2", "/b/z", "/c", "2/k1", "2/k2"}

// intervals of Borders.tla -> skipped prefix relative to P
var skipIntervals = map[string]string{"2,4": "/a", "2,3": "/a/x", "4,8": "/b", "5,7": "/b/m", "9,11": "2"}

// cmdSkipRun (C07): a backend with a prefix and skipped prefixes, ten keys with two versions each, one
// compaction; which keys did the compactor touch?
func cmdSkipRun(args []string) int {
	fs := flag.NewFlagSet("skiprun", flag.ExitOnError)
	in := fs.String("in", "", "configurations")
	out := fs.String("out", "", "trace output")
	report := fs.String("report", "", "report output")
	engine := fs.String("engine", "memkv", "engines (comma separated)")
	shard := fs.Int("shard", 0, "shard")
	shards := fs.Int("shards", 1, "shards")
	fs.Parse(args)
	kb.QuietLogs()
	backend.VerifSetRetryIntervals(0, time.Millisecond)
	names := strings.Split(*engine, ",")
	engs := map[string]*kb.Engine{}
	for _, n := range names {
		e, err := kb.NewEngine(n)
		if err != nil {
			fmt.Println(err)
			return 2
		}
		defer e.Close()
		engs[n] = e
	}
	f, err := os.Open(*in)
	if err != nil {
		fmt.Println(err)
		return 2
	}
	defer f.Close()
	w, err := os.Create(*out)
	if err != nil {
		fmt.Println(err)
		return 2
	}
	bw := bufio.NewWriterSize(w, 1<<20)
	type cfg struct {
		Skipped [][]int `json:"skipped"`
	}
	sc := bufio.NewScanner(f)
	sc.Buffer(make([]byte, 1<<20), 1<<26)
	n, runs, odd := 0, 0, 0
	ctx := context.Background()
	for sc.Scan() {
		line := strings.TrimSpace(sc.Text())
		if line == "" {
			continue
		}
		n++
		if (n-1)%*shards != *shard {
			continue
		}
		var c cfg
		if err := json.Unmarshal([]byte(line), &c); err != nil {
			continue
		}
		for _, en := range names {
			prefix := fmt.Sprintf("/sk%dx", atomic.AddInt64(&skipSeq, 1))
			var skipped []string
			bad := false
			for _, iv := range c.Skipped {
				s, ok := skipIntervals[fmt.Sprintf("%d,%d", iv[0], iv[1])]
				if !ok {
					bad = true
					break
				}
				skipped = append(skipped, prefix+s)
			}
			if bad {
				continue
			}
			env := kb.NewEnv(kb.Options{Engine: engs[en], KeyNames: skipKeyNames, Gated: false, Record: true, Base: 100, Prefix: prefix, Skipped: skipped})
			okAll := true
			for k := 1; k <= len(skipKeyNames); k++ {
				r, err := env.B.Create(ctx, &proto.CreateRequest{Key: env.Keys.Raw(k), Value: []byte("v1")})
				if err != nil || !r.Succeeded {
					okAll = false
					continue
				}
				u, err := env.B.Update(ctx, &proto.UpdateRequest{Kv: &proto.KeyValue{Key: env.Keys.Raw(k), Value: []byte("v2"), Revision: r.Header.Revision}})
				if err != nil || !u.Succeeded {
					okAll = false
				}
			}
			env.WaitCommitted(100+uint64(2*len(skipKeyNames)), 2*time.Second)
			_, cerr := env.B.Compact(ctx, 0)
			deleted := map[int]bool{}
			for _, e := range env.Rec.Events() {
				if e["e"] == "Del" || e["e"] == "DelCur" {
					if k, ok := e["k"].(int); ok && e["kk"] == "obj" {
						deleted[k] = true
					}
				}
			}
			dl := []int{}
			for k := range deleted {
				dl = append(dl, k)
			}
			sort.Ints(dl)
			ev := gate.Event{"e": "SkipRun", "engine": en, "skipped": c.Skipped, "deleted": dl, "setup_ok": okAll, "compact_err": errStr(cerr)}
			bs, _ := json.Marshal(ev)
			bw.Write(bs)
			bw.WriteByte('\n')
			bw.WriteString("{\"e\":\"Reset\"}\n")
			env.Retire()
			runs++
		}
		if len(c.Skipped) > 0 {
			odd++
		}
	}
	bw.Flush()
	w.Close()
	if *report != "" {
		bs, _ := json.Marshal(map[string]interface{}{"behaviours": runs, "nontrivial": odd, "agreed": runs})
		os.WriteFile(*report, bs, 0644)
	}
	fmt.Printf("skiprun runs=%d\n", runs)
	return 0
}
