package main

import (
	"bufio"
	"context"
	"encoding/json"
	"flag"
	"fmt"
	"math/rand"
	"os"
	"sync"
	"time"

	"github.com/kubewharf/kubebrain/pkg/backend"

	"kbverif/gate"
	"kbverif/kb"
)

// cmdStress runs a free-running (ungated) concurrent workload on the real backend and records a
// trace. The Go scheduler, not the harness, chooses the interleaving; engine calls are
// serialised by the recorder so that the logged order is a linearization order.
func cmdStress(args []string) int {
	fs := flag.NewFlagSet("stress", flag.ExitOnError)
	out := fs.String("out", "", "trace output")
	report := fs.String("report", "", "report output")
	engine := fs.String("engine", "memkv", "engine")
	seed := fs.Int64("seed", 1, "seed")
	clients := fs.Int("clients", 8, "client goroutines")
	nops := fs.Int("ops", 50, "operations per client")
	nkeys := fs.Int("keys", 3, "keys")
	rounds := fs.Int("rounds", 3, "independent rounds (fresh backend each)")
	compactors := fs.Int("compactors", 0, "goroutines issuing compaction requests")
	readers := fs.Int("readers", 0, "goroutines issuing point and range reads at past revisions")
	fs.Parse(args)
	kb.QuietLogs()
	backend.VerifSetRetryIntervals(0, time.Millisecond)
	eng, err := kb.NewEngine(*engine)
	if err != nil {
		fmt.Println(err)
		return 2
	}
	defer eng.Close()
	w, err := os.Create(*out)
	if err != nil {
		fmt.Println(err)
		return 2
	}
	bw := bufio.NewWriter(w)
	total := map[string]int{}
	for round := 0; round < *rounds; round++ {
		const base = 100
		env := kb.NewEnv(kb.Options{Engine: eng, KeyNames: defaultKeyNames[:*nkeys], Gated: false, Base: base, Record: true})
		store0, _ := env.Dump()
		if store0 == nil {
			store0 = []interface{}{}
		}
		env.Rec.Log(gate.Event{"e": "Init", "base": base, "nkeys": *nkeys, "store": store0, "engine": *engine, "prefixes": []interface{}{}, "expiring": []interface{}{}})
		var mu sync.Mutex
		known := make([]uint64, *nkeys+1) // last revision seen per key
		var wg sync.WaitGroup
		okc, failc, errc := 0, 0, 0
		for c := 0; c < *clients; c++ {
			wg.Add(1)
			go func(c int) {
				defer wg.Done()
				name := fmt.Sprintf("c%d", c+1)
				env.Sched.Register(name)
				rnd := rand.New(rand.NewSource(*seed*1000 + int64(round*100+c)))
				for i := 0; i < *nops; i++ {
					o := specOp{Key: 1 + rnd.Intn(*nkeys), Val: fmt.Sprintf("v%d.%d", c, i)}
					mu.Lock()
					kn := known[o.Key]
					mu.Unlock()
					switch rnd.Intn(10) {
					case 0, 1, 2:
						o.Type = "create"
					case 3, 4, 5, 6:
						o.Type = "update"
						switch rnd.Intn(6) {
						case 0:
							o.Exp = 0
						case 1:
							o.Exp = kn + 1000000 // from the future
						case 2:
							if kn > 1 {
								o.Exp = kn - 1
							} else {
								o.Exp = 1
							}
						default:
							o.Exp = kn
						}
					default:
						o.Type = "delete"
						switch rnd.Intn(4) {
						case 0:
							o.Exp = 0
						case 1:
							if kn > 1 {
								o.Exp = kn - 1
							} else {
								o.Exp = 1
							}
						default:
							o.Exp = kn
						}
					}
					env.Rec.Log(gate.Event{"e": "Invoke", "p": name, "i": i + 1, "op": o.Type, "k": o.Key, "exp": gate.Clip(o.Exp), "v": o.Val})
					var r opResult
					panicked := false
					func() {
						// a panic inside the code under test is an observation (trace event Panic), not the end of the driver
						defer func() {
							if x := recover(); x != nil {
								panicked = true
								env.Rec.Log(gate.Event{"e": "Panic", "p": name, "i": i + 1, "op": o.Type, "msg": fmt.Sprint(x)})
							}
						}()
						r = callOp(env, o)
					}()
					if panicked {
						return
					}
					env.Rec.Log(gate.Event{"e": "Return", "p": name, "i": i + 1, "op": o.Type, "k": o.Key, "exp": gate.Clip(o.Exp), "v": o.Val,
						"succ": r.Succ, "hdr": gate.Clip(r.Hdr), "kvrev": gate.Clip(r.KvRev), "kvval": r.KvVal, "err": r.Err})
					mu.Lock()
					switch {
					case r.Err != "":
						errc++
					case r.Succ:
						okc++
						if o.Type == "delete" {
							known[o.Key] = 0
						} else {
							known[o.Key] = r.Hdr
						}
					default:
						failc++
						if r.KvRev > 0 {
							known[o.Key] = r.KvRev
						}
					}
					mu.Unlock()
				}
			}(c)
		}
		stop := make(chan struct{})
		var bg sync.WaitGroup
		for c := 0; c < *compactors; c++ {
			bg.Add(1)
			go func(c int) {
				defer bg.Done()
				name := fmt.Sprintf("k%d", c+1)
				env.Sched.Register(name)
				rnd := rand.New(rand.NewSource(*seed*3000 + int64(round*100+c)))
				for {
					select {
					case <-stop:
						return
					default:
					}
					cur := env.B.GetCurrentRevision()
					req := cur
					if d := uint64(rnd.Intn(12)); cur > base+d {
						req = cur - d
					}
					if rnd.Intn(8) == 0 {
						req = 0
					}
					minunc := backend.VerifRetryMinRevision(env.B)
					env.Rec.Log(gate.Event{"e": "CInvoke", "p": name, "req": gate.Clip(req)})
					resp, err := env.B.Compact(context.Background(), req)
					hdr := uint64(0)
					if err == nil {
						hdr = resp.Header.GetRevision()
					}
					env.Rec.Log(gate.Event{"e": "CReturn", "p": name, "req": gate.Clip(req), "hdr": gate.Clip(hdr), "err": errStr(err), "minunc": gate.Clip(minunc)})
					time.Sleep(time.Duration(rnd.Intn(300)) * time.Microsecond)
				}
			}(c)
		}
		for c := 0; c < *readers; c++ {
			bg.Add(1)
			go func(c int) {
				defer bg.Done()
				name := fmt.Sprintf("r%d", c+1)
				env.Sched.Register(name)
				rnd := rand.New(rand.NewSource(*seed*5000 + int64(round*100+c)))
				bs := boundsFor(env, *nkeys)
				rd := &reader{env: env, pname: name}
				for {
					select {
					case <-stop:
						return
					default:
					}
					cur := env.B.GetCurrentRevision()
					fl := env.CompactRecord()
					lo := fl
					if lo < base+1 {
						lo = base + 1
					}
					rev := uint64(0)
					if cur >= lo && rnd.Intn(4) != 0 {
						rev = lo + uint64(rnd.Intn(int(cur-lo+1)))
					}
					if fl > base+1 && rnd.Intn(10) == 0 {
						rev = fl - 1 // below the floor: must be refused by range reads
					}
					switch rnd.Intn(3) {
					case 0:
						rd.get(1+rnd.Intn(*nkeys), rev)
					default:
						i, j := rnd.Intn(len(bs)), rnd.Intn(len(bs))
						if bs[i].raw > bs[j].raw {
							i, j = j, i
						}
						if bs[i].raw == bs[j].raw {
							continue
						}
						rd.list(bs[i], bs[j], rev, int64(rnd.Intn(*nkeys+2)), -1)
					}
				}
			}(c)
		}
		wg.Wait()
		close(stop)
		bg.Wait()
		// wait for the sequencer to catch up: until the committed revision has reached the highest revision whose result was
		// handed to it (every request has returned, so that set is final), or -- a stall -- for ten seconds. ("The committed
		// revision has not moved for 4 ms" was a wall-clock oracle: on a saturated machine the sequencer goroutine is not
		// scheduled that often, and a run was declared quiescent 210 revisions early.)
		highest := uint64(0)
		for _, e := range env.Rec.Events() {
			if e["e"] == "Notify" {
				if a, ok := e["a"].(int64); ok && uint64(a) > highest {
					highest = uint64(a)
				}
			}
		}
		for deadline := time.Now().Add(10 * time.Second); time.Now().Before(deadline) && env.B.GetCurrentRevision() < highest; {
			time.Sleep(200 * time.Microsecond)
		}
		// ... and for the repair loop, whose writes take further revisions
		last := uint64(0)
		stable := 0
		deadline := time.Now().Add(3 * time.Second)
		for time.Now().Before(deadline) && stable < 20 {
			cur := env.B.GetCurrentRevision()
			if cur == last {
				stable++
			} else {
				stable = 0
				last = cur
			}
			time.Sleep(200 * time.Microsecond)
		}
		env.Rec.Log(gate.Event{"e": "Quiesce", "committed": gate.Clip(env.B.GetCurrentRevision()), "returned": true,
			"retryq": backend.VerifRetryQueueSize(env.B)})
		for _, e := range env.Rec.Events() {
			bs, _ := json.Marshal(e)
			bw.Write(bs)
			bw.WriteByte('\n')
		}
		bw.WriteString("{\"e\":\"Reset\"}\n")
		total["ok"] += okc
		total["failed_condition"] += failc
		total["error"] += errc
		total["events"] += env.Rec.Len()
		env.Retire()
	}
	bw.Flush()
	w.Close()
	total["rounds"] = *rounds
	total["clients"] = *clients
	total["ops_per_client"] = *nops
	if *report != "" {
		bs, _ := json.Marshal(total)
		os.WriteFile(*report, bs, 0644)
	}
	fmt.Printf("stress engine=%s %v\n", *engine, total)
	return 0
}
