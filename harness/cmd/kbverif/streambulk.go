package main

import (
	"context"
	"encoding/json"
	"errors"
	"flag"
	"fmt"
	"os"
	"strings"
	"sync"
	"time"

	proto "github.com/kubewharf/kubebrain-client/api/v2rpc"

	"github.com/kubewharf/kubebrain/pkg/backend"
	"github.com/kubewharf/kubebrain/pkg/storage"

	"kbverif/gate"
	"kbverif/kb"
)

// cmdStreamBulk (C13 at a scale the bounded histories do not reach): N keys, one of them with several versions and a
// partition border between two of its versions; the whole interval and every advertised partition are streamed (batches
// of 300 key-values inside the scanner) and compared with what was written.
func cmdStreamBulk(args []string) int {
	fs := flag.NewFlagSet("streambulk", flag.ExitOnError)
	out := fs.String("out", "", "trace output")
	report := fs.String("report", "", "report output")
	engine := fs.String("engine", "memkv", "engines (comma separated)")
	fs.String("in", "", "unused")
	fs.Int("shard", 0, "unused")
	fs.Int("shards", 1, "unused")
	fs.Parse(args)
	kb.QuietLogs()
	backend.VerifSetRetryIntervals(0, time.Millisecond)
	w, err := os.Create(*out)
	if err != nil {
		fmt.Println(err)
		return 2
	}
	defer w.Close()
	ctx := context.Background()
	runs := 0
	for _, en := range strings.Split(*engine, ",") {
		eng, err := kb.NewEngine(en)
		if err != nil {
			fmt.Println(err)
			return 2
		}
		for _, sz := range [][3]int{{40, 20, 0}, {400, 300, 0}, {400, 301, 0}, {1500, 700, 0}, {1500, 1400, 1}} {
			n, first := sz[0], sz[1]
			withFault := sz[2] == 1
			names := make([]string, n)
			for i := range names {
				names[i] = fmt.Sprintf("/k%05d", i+1)
			}
			var border []byte
			opts := kb.Options{Engine: eng, KeyNames: names, Gated: false, Record: false, Base: 100, Etcd: withFault}
			if en != "tikv-regions" {
				opts.Partitions = func(start, end []byte) []storage.Partition {
					if border == nil || string(border) <= string(start) || string(border) >= string(end) {
						return []storage.Partition{{Start: start, End: end}}
					}
					return []storage.Partition{{Start: start, End: border}, {Start: border, End: end}}
				}
			}
			env := kb.NewEnv(opts)
			okAll := true
			var rb uint64
			for k := 1; k <= n; k++ {
				r, err := env.B.Create(ctx, &proto.CreateRequest{Key: env.Keys.Raw(k), Value: []byte("v")})
				if err != nil || !r.Succeeded {
					okAll = false
					continue
				}
				if k == first {
					// the border key: two more versions, the border lies between them
					u1, e1 := env.B.Update(ctx, &proto.UpdateRequest{Kv: &proto.KeyValue{Key: env.Keys.Raw(k), Value: []byte("v2"), Revision: r.Header.Revision}})
					if e1 != nil || !u1.Succeeded {
						okAll = false
						continue
					}
					u2, e2 := env.B.Update(ctx, &proto.UpdateRequest{Kv: &proto.KeyValue{Key: env.Keys.Raw(k), Value: []byte("v3"), Revision: u1.Header.Revision}})
					if e2 != nil || !u2.Succeeded {
						okAll = false
						continue
					}
					rb = u2.Header.Revision
				}
			}
			env.WaitCommitted(100+uint64(n)+2, 5*time.Second)
			border = env.InternalKey(first, rb)
			if en == "tikv-regions" {
				eng.SplitAt(border)
			}
			lo := kb.Coder.EncodeObjectKey([]byte(env.Prefix+"/"), 0)
			hi := kb.Coder.EncodeObjectKey(backend.PrefixEnd([]byte(env.Prefix+"/")), 0)
			tally := func(kvs []interface{}) (missing, dups, foreign int) {
				seen := map[int]int{}
				for _, kv := range kvs {
					a := kv.([]interface{})
					seen[a[0].(int)]++
				}
				for k := 1; k <= n; k++ {
					switch c := seen[k]; {
					case c == 0:
						missing++
					case c > 1:
						dups += c - 1
					}
				}
				for k := range seen {
					if k < 1 || k > n {
						foreign++
					}
				}
				return
			}
			if withFault {
				// one transient iterator error in the middle of the first scan attempt of every worker that gets that far
				faulted := map[int]bool{}
				firstIter := map[string]int{}
				var fmu sync.Mutex
				env.Store.IterFault = func(proc string, iter, nth int) error {
					fmu.Lock()
					defer fmu.Unlock()
					if nth == 1500 && !faulted[iter] && len(faulted) < 1 {
						faulted[iter] = true
						_ = firstIter
						return errors.New("injected transient iterator error")
					}
					return nil
				}
			}
			// the whole interval
			kvs, _, terms, serr, _ := streamRead(env, lo, hi, 0)
			env.Store.IterFault = nil
			m, d, f := tally(kvs)
			ev := gate.Event{"e": "BulkStream", "engine": en, "n": n, "first_partition": first, "how": "whole", "iter_fault": withFault, "setup_ok": okAll,
				"streamed": len(kvs), "missing": m, "dups": d, "foreign": f, "terms": terms, "err": serr, "pieces": 1}
			bs, _ := json.Marshal(ev)
			w.Write(append(bs, '\n'))
			if withFault {
				// the other receivers of the scanner under the same fault: an unlimited list, a limited list and a count are
				// started over after the error (their partial result is dropped), so the answer is the complete one
				arm := func() {
					fired := false
					var fmu sync.Mutex
					env.Store.IterFault = func(proc string, iter, nth int) error {
						fmu.Lock()
						defer fmu.Unlock()
						if nth == 900 && !fired {
							fired = true
							return errors.New("injected transient iterator error")
						}
						return nil
					}
				}
				pfx := []byte(env.Prefix + "/")
				for _, how := range []string{"list", "limited", "count"} {
					arm()
					var got []interface{}
					want := n
					e := ""
					switch how {
					case "list", "limited":
						lim := int64(0)
						if how == "limited" {
							lim, want = 1200, 1200
						}
						lr, lerr := env.B.List(ctx, &proto.RangeRequest{Key: pfx, End: backend.PrefixEnd(pfx), Limit: lim})
						if lerr != nil {
							e = "err"
						} else {
							got = kvList(env, lr.Kvs)
						}
					case "count":
						cr, cerr := env.B.Count(ctx, &proto.CountRequest{Key: pfx, End: backend.PrefixEnd(pfx)})
						if cerr != nil {
							e = "err"
						} else {
							// a count has no keys: a surplus shows as duplicates, a deficit as missing
							for k := 1; k <= int(cr.Count) && k <= n; k++ {
								got = append(got, []interface{}{k, 0, ""})
							}
							for k := n; k < int(cr.Count); k++ {
								got = append(got, []interface{}{n, 0, ""})
							}
						}
					}
					env.Store.IterFault = nil
					seen := map[int]int{}
					for _, kv := range got {
						seen[kv.([]interface{})[0].(int)]++
					}
					m, d, f := 0, 0, 0
					for k := 1; k <= want; k++ {
						if seen[k] == 0 {
							m++
						} else if seen[k] > 1 {
							d += seen[k] - 1
						}
					}
					for k := range seen {
						if k < 1 || k > want {
							f++
						}
					}
					ev := gate.Event{"e": "BulkStream", "engine": en, "n": want, "first_partition": first, "how": how, "iter_fault": true, "setup_ok": okAll,
						"streamed": len(got), "missing": m, "dups": d, "foreign": f, "terms": 1, "err": e, "pieces": 1}
					bs, _ := json.Marshal(ev)
					w.Write(append(bs, '\n'))
				}
			}
			// every advertised partition
			pr, perr := env.B.GetPartitions(ctx, &proto.ListPartitionRequest{Key: []byte(env.Prefix + "/"), End: backend.PrefixEnd([]byte(env.Prefix + "/"))})
			if perr == nil {
				var all []interface{}
				terms, serr = 0, ""
				for i := 0; i+1 < len(pr.PartitionKeys); i++ {
					k, _, t, e2, _ := streamRead(env, pr.PartitionKeys[i], pr.PartitionKeys[i+1], env.B.GetCurrentRevision())
					all = append(all, k...)
					terms += t
					if e2 != "" {
						serr = e2
					}
				}
				m, d, f = tally(all)
				ev = gate.Event{"e": "BulkStream", "engine": en, "n": n, "first_partition": first, "how": "pieces", "iter_fault": false, "setup_ok": okAll,
					"streamed": len(all), "missing": m, "dups": d, "foreign": f, "terms": terms, "err": serr, "pieces": len(pr.PartitionKeys) - 1}
				bs, _ = json.Marshal(ev)
				w.Write(append(bs, '\n'))
			}
			if withFault {
				// a compaction whose scan meets a transient iterator error starts its partition over (having deleted part of
				// it): 100 keys get a second version, 100 are deleted, the scan fails once in the middle
				for k := 1; k <= 200 && okAll; k++ {
					key := env.Keys.Raw(k)
					g, gerr := env.B.Get(ctx, &proto.GetRequest{Key: key})
					if gerr != nil || g.Kv == nil {
						okAll = false
						break
					}
					if k <= 100 {
						u, uerr := env.B.Update(ctx, &proto.UpdateRequest{Kv: &proto.KeyValue{Key: key, Value: []byte("new"), Revision: g.Kv.Revision}})
						okAll = okAll && uerr == nil && u.Succeeded
					} else {
						d, derr := env.B.Delete(ctx, &proto.DeleteRequest{Key: key, Revision: g.Kv.Revision})
						okAll = okAll && derr == nil && d.Succeeded
					}
				}
				env.WaitCommitted(100+uint64(n)+2+200, 5*time.Second)
				fired := false
				var fmu sync.Mutex
				env.Store.IterFault = func(proc string, iter, nth int) error {
					fmu.Lock()
					defer fmu.Unlock()
					if nth == 1200 && !fired {
						fired = true
						return errors.New("injected transient iterator error")
					}
					return nil
				}
				_, cerr := env.B.Compact(ctx, env.B.GetCurrentRevision())
				env.Store.IterFault = nil
				pfx := []byte(env.Prefix + "/")
				lr, lerr := env.B.List(ctx, &proto.RangeRequest{Key: pfx, End: backend.PrefixEnd(pfx)})
				e := ""
				m, d, f := 0, 0, 0
				got := 0
				if lerr != nil {
					e = "err"
				} else {
					seen := map[int]int{}
					for _, kv := range lr.Kvs {
						k := env.Keys.Num(kv.Key)
						seen[k]++
						want := "v"
						if k <= 100 {
							want = "new"
						} else if k == first {
							want = "v3"
						}
						if string(kv.Value) != want {
							m++ // the wrong version counts as the right one missing
						}
					}
					got = len(lr.Kvs)
					for k := 1; k <= n; k++ {
						c := seen[k]
						switch {
						case k > 100 && k <= 200:
							if c > 0 {
								f++ // a deleted key is back
							}
						case c == 0:
							m++
						case c > 1:
							d += c - 1
						}
					}
				}
				ev := gate.Event{"e": "BulkStream", "engine": en, "n": n - 100, "first_partition": first, "how": "list-after-faulty-compaction", "iter_fault": false,
					"setup_ok": okAll && cerr == nil && fired, "streamed": got, "missing": m, "dups": d, "foreign": f, "terms": 1, "err": e, "pieces": 1}
				bs, _ := json.Marshal(ev)
				w.Write(append(bs, '\n'))
			}
			env.Retire()
			runs++
		}
		eng.Close()
	}
	w.WriteString("{\"e\":\"Reset\"}\n")
	if *report != "" {
		bs, _ := json.Marshal(map[string]interface{}{"behaviours": runs, "nontrivial": runs, "agreed": runs})
		os.WriteFile(*report, bs, 0644)
	}
	fmt.Printf("streambulk runs=%d\n", runs)
	return 0
}
