package main

import (
	"bufio"
	"context"
	"encoding/json"
	"flag"
	"fmt"
	"os"
	"strings"
	"sync/atomic"
	"time"

	metav1 "k8s.io/apimachinery/pkg/apis/meta/v1"
	"k8s.io/client-go/tools/leaderelection/resourcelock"

	"github.com/kubewharf/kubebrain/pkg/backend"
	"github.com/kubewharf/kubebrain/pkg/backend/election"
	"github.com/kubewharf/kubebrain/pkg/server/service/leader"

	"kbverif/gate"
	"kbverif/kb"
)

type elStep struct {
	E     string `json:"e"`
	C     string `json:"c"`
	N     int    `json:"n"`
	Ok    bool   `json:"ok"`
	Fault bool   `json:"fault"`
}
type elBehaviour struct {
	Steps []elStep `json:"steps"`
}

var elSeq int64

// cmdElectRun (C14) executes TLC-chosen interleavings of the Get / Create / Update steps of
// several candidates on the real resource lock over every engine.
func cmdElectRun(args []string) int {
	fs := flag.NewFlagSet("electrun", flag.ExitOnError)
	in := fs.String("in", "", "behaviours")
	out := fs.String("out", "", "trace output")
	report := fs.String("report", "", "report output")
	engine := fs.String("engine", "memkv", "engines (comma separated)")
	shard := fs.Int("shard", 0, "shard")
	shards := fs.Int("shards", 1, "shards")
	fs.Parse(args)
	kb.QuietLogs()
	names := strings.Split(*engine, ",")
	engs := map[string]*kb.Engine{}
	for _, n := range names {
		e, err := kb.NewEngine(n)
		if err != nil {
			fmt.Println(err)
			return 2
		}
		defer e.Close()
		engs[n] = e
	}
	f, err := os.Open(*in)
	if err != nil {
		fmt.Println(err)
		return 2
	}
	defer f.Close()
	w, err := os.Create(*out)
	if err != nil {
		fmt.Println(err)
		return 2
	}
	bw := bufio.NewWriterSize(w, 1<<20)
	rep := &seqReport{OpCount: map[string]int{}, Engine: *engine}
	start := time.Now()
	sc := bufio.NewScanner(f)
	sc.Buffer(make([]byte, 1<<20), 1<<26)
	n := 0
	for sc.Scan() {
		line := sc.Text()
		if strings.TrimSpace(line) == "" {
			continue
		}
		n++
		if (n-1)%*shards != *shard {
			continue
		}
		var b elBehaviour
		if err := json.Unmarshal([]byte(line), &b); err != nil {
			rep.Errors++
			continue
		}
		rep.Histories++
		if len(rep.Samples) < 2 {
			rep.Samples = append(rep.Samples, line)
		}
		cands := map[string]bool{}
		for _, s := range b.Steps {
			cands[s.C] = true
		}
		if len(cands) >= 2 {
			rep.Nontrivial++
		}
		for _, en := range names {
			prefix := fmt.Sprintf("/e%d", atomic.AddInt64(&elSeq, 1))
			rec := &gate.Recorder{On: true}
			km := &gate.KeyMap{Special: map[string]string{prefix + "/election": "election"}}
			st := &gate.Store{Inner: engs[en].KV, Rec: rec, Keys: km}
			locks := map[string]resourcelock.Interface{}
			infos := map[string]leader.LeaderElection{}
			for c := range cands {
				locks[c] = election.NewResourceLockManager(election.Config{Prefix: prefix, Identity: c, Timeout: time.Second}, st).GetResourceLock()
			}
			cur := "" // the stored record as the harness saw it (for the "prev" field only)
			readRec := func() string {
				v, err := engs[en].KV.Get(context.Background(), []byte(prefix+"/election"))
				if err != nil {
					return ""
				}
				return string(v)
			}
			mismatch := false
			for _, s := range b.Steps {
				rep.Ops++
				rep.OpCount[s.E]++
				lk := locks[s.C]
				switch s.E {
				case "LGet":
					r, err := lk.Get()
					ev := gate.Event{"e": "LGet", "c": s.C, "found": err == nil, "rec": ""}
					if err == nil {
						bs, _ := json.Marshal(r)
						ev["rec"] = string(bs)
					}
					rec.Log(ev)
				case "LDescribe":
					_ = lk.Describe()
					_ = lk.Identity()
					// the queries the servers make of a node's election state (redirects, /status, the proxy) go through the leader
					// service, which shares the lock object with the elector: they change nothing either
					if infos[s.C] == nil {
						infos[s.C] = leader.NewLeaderElection(&lockBackend{lk: lk}, kb.Metrics(), func(context.Context) {}, func() {})
					}
					_ = infos[s.C].GetLeaderInfo()
					_, _ = infos[s.C].GetElectionInfo()
					_ = infos[s.C].IsLeader()
				case "LCreate", "LUpdate", "LRelease":
					holder := s.C
					if s.E == "LRelease" {
						holder = "" // client-go's release: an update that clears the holder
					}
					if s.E == "LRelease" {
						// records carry wall-clock times in production, so no two are byte-equal; keep releases of
						// different candidates distinct here as well
						s.N = s.N*100 + int(s.C[0]-'a') + 1
					}
					ler := resourcelock.LeaderElectionRecord{HolderIdentity: holder, LeaseDurationSeconds: 8, LeaderTransitions: s.N,
						AcquireTime: metav1.NewTime(time.Unix(int64(1000+s.N), 0).UTC()), RenewTime: metav1.NewTime(time.Unix(int64(2000+s.N), 0).UTC())}
					bs, _ := json.Marshal(ler)
					cur = readRec()
					var err error
					if s.E == "LCreate" {
						if tf := engs[en].TiKV; s.Fault && tf != nil {
							// the point read inside the engine's put-if-absent is aborted
							st.BeforeRun = tf.ArmGet
						}
						err = lk.Create(ler)
						st.BeforeRun = nil
						if tf := engs[en].TiKV; tf != nil {
							tf.Disarm()
						}
					} else {
						err = lk.Update(ler)
					}
					en2 := s.E
					if en2 == "LRelease" {
						en2 = "LUpdate" // judged like every other update: only if the record is what this candidate last read
					}
					rec.Log(gate.Event{"e": en2, "c": s.C, "ok": err == nil, "rec": string(bs), "prev": cur, "release": s.E == "LRelease"})
					if (err == nil) != s.Ok {
						mismatch = true
					}
				}
			}
			for _, e := range rec.Events() {
				bs, _ := json.Marshal(e)
				bw.Write(bs)
				bw.WriteByte('\n')
				rep.Events++
			}
			bw.WriteString("{\"e\":\"Reset\"}\n")
			if mismatch {
				rep.ObsMismatch++
				if len(rep.MismatchNotes) < 5 {
					rep.MismatchNotes = append(rep.MismatchNotes, en+": "+line)
				}
			} else {
				rep.Agreed++
			}
		}
	}
	bw.Flush()
	w.Close()
	rep.WallS = time.Since(start).Seconds()
	if *report != "" {
		bs, _ := json.MarshalIndent(rep, "", " ")
		os.WriteFile(*report, bs, 0644)
	}
	fmt.Printf("electrun engines=%s behaviours=%d agreed=%d obs_mismatch=%d ops=%d events=%d wall=%.1fs\n", *engine, rep.Histories, rep.Agreed, rep.ObsMismatch, rep.Ops, rep.Events, rep.WallS)
	return 0
}

// lockBackend is the part of a backend the leader service needs for its queries: the lock object.
type lockBackend struct {
	backend.Backend
	lk resourcelock.Interface
}

func (b *lockBackend) GetResourceLock() resourcelock.Interface { return b.lk }
