package main

import (
	"context"
	"encoding/json"
	"flag"
	"fmt"
	"os"
	"time"

	proto "github.com/kubewharf/kubebrain-client/api/v2rpc"

	"github.com/kubewharf/kubebrain/pkg/backend"

	"kbverif/gate"
	"kbverif/kb"
)

// cmdTTLRun (C17, engines with native TTL): Event records are written with a TTL that the engine
// itself enforces; no delete is visible at the storage interface, so the scenario states its
// expectations explicitly and logs whether each one held.
func cmdTTLRun(args []string) int {
	fs := flag.NewFlagSet("ttlrun", flag.ExitOnError)
	out := fs.String("out", "", "trace output")
	report := fs.String("report", "", "report output")
	engine := fs.String("engine", "memkv", "engine")
	fs.Parse(args)
	kb.QuietLogs()
	backend.VerifSetRetryIntervals(0, time.Millisecond)
	// 2 s: Badger keeps expiry times in whole seconds, so an entry may expire up to 1 s early; the
	// "younger than the TTL" checks are made while the Event is younger than TTL - 1 s
	backend.VerifSetEventsTTL(2)
	eng, err := kb.NewEngine(*engine)
	if err != nil {
		fmt.Println(err)
		return 2
	}
	defer eng.Close()
	// (key numbers are only handles here; 6 and 7 are siblings of the events directory whose names merely
	// start with "events": a custom resource group and another resource)
	names := []string{"/a", "/events/n/e1", "/events/n/e2", "/events/n/e3", "/pods/events/p1", "/events.example.io/widgets/n/w0", "/eventsinks/n/s1"}
	env := kb.NewEnv(kb.Options{Engine: eng, KeyNames: names, Gated: false, Record: false, Base: 100})
	ctx := context.Background()
	var evs []gate.Event
	expect := func(what string, ok bool) {
		evs = append(evs, gate.Event{"e": "Expect", "what": what, "ok": ok, "engine": *engine, "t": time.Now().UnixNano() / 1e6 % 100000000})
	}
	finish := func() int {
		w, err := os.Create(*out)
		if err != nil {
			fmt.Println(err)
			return 2
		}
		bad := 0
		for _, e := range evs {
			if !e["ok"].(bool) {
				bad++
			}
			bs, _ := json.Marshal(e)
			w.Write(append(bs, '\n'))
		}
		w.WriteString("{\"e\":\"Reset\"}\n")
		w.Close()
		if *report != "" {
			bs, _ := json.Marshal(map[string]interface{}{"behaviours": 1, "nontrivial": 1, "engine": *engine, "expectations": len(evs), "failed": bad})
			os.WriteFile(*report, bs, 0644)
		}
		fmt.Printf("ttlrun engine=%s expectations=%d failed=%d\n", *engine, len(evs), bad)
		return 0
	}
	wctx, cancel := context.WithCancel(ctx)
	defer cancel()
	wch, _ := env.B.Watch(wctx, env.Prefix+"/", 101)
	create := func(k int, v string) (uint64, bool) {
		r, err := env.B.Create(ctx, &proto.CreateRequest{Key: env.Keys.Raw(k), Value: []byte(v)})
		if err != nil {
			return 0, false
		}
		return r.Header.Revision, r.Succeeded
	}
	present := func(k int) (bool, string) {
		r, err := env.B.Get(ctx, &proto.GetRequest{Key: env.Keys.Raw(k)})
		if err != nil || r.Kv == nil {
			return false, ""
		}
		return true, string(r.Kv.Value)
	}
	if !eng.KV.SupportTTL() {
		// engines without native TTL (TiKV): Event records expire inside compaction, by the marks earlier compactions left.
		// A compaction whose mark has aged, followed by a compaction at a LOWER revision.
		_, okp := create(1, "plain")
		r3, ok3 := create(3, "event-2")
		re, oke := create(2, "event-1")
		expect("setup: a plain key and two Events are created", okp && oke && ok3)
		env.WaitCommitted(re, time.Second)
		// the second Event is updated at the very moment the compactor, having found it expired on its snapshot, is about to
		// remove its index record: its newest change is then younger than the TTL
		raced, racedOK := false, false
		var r3b uint64
		env.Store.DelFault = func(p string, nth int, e gate.Event) string {
			if k, _ := e["k"].(int); !raced && e["kk"] == "obj" && k == 3 {
				if r, _ := e["r"].(int64); r == 0 {
					raced = true
					u, uerr := env.B.Update(ctx, &proto.UpdateRequest{Kv: &proto.KeyValue{Key: env.Keys.Raw(3), Value: []byte("event-2-updated"), Revision: r3}})
					if uerr == nil && u.Succeeded {
						racedOK, r3b = true, u.Header.Revision
					}
				}
			}
			return ""
		}
		_, c1err := env.B.Compact(ctx, 0)
		expect("setup: first compaction (its mark: the Event's revision)", c1err == nil)
		time.Sleep(2600 * time.Millisecond)
		_, c2err := env.B.Compact(ctx, re-1)
		expect("setup: second compaction at a lower revision, after the first mark has aged beyond the TTL", c2err == nil)
		p, _ := present(2)
		expect("the Event older than the TTL reads as absent", !p)
		_, okr := create(2, "event-1-again")
		expect("... and is gone wholly (index and versions together): it can be created again", okr)
		env.Store.DelFault = nil
		p, v := present(1)
		expect("the plain key is untouched", p && v == "plain")
		expect("setup: the second Event was updated while the compactor was removing it", raced && racedOK)
		p, v = present(3)
		expect("an Event updated during its expiry is still there, with the new value", p && v == "event-2-updated")
		u2, u2err := env.B.Update(ctx, &proto.UpdateRequest{Kv: &proto.KeyValue{Key: env.Keys.Raw(3), Value: []byte("event-2-again"), Revision: r3b}})
		expect("... and whole (index and version together): a guarded update naming its revision succeeds", u2err == nil && u2.Succeeded)
		_, okdup := create(3, "duplicate")
		expect("... and a create of it is refused", !okdup)
		return finish()
	}
	t0 := time.Now()
	_, ok1 := create(1, "plain")
	_, ok2 := create(2, "event-1")
	r3, ok3 := create(3, "event-2")
	_, ok5 := create(5, "pod-in-namespace-events")
	_, ok6 := create(6, "custom-resource-of-group-events.example.io")
	_, ok7 := create(7, "resource-eventsinks")
	expect("setup: six creates succeed", ok1 && ok2 && ok3 && ok5 && ok6 && ok7)
	// an Event that is created, deleted and created again before any compaction: the second create goes over the
	// tombstoned index record (compare-and-swap path of the creator)
	r4, ok4 := create(4, "event-3")
	d4, derr := env.B.Delete(ctx, &proto.DeleteRequest{Key: env.Keys.Raw(4), Revision: r4})
	_, ok4b := create(4, "event-3-again")
	expect("setup: an Event is created, deleted and created again", ok4 && derr == nil && d4.Succeeded && ok4b)
	time.Sleep(300 * time.Millisecond)
	u, uerr := env.B.Update(ctx, &proto.UpdateRequest{Kv: &proto.KeyValue{Key: env.Keys.Raw(3), Value: []byte("event-2-updated"), Revision: r3}})
	expect("setup: guarded update of the second Event succeeds", uerr == nil && u.Succeeded)
	p, _ := present(2)
	expect("an Event younger than the TTL is still readable", p)
	if el := time.Since(t0); el > 800*time.Millisecond {
		fmt.Println("inconclusive timing:", el)
		return 2
	}
	time.Sleep(2500*time.Millisecond - time.Since(t0))
	p, _ = present(2)
	expect("an Event older than the TTL reads as absent", !p)
	p, v := present(5)
	expect("a key that merely contains /events/ (a pod in namespace events) is not expired", p && v == "pod-in-namespace-events")
	p, _ = present(1)
	expect("a non-event key is not expired", p)
	p, v = present(6)
	expect("a key in a sibling directory whose name starts with events (events.example.io) is not expired", p && v == "custom-resource-of-group-events.example.io")
	p, v = present(7)
	expect("a key in a sibling directory whose name starts with events (eventsinks) is not expired", p && v == "resource-eventsinks")
	p, v = present(3)
	expect("an Event rewritten after its creation keeps index and newest version together (readable with the new value, or gone wholly)", (p && v == "event-2-updated") || !p)
	if p {
		// index and version must agree: a guarded update against the version it shows must work
		g, _ := env.B.Get(ctx, &proto.GetRequest{Key: env.Keys.Raw(3)})
		u2, e2 := env.B.Update(ctx, &proto.UpdateRequest{Kv: &proto.KeyValue{Key: env.Keys.Raw(3), Value: []byte("event-2-again"), Revision: g.Kv.Revision}})
		expect("the rewritten Event can still be updated under its revision (index not removed alone)", e2 == nil && u2.Succeeded)
	} else {
		_, okc := create(3, "event-2-new")
		expect("the wholly expired rewritten Event can be created again", okc)
	}
	p, _ = present(4)
	expect("an Event re-created over its tombstone reads as absent once older than the TTL", !p)
	_, okr4 := create(4, "event-3-third")
	expect("... and is gone wholly: it can be created again (no index record left behind)", okr4)
	_, okr := create(2, "event-1-again")
	expect("an expired Event can be created again", okr)
	p, _ = present(2)
	expect("the re-created Event (younger than the TTL) is readable", p)
	// no watch event may announce an expiry
	time.Sleep(5 * time.Millisecond)
	deletes := 0
	for done := false; !done; {
		select {
		case b, ok := <-wch:
			if !ok {
				done = true
				break
			}
			for _, e := range b {
				if e.Type == proto.Event_DELETE {
					deletes++
				}
			}
		default:
			done = true
		}
	}
	expect("expiry produces no watch event (the only DELETE event is the one explicit delete of the scenario)", deletes == 1)
	return finish()
}
