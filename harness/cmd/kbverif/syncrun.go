package main

import (
	"bufio"
	"encoding/json"
	"flag"
	"fmt"
	"net/http"
	"net/http/httptest"
	"os"
	"strings"
	"sync"
	"sync/atomic"
	"time"

	"github.com/kubewharf/kubebrain/pkg/backend/tso"
	"github.com/kubewharf/kubebrain/pkg/server/service/leader"
	"github.com/kubewharf/kubebrain/pkg/server/service/revision"

	"kbverif/gate"
	"kbverif/kb"
)

type pStep struct {
	A string `json:"a"`
	R string `json:"r"`
	V uint64 `json:"v"`
}
type pBehaviour struct {
	Steps []pStep `json:"steps"`
}

// gatedFollower is the revision.Backend of the follower: SetCurrentRevision of each reader waits
// for the scheduler.
type gatedFollower struct {
	mu      sync.Mutex
	rev     uint64
	byGid   map[int64]string
	waiting map[string]chan struct{} // reader -> release channel (created when it arrives)
	arrived chan string
	over    chan struct{}
	setVal  map[string]uint64 // the revision each reader stores
	tsoMu   sync.Mutex
	tso     tso.TSO
}

func (g *gatedFollower) SetCurrentRevision(v uint64) {
	gid := gate.CurGID()
	g.mu.Lock()
	r := g.byGid[gid]
	ch := make(chan struct{})
	g.waiting[r] = ch
	g.setVal[r] = v
	g.mu.Unlock()
	g.arrived <- r
	select {
	case <-ch:
	case <-g.over:
	}
	// what the real backend does with it: the REAL revision counter (pkg/backend/tso)
	g.tsoMu.Lock()
	if g.tso == nil {
		g.tso = tso.NewTSO()
	}
	g.tsoMu.Unlock()
	g.tso.Commit(v)
	atomic.StoreUint64(&g.rev, g.tso.GetRevision())
}

// cmdSyncRun (C18, part 2) replays schedules of the follower read protocol (Roles.tla) on the
// REAL revision syncer: the leader's /status answer and every SetCurrentRevision are gates.
func cmdSyncRun(args []string) int {
	fs := flag.NewFlagSet("syncrun", flag.ExitOnError)
	in := fs.String("in", "", "behaviours")
	out := fs.String("out", "", "trace output")
	report := fs.String("report", "", "report output")
	shard := fs.Int("shard", 0, "shard")
	shards := fs.Int("shards", 1, "shards")
	_ = fs.String("engine", "", "unused")
	fs.Parse(args)
	kb.QuietLogs()
	f, err := os.Open(*in)
	if err != nil {
		fmt.Println(err)
		return 2
	}
	defer f.Close()
	w, err := os.Create(*out)
	if err != nil {
		fmt.Println(err)
		return 2
	}
	bw := bufio.NewWriterSize(w, 1<<20)
	rep := &seqReport{OpCount: map[string]int{}}
	sc := bufio.NewScanner(f)
	sc.Buffer(make([]byte, 1<<20), 1<<26)
	n := 0
	const to = 2 * time.Second
	for sc.Scan() {
		line := sc.Text()
		if strings.TrimSpace(line) == "" {
			continue
		}
		n++
		if (n-1)%*shards != *shard {
			continue
		}
		var b pBehaviour
		if err := json.Unmarshal([]byte(line), &b); err != nil {
			rep.Errors++
			continue
		}
		rep.Histories++
		if len(rep.Samples) < 2 {
			rep.Samples = append(rep.Samples, line)
		}
		if os.Getenv("KBVERIF_DEBUG") != "" {
			fmt.Println("behaviour", n, line)
		}
		// ---- one behaviour
		var lrev uint64 = 5
		answer := make(chan chan struct{}) // LeaderAnswer: sample now, then acknowledge
		deliver := make(chan struct{})     // Deliver: send the response
		reqArrived := make(chan struct{}, 16)
		over := make(chan struct{}) // the behaviour is over: nobody waits any longer
		srv := httptest.NewServer(http.HandlerFunc(func(rw http.ResponseWriter, req *http.Request) {
			reqArrived <- struct{}{}
			var ack chan struct{}
			select {
			case ack = <-answer:
			case <-over:
			}
			v := atomic.LoadUint64(&lrev)
			if ack != nil {
				close(ack)
			}
			select {
			case <-deliver:
			case <-over:
			}
			rw.WriteHeader(200)
			bs, _ := json.Marshal(&revision.LeaderRevision{Revision: v})
			rw.Write(bs)
		}))
		fol := &gatedFollower{byGid: map[int64]string{}, waiting: map[string]chan struct{}{}, setVal: map[string]uint64{}, arrived: make(chan string, 16), over: over}
		stub := &leader.Stub{ElectionInfo: leader.ElectionInfo{LeaderAddress: strings.TrimPrefix(srv.URL, "http://"), IsLeader: false}}
		syncer := revision.NewRevisionSyncer(fol, kb.Metrics(), stub, nil)
		readGo := map[string]chan struct{}{}
		readDone := make(chan gate.Event, 16)
		var evs []gate.Event
		diverged := ""
		inflight := false
		var members []string          // readers that share the fetch in flight
		returned := map[string]bool{} // SyncReadRevision has returned (guarded by fol.mu)
		noset := map[string]bool{}    // ... without having stored a revision
		for _, s := range b.Steps {
			rep.Ops++
			rep.OpCount[s.A]++
			if diverged != "" {
				break
			}
			switch s.A {
			case "LeaderCommit":
				atomic.AddUint64(&lrev, 1)
				evs = append(evs, gate.Event{"e": "P", "a": "LeaderCommit", "r": "", "v": atomic.LoadUint64(&lrev)})
			case "Begin":
				r := s.R
				members = append(members, r)
				evs = append(evs, gate.Event{"e": "P", "a": "Begin", "r": r, "v": atomic.LoadUint64(&lrev)})
				rg := make(chan struct{})
				readGo[r] = rg
				started := make(chan struct{})
				go func() {
					fol.mu.Lock()
					fol.byGid[gate.CurGID()] = r
					fol.mu.Unlock()
					close(started)
					err := syncer.SyncReadRevision()
					fol.mu.Lock()
					returned[r] = true
					fol.mu.Unlock()
					select {
					case fol.arrived <- r:
					default:
					}
					select {
					case <-rg: // the Read step
					case <-over:
						return
					}
					if err != nil {
						select {
						case readDone <- gate.Event{"e": "P", "a": "ReadError", "r": r, "v": 0}:
						case <-over:
						}
						return
					}
					select {
					case readDone <- gate.Event{"e": "P", "a": "Read", "r": r, "v": atomic.LoadUint64(&fol.rev)}:
					case <-over:
					}
				}()
				<-started
				if !inflight {
					select {
					case <-reqArrived:
						inflight = true
					case <-time.After(to):
						diverged = "no status request reached the leader"
					}
				} else {
					// a reader that joins the flight sends no request of its own; give it time to join
					time.Sleep(300 * time.Microsecond)
					select {
					case <-reqArrived:
						diverged = "a second status request reached the leader while one was in flight"
					default:
					}
				}
			case "LeaderAnswer":
				ack := make(chan struct{})
				select {
				case answer <- ack:
					<-ack // the leader has sampled its revision
				case <-time.After(to):
					diverged = "leader handler not waiting"
				}
				evs = append(evs, gate.Event{"e": "P", "a": "LeaderAnswer", "r": "", "v": atomic.LoadUint64(&lrev)})
			case "Deliver":
				select {
				case deliver <- struct{}{}:
					inflight = false
				case <-time.After(to):
					diverged = "leader handler not ready to deliver"
				}
				// the fetch is over when every reader that shared it has the result, i.e. stands at its
				// SetCurrentRevision
				deadline := time.After(to)
				for _, m := range members {
					for arrived := false; !arrived && diverged == ""; {
						fol.mu.Lock()
						_, arrived = fol.waiting[m]
						ret := returned[m]
						fol.mu.Unlock()
						if arrived {
							break
						}
						if ret {
							// the call came back without storing the fetched revision
							noset[m] = true
							evs = append(evs, gate.Event{"e": "P", "a": "NoSet", "r": m, "v": 0})
							break
						}
						select {
						case <-fol.arrived:
						case <-deadline:
							diverged = "reader " + m + " did not receive the fetched revision"
						}
					}
				}
				members = nil
				evs = append(evs, gate.Event{"e": "P", "a": "Deliver", "r": "", "v": s.V})
			case "Set":
				if noset[s.R] {
					continue
				}
				// wait until this reader stands at its SetCurrentRevision
				deadline := time.After(to)
				for got := false; !got && diverged == ""; {
					fol.mu.Lock()
					ch := fol.waiting[s.R]
					fol.mu.Unlock()
					if ch != nil {
						close(ch)
						fol.mu.Lock()
						delete(fol.waiting, s.R)
						fol.mu.Unlock()
						got = true
						break
					}
					select {
					case <-fol.arrived:
					case <-deadline:
						diverged = "reader " + s.R + " did not reach SetCurrentRevision"
					}
				}
				time.Sleep(100 * time.Microsecond)
				fol.mu.Lock()
				sv := fol.setVal[s.R]
				fol.mu.Unlock()
				evs = append(evs, gate.Event{"e": "P", "a": "Set", "r": s.R, "v": sv})
			case "Read":
				close(readGo[s.R])
				select {
				case e := <-readDone:
					evs = append(evs, e)
				case <-time.After(to):
					diverged = "read of " + s.R + " did not finish"
				}
			}
		}
		close(over)
		srv.CloseClientConnections()
		srv.Close()
		syncer.Close()
		if diverged != "" {
			rep.ObsMismatch++
			if len(rep.MismatchNotes) < 5 {
				rep.MismatchNotes = append(rep.MismatchNotes, diverged)
			}
			continue
		}
		rep.Agreed++
		rep.Nontrivial++
		for _, e := range evs {
			bs, _ := json.Marshal(e)
			bw.Write(bs)
			bw.WriteByte('\n')
			rep.Events++
		}
		bw.WriteString("{\"e\":\"Reset\"}\n")
	}
	bw.Flush()
	w.Close()
	if *report != "" {
		bs, _ := json.MarshalIndent(rep, "", " ")
		os.WriteFile(*report, bs, 0644)
	}
	fmt.Printf("syncrun behaviours=%d executed=%d not-executable=%d events=%d\n", rep.Histories, rep.Agreed, rep.ObsMismatch, rep.Events)
	return 0
}
