package main

import (
	"context"
	"encoding/json"
	"flag"
	"fmt"
	"os"
	"sort"
	"sync"
	"sync/atomic"
	"time"

	proto "github.com/kubewharf/kubebrain-client/api/v2rpc"

	"github.com/kubewharf/kubebrain/pkg/backend"

	"kbverif/gate"
	"kbverif/kb"
)

// cmdWatchBulk (C05 at a scale the bounded behaviours do not reach): the sequencer hands events to the hub in batches of at
// most 300 (KubeBrain.tla: EventBatch, explored with 1 and 2). Here the real sequencer is held at its poll gate while
// several hundred writes complete, then let go: it finds full batches. Watchers started before, from a revision in the
// middle (served from the event cache first) and with another prefix must each get exactly the matching successful
// writes, once, in revision order.
func cmdWatchBulk(args []string) int {
	fs := flag.NewFlagSet("watchbulk", flag.ExitOnError)
	out := fs.String("out", "", "trace output")
	report := fs.String("report", "", "report output")
	engine := fs.String("engine", "memkv", "engine")
	burst := fs.Int("burst", 700, "writes per burst")
	big := fs.Int("big", 30050, "sequential writes before a watcher that catches up on all of them from the event cache (0: none)")
	fs.String("in", "", "unused")
	fs.Int("shard", 0, "unused")
	fs.Int("shards", 1, "unused")
	fs.Parse(args)
	kb.QuietLogs()
	backend.VerifSetRetryIntervals(0, time.Millisecond)
	eng, err := kb.NewEngine(*engine)
	if err != nil {
		fmt.Println(err)
		return 2
	}
	defer eng.Close()
	nkeys := *burst
	names := make([]string, nkeys)
	for i := range names {
		// two directories: a watcher of /a/ must not see /b/
		d := "/a/"
		if i%5 == 4 {
			d = "/b/"
		}
		names[i] = fmt.Sprintf("%sk%05d", d, i+1)
	}
	var hold int32
	var fullBatches, flushes, maxFlush int64
	park := func(proc, label string, a, b uint64) bool {
		if label == "seq.flush" {
			atomic.AddInt64(&flushes, 1)
			if int64(a) > atomic.LoadInt64(&maxFlush) {
				atomic.StoreInt64(&maxFlush, int64(a))
			}
			if a >= 300 {
				atomic.AddInt64(&fullBatches, 1)
			}
		}
		return label == "seq.poll" && atomic.LoadInt32(&hold) == 1
	}
	env := kb.NewEnv(kb.Options{Engine: eng, KeyNames: names, Gated: true, Park: park, Record: false, Base: 1000})
	ctx := context.Background()

	type wr struct {
		rev  uint64
		kind string
		k    int
		val  string
		prev uint64
		pval string
	}
	var mu sync.Mutex
	var acked []wr
	revs := make([]uint64, nkeys+1)
	vals := make([]string, nkeys+1)
	var lastHdr uint64
	note := func(w wr) {
		mu.Lock()
		acked = append(acked, w)
		if w.rev > lastHdr {
			lastHdr = w.rev
		}
		mu.Unlock()
	}
	setupOK := true
	// a burst: the sequencer is held, `burst` writes complete on 8 goroutines, the sequencer is let go
	doBurst := func(round int) {
		atomic.StoreInt32(&hold, 1)
		if _, err := env.Sched.WaitStop("seq", 5*time.Second); err != nil {
			setupOK = false
		}
		var wg sync.WaitGroup
		for g := 0; g < 8; g++ {
			wg.Add(1)
			go func(g int) {
				defer wg.Done()
				for k := 1 + g; k <= nkeys; k += 8 {
					key := env.Keys.Raw(k)
					switch {
					case round == 0:
						v := fmt.Sprintf("c%d", k)
						r, err := env.B.Create(ctx, &proto.CreateRequest{Key: key, Value: []byte(v)})
						if err == nil && r.Succeeded {
							revs[k], vals[k] = r.Header.Revision, v
							note(wr{rev: r.Header.Revision, kind: "create", k: k, val: v})
						}
					case k%7 == 0:
						// a write that fails in the middle of the burst: an invalid event between valid ones
						r, err := env.B.Create(ctx, &proto.CreateRequest{Key: key, Value: []byte("again")})
						if err == nil && r.Succeeded {
							setupOK = false
						}
					case k%3 == 0 && revs[k] != 0:
						r, err := env.B.Delete(ctx, &proto.DeleteRequest{Key: key, Revision: revs[k]})
						if err == nil && r.Succeeded {
							note(wr{rev: r.Header.Revision, kind: "delete", k: k, prev: revs[k], pval: vals[k]})
							revs[k] = 0
						}
					case revs[k] != 0:
						v := fmt.Sprintf("u%d.%d", round, k)
						r, err := env.B.Update(ctx, &proto.UpdateRequest{Kv: &proto.KeyValue{Key: key, Value: []byte(v), Revision: revs[k]}})
						if err == nil && r.Succeeded {
							revs[k], vals[k] = r.Header.Revision, v
							note(wr{rev: r.Header.Revision, kind: "update", k: k, val: v})
						}
					}
				}
			}(g)
		}
		wg.Wait()
		atomic.StoreInt32(&hold, 0)
		env.Sched.Release("seq")
		mu.Lock()
		l := lastHdr
		mu.Unlock()
		if !env.WaitCommitted(l, 10*time.Second) {
			setupOK = false
		}
	}

	type watcher struct {
		name   string
		prefix string
		start  uint64
		ch     <-chan []*proto.Event
		cancel context.CancelFunc
		got    []*proto.Event
		closed bool
		maxB   int
		stuck  bool
	}
	var ws []*watcher
	open := func(name, prefix string, start uint64) {
		wctx, cancel := context.WithCancel(ctx)
		type res struct {
			ch  <-chan []*proto.Event
			err error
		}
		rc := make(chan res, 1)
		go func() {
			ch, err := env.B.Watch(wctx, env.Prefix+prefix, start)
			rc <- res{ch, err}
		}()
		select {
		case r := <-rc:
			if r.err != nil {
				cancel()
				setupOK = false
				return
			}
			ws = append(ws, &watcher{name: name, prefix: prefix, start: start, ch: r.ch, cancel: cancel})
		case <-time.After(15 * time.Second):
			// the call does not come back (the catch-up fills the result channel before anybody can read it): nothing is
			// delivered and nothing is closed
			ws = append(ws, &watcher{name: name, prefix: prefix, start: start, ch: make(chan []*proto.Event), cancel: cancel, stuck: true})
		}
	}
	open("all-live", "/", 0)
	open("a-live", "/a/", 0)
	doBurst(0)
	mu.Lock()
	mid := acked[len(acked)/2].rev
	mu.Unlock()
	// from the middle of the first burst: the event cache first, then the live batches of the second burst
	open("all-mid", "/", mid)
	open("b-mid", "/b/", mid+1)
	doBurst(1)
	doBurst(2)

	if *big > 0 {
		// more cached events than the result channel holds in batches of 300 (100 x 300): the catch-up resizes its batches
		var first uint64
		k := 1
		if revs[k] == 0 {
			r, err := env.B.Create(ctx, &proto.CreateRequest{Key: env.Keys.Raw(k), Value: []byte("re")})
			if err == nil && r.Succeeded {
				revs[k], vals[k] = r.Header.Revision, "re"
				note(wr{rev: r.Header.Revision, kind: "create", k: k, val: "re"})
			}
		}
		for i := 0; i < *big; i++ {
			v := fmt.Sprintf("s%d", i)
			r, err := env.B.Update(ctx, &proto.UpdateRequest{Kv: &proto.KeyValue{Key: env.Keys.Raw(k), Value: []byte(v), Revision: revs[k]}})
			if err == nil && r.Succeeded {
				if first == 0 {
					first = r.Header.Revision
				}
				revs[k], vals[k] = r.Header.Revision, v
				note(wr{rev: r.Header.Revision, kind: "update", k: k, val: v})
			} else {
				setupOK = false
				break
			}
		}
		if !env.WaitCommitted(lastHdr, 10*time.Second) {
			setupOK = false
		}
		open("catchup-big", "/", first)
	}
	// drain: until every watcher has everything, or nothing has arrived for a while
	expected := func(w *watcher) []wr {
		var e []wr
		for _, a := range acked {
			if (w.start == 0 || a.rev >= w.start) && env.HasPrefix(a.k, env.Prefix+w.prefix) {
				e = append(e, a)
			}
		}
		sort.Slice(e, func(i, j int) bool { return e[i].rev < e[j].rev })
		return e
	}
	evs := []gate.Event{}
	for _, w := range ws {
		exp := expected(w)
		idle := time.NewTimer(3 * time.Second)
		if w.stuck {
			idle.Reset(time.Millisecond)
		}
	drain:
		for len(w.got) < len(exp) {
			select {
			case b, ok := <-w.ch:
				if !ok {
					w.closed = true
					break drain
				}
				if len(b) > w.maxB {
					w.maxB = len(b)
				}
				w.got = append(w.got, b...)
				if !idle.Stop() {
					select {
					case <-idle.C:
					default:
					}
				}
				idle.Reset(3 * time.Second)
			case <-idle.C:
				break drain
			}
		}
		// anything beyond what is expected
		extra := time.After(50 * time.Millisecond)
	more:
		for {
			select {
			case b, ok := <-w.ch:
				if !ok {
					w.closed = true
					break more
				}
				w.got = append(w.got, b...)
			case <-extra:
				break more
			}
		}
		w.cancel()
		// judge: the delivered sequence against the expected one
		seen := map[uint64]int{}
		disorder, wrong := 0, 0
		var last uint64
		byRev := map[uint64]wr{}
		for _, a := range exp {
			byRev[a.rev] = a
		}
		for _, e := range w.got {
			seen[e.Revision]++
			if e.Revision <= last {
				disorder++
			}
			last = e.Revision
			a, ok := byRev[e.Revision]
			if !ok {
				wrong++
				continue
			}
			k := env.Keys.Num(e.Kv.Key)
			switch a.kind {
			case "delete":
				if e.Type != proto.Event_DELETE || k != a.k || e.Kv.Revision != a.prev || string(e.Kv.Value) != a.pval {
					wrong++
				}
			case "create":
				if e.Type != proto.Event_CREATE || k != a.k || e.Kv.Revision != a.rev || string(e.Kv.Value) != a.val {
					wrong++
				}
			default:
				if e.Type != proto.Event_PUT || k != a.k || e.Kv.Revision != a.rev || string(e.Kv.Value) != a.val {
					wrong++
				}
			}
		}
		dups, missing := 0, 0
		for _, c := range seen {
			if c > 1 {
				dups += c - 1
			}
		}
		// "up to the moment its stream is closed": what is missing must be a tail
		firstMissing := -1
		for i, a := range exp {
			if seen[a.rev] == 0 {
				missing++
				if firstMissing < 0 {
					firstMissing = i
				}
			}
		}
		holes := 0
		if firstMissing >= 0 {
			for _, a := range exp[firstMissing:] {
				if seen[a.rev] > 0 {
					holes++
				}
			}
		}
		evs = append(evs, gate.Event{"e": "WatchBulk", "engine": *engine, "watcher": w.name, "setup_ok": setupOK, "expected": len(exp), "delivered": len(w.got),
			"dups": dups, "missing": missing, "holes": holes, "disorder": disorder, "wrong": wrong, "closed": w.closed, "stuck": w.stuck, "max_batch": w.maxB,
			"full_batches": int(atomic.LoadInt64(&fullBatches)), "largest_flush": int(atomic.LoadInt64(&maxFlush))})
	}
	env.Retire()
	w, err := os.Create(*out)
	if err != nil {
		fmt.Println(err)
		return 2
	}
	for _, ev := range evs {
		bs, _ := json.Marshal(ev)
		w.Write(append(bs, '\n'))
	}
	w.WriteString("{\"e\":\"Reset\"}\n")
	w.Close()
	if *report != "" {
		bs, _ := json.Marshal(map[string]interface{}{"behaviours": len(evs), "nontrivial": len(evs), "agreed": len(evs), "writes": len(acked),
			"full_batches": atomic.LoadInt64(&fullBatches), "flushes": atomic.LoadInt64(&flushes), "largest_flush": atomic.LoadInt64(&maxFlush)})
		os.WriteFile(*report, bs, 0644)
	}
	fmt.Printf("watchbulk engine=%s writes=%d watchers=%d full_batches=%d largest_flush=%d setup_ok=%v\n", *engine, len(acked), len(evs), fullBatches, maxFlush, setupOK)
	return 0
}
