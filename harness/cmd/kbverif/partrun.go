package main

import (
	"bufio"
	"context"
	"encoding/json"
	"flag"
	"fmt"
	"math/rand"
	"os"
	"sort"
	"strings"
	"time"

	proto "github.com/kubewharf/kubebrain-client/api/v2rpc"

	"github.com/kubewharf/kubebrain/pkg/backend"
	"github.com/kubewharf/kubebrain/pkg/storage"

	"kbverif/gate"
	"kbverif/kb"
)

// cmdPartRun (C13): after a history has been written, the engine's answer to GetPartitions is
// replaced by generated border sets (on stored keys and on well-formed internal keys, any
// revision, given in any order); unlimited range reads, counts and the concatenation of the
// streamed ranges over the ADVERTISED partitions are recorded for every border set.
func cmdPartRun(args []string) int {
	fs := flag.NewFlagSet("partrun", flag.ExitOnError)
	in := fs.String("in", "", "behaviours")
	out := fs.String("out", "", "trace output")
	report := fs.String("report", "", "report output")
	engine := fs.String("engine", "memkv", "engines (comma separated)")
	shard := fs.Int("shard", 0, "shard")
	shards := fs.Int("shards", 1, "shards")
	seed := fs.Int64("seed", 1, "seed")
	nsets := fs.Int("sets", 40, "border sets per history")
	_ = fs.String("agree", "", "unused")
	fs.Parse(args)
	kb.QuietLogs()
	backend.VerifSetRetryIntervals(0, time.Millisecond)
	names := strings.Split(*engine, ",")
	engs := map[string]*kb.Engine{}
	for _, n := range names {
		e, err := kb.NewEngine(n)
		if err != nil {
			fmt.Println(err)
			return 2
		}
		defer e.Close()
		engs[n] = e
	}
	f, err := os.Open(*in)
	if err != nil {
		fmt.Println(err)
		return 2
	}
	defer f.Close()
	w, err := os.Create(*out)
	if err != nil {
		fmt.Println(err)
		return 2
	}
	bw := bufio.NewWriterSize(w, 1<<20)
	rep := &seqReport{OpCount: map[string]int{}, Engine: *engine}
	start := time.Now()
	sc := bufio.NewScanner(f)
	sc.Buffer(make([]byte, 1<<20), 1<<26)
	n := 0
	for sc.Scan() {
		line := sc.Text()
		if strings.TrimSpace(line) == "" {
			continue
		}
		n++
		if (n-1)%*shards != *shard {
			continue
		}
		var b seqBehaviour
		if err := json.Unmarshal([]byte(line), &b); err != nil {
			rep.Errors++
			continue
		}
		rep.Histories++
		if len(rep.Samples) < 2 {
			rep.Samples = append(rep.Samples, line)
		}
		for _, en := range names {
			rnd := rand.New(rand.NewSource(*seed*104729 + int64(n)))
			var borders [][]byte // current generated inner borders (internal keys)
			shuffle := false
			opt := seqOptions{streams: false, finalFrac: 0.02}
			realRegions := en == "tikv-regions" // the adapter's own answer, from regions split at the generated borders
			opt.partitions = func(start, end []byte) []storage.Partition {
				var bs [][]byte
				for _, x := range borders {
					if string(x) > string(start) && string(x) < string(end) {
						bs = append(bs, x)
					}
				}
				sort.Slice(bs, func(i, j int) bool { return string(bs[i]) < string(bs[j]) })
				ps := []storage.Partition{}
				prev := start
				for _, x := range bs {
					if string(x) == string(prev) {
						continue
					}
					ps = append(ps, storage.Partition{Start: prev, End: x})
					prev = x
				}
				ps = append(ps, storage.Partition{Start: prev, End: end})
				if shuffle {
					rnd.Shuffle(len(ps), func(i, j int) { ps[i], ps[j] = ps[j], ps[i] })
				}
				return ps
			}
			if realRegions {
				opt.partitions = nil
			}
			opt.afterOp = func(env *kb.Env, i int, o seqOp, rd *reader) {
				if i != len(b.Ops)-1 {
					return
				}
				cur := env.B.GetCurrentRevision()
				// candidate positions: index records and versions (stored or merely well formed)
				var pos [][]byte
				for k := 1; k <= b.NKeys; k++ {
					pos = append(pos, env.InternalKey(k, 0))
					for r := b.Base + 1; r <= cur+1; r++ {
						pos = append(pos, env.InternalKey(k, r))
					}
				}
				bs := boundsFor(env, b.NKeys)
				lo, hi := bs[0], bs[len(bs)-1]
				for s := 0; s < *nsets; s++ {
					nb := 1 + rnd.Intn(3)
					borders = nil
					for j := 0; j < nb; j++ {
						borders = append(borders, pos[rnd.Intn(len(pos))])
					}
					shuffle = rnd.Intn(2) == 0
					rev := uint64(0)
					if cur > b.Base && rnd.Intn(2) == 0 {
						rev = b.Base + 1 + uint64(rnd.Intn(int(cur-b.Base)))
					}
					desc := []interface{}{}
					for _, x := range borders {
						_, num, r, _ := env.Keys.DecodeInternal(x)
						desc = append(desc, []interface{}{num, gate.Clip(r)})
					}
					if realRegions {
						for _, x := range borders {
							engs[en].SplitAt(x)
						}
					}
					env.Rec.Log(gate.Event{"e": "Note", "what": "borders", "borders": desc, "shuffled": shuffle, "real_regions": realRegions})
					rd.list(lo, hi, rev, 0, -1)
					rd.count(lo, hi)
					rd.pstream(lo, hi, rev)
					rd.stream(lo, hi, rev)
				}
				borders = nil
			}
			evs, _, notes, reads := runSeqHistory(engs[en], en, &b, rnd, 0, opt)
			rep.Reads += reads
			rep.Events += len(evs)
			rep.Ops += len(b.Ops)
			for _, e := range evs {
				bs, _ := json.Marshal(e)
				bw.Write(bs)
				bw.WriteByte('\n')
			}
			bw.WriteString("{\"e\":\"Reset\"}\n")
			if len(notes) > 0 {
				rep.ObsMismatch++
			} else {
				rep.Agreed++
			}
		}
		rep.Nontrivial++
	}
	bw.Flush()
	w.Close()
	rep.WallS = time.Since(start).Seconds()
	if *report != "" {
		bs, _ := json.MarshalIndent(rep, "", " ")
		os.WriteFile(*report, bs, 0644)
	}
	fmt.Printf("partrun engines=%s histories=%d reads=%d events=%d wall=%.1fs\n", *engine, rep.Histories, rep.Reads, rep.Events, rep.WallS)
	return 0
}

// pstream asks for the advertised partitions of [lo,hi) and streams every piece; the recorded
// result is the concatenation.
func (r *reader) pstream(lo, hi bound, rev uint64) {
	env := r.env
	r.n++
	p := "rd"
	env.Rec.Log(gate.Event{"e": "RInvoke", "p": p, "op": "stream", "k": 0, "lo": lo.ceil, "hi": hi.ceil, "rev": gate.Clip(rev), "limit": 0, "pfx": -1, "pieces": true})
	hdr := rev
	if rev == 0 {
		hdr = env.B.GetCurrentRevision()
	}
	ev := gate.Event{"e": "RReturn", "p": p, "op": "stream", "err": "", "hdr": gate.Clip(hdr), "kvs": []interface{}{}, "more": false, "count": 0, "brevs": []interface{}{}, "terms": 1}
	pr, err := env.B.GetPartitions(context.Background(), &proto.ListPartitionRequest{Key: []byte(lo.raw), End: []byte(hi.raw)})
	if err != nil {
		ev["err"] = "err"
		env.Rec.Log(ev)
		return
	}
	var kvs, brevs []interface{}
	kvs, brevs = []interface{}{}, []interface{}{}
	terms := 1
	// every piece must read at the same revision: pin "current" once
	pin := hdr
	for i := 0; i+1 < len(pr.PartitionKeys); i++ {
		k, b, t, serr, _ := streamRead(env, pr.PartitionKeys[i], pr.PartitionKeys[i+1], pin)
		kvs = append(kvs, k...)
		brevs = append(brevs, b...)
		if t != 1 {
			terms = t
		}
		if serr != "" {
			ev["err"] = serr
		}
	}
	ev["kvs"], ev["brevs"], ev["terms"], ev["pieces"] = kvs, brevs, terms, len(pr.PartitionKeys)-1
	env.Rec.Log(ev)
}
