package main

import (
	"context"
	"encoding/json"
	"flag"
	"fmt"
	"net/http"
	"net/http/httptest"
	"os"
	"strings"
	"time"

	proto "github.com/kubewharf/kubebrain-client/api/v2rpc"

	"github.com/kubewharf/kubebrain/pkg/backend"
	"github.com/kubewharf/kubebrain/pkg/server/service/leader"
	"github.com/kubewharf/kubebrain/pkg/server/service/revision"

	"kbverif/gate"
	"kbverif/kb"
)

// cmdDerailRun (C18 / C04, the counterexample TLC gives for LeaderRevisionMonotone in Roles.tla with Promotes = TRUE, on the real
// code): a follower read has asked the old leader for its revision; while the answer is under way the node wins the
// election and commits writes of its own; then the answer arrives and the REAL revision syncer stores it on the REAL backend.
func cmdDerailRun(args []string) int {
	fs := flag.NewFlagSet("derailrun", flag.ExitOnError)
	out := fs.String("out", "", "trace output")
	report := fs.String("report", "", "report output")
	engine := fs.String("engine", "memkv", "engine")
	fs.String("in", "", "unused")
	fs.Int("shard", 0, "unused")
	fs.Int("shards", 1, "unused")
	fs.Parse(args)
	kb.QuietLogs()
	backend.VerifSetRetryIntervals(0, time.Millisecond)
	eng, err := kb.NewEngine(*engine)
	if err != nil {
		fmt.Println(err)
		return 2
	}
	defer eng.Close()
	env := kb.NewEnv(kb.Options{Engine: eng, KeyNames: []string{"/a", "/b", "/c", "/d", "/e"}, Gated: false, Record: false, Base: 100, Etcd: true})
	defer env.Retire()
	ctx := context.Background()
	// the old leader: its committed revision is 100; its answer is held back until released
	release := make(chan struct{})
	asked := make(chan struct{}, 1)
	srv := httptest.NewServer(http.HandlerFunc(func(rw http.ResponseWriter, req *http.Request) {
		select {
		case asked <- struct{}{}:
		default:
		}
		<-release
		bs, _ := json.Marshal(revision.LeaderRevision{Revision: 100})
		rw.WriteHeader(200)
		rw.Write(bs)
	}))
	defer srv.Close()
	stub := &leader.Stub{ElectionInfo: leader.ElectionInfo{LeaderAddress: strings.TrimPrefix(srv.URL, "http://"), IsLeader: false}}
	syncer := revision.NewRevisionSyncer(env.B, kb.Metrics(), stub, nil)
	syncDone := make(chan error, 1)
	go func() { syncDone <- syncer.SyncReadRevision() }() // a follower read begins
	setup := true
	select {
	case <-asked:
	case <-time.After(5 * time.Second):
		setup = false
	}
	// the node wins the election (its backend already counts from the engine's clock) and commits three writes
	stub.ElectionInfo.IsLeader = true
	var last uint64
	for k := 1; k <= 3; k++ {
		r, err := env.B.Create(ctx, &proto.CreateRequest{Key: env.Keys.Raw(k), Value: []byte("v")})
		if err != nil || !r.Succeeded {
			setup = false
			continue
		}
		last = r.Header.Revision
	}
	setup = env.WaitCommitted(last, 3*time.Second) && setup
	before := env.B.GetCurrentRevision()
	close(release) // the old leader's answer arrives
	var serr error
	select {
	case serr = <-syncDone:
	case <-time.After(5 * time.Second):
		setup = false
	}
	afterSync := env.B.GetCurrentRevision()
	// one more write of the leader: is it ever resolved, is it read?
	r4, err4 := env.B.Create(ctx, &proto.CreateRequest{Key: env.Keys.Raw(4), Value: []byte("v")})
	created := err4 == nil && r4.Succeeded
	resolved := created && env.WaitCommitted(r4.Header.Revision, 2*time.Second)
	l, lerr := env.B.List(ctx, &proto.RangeRequest{Key: []byte(env.Prefix + "/"), End: backend.PrefixEnd([]byte(env.Prefix + "/"))})
	listed := 0
	if lerr == nil {
		listed = len(l.Kvs)
	}
	ev := gate.Event{"e": "Derail", "engine": *engine, "setup_ok": setup && serr == nil, "committed_before": gate.Clip(before), "committed_after_sync": gate.Clip(afterSync),
		"created": created, "resolved": resolved, "listed": listed, "written": 4, "committed_end": gate.Clip(env.B.GetCurrentRevision())}
	w, err := os.Create(*out)
	if err != nil {
		fmt.Println(err)
		return 2
	}
	bs, _ := json.Marshal(ev)
	w.Write(append(bs, '\n'))
	w.WriteString("{\"e\":\"Reset\"}\n")
	w.Close()
	if *report != "" {
		bs, _ := json.Marshal(map[string]interface{}{"behaviours": 1, "nontrivial": 1, "agreed": 1})
		os.WriteFile(*report, bs, 0644)
	}
	fmt.Printf("derailrun: %s\n", string(bs))
	return 0
}
