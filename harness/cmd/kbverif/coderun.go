package main

import (
	"bufio"
	"bytes"
	"encoding/binary"
	"encoding/json"
	"flag"
	"fmt"
	"math/rand"
	"os"
	"sort"
	"sync"

	"github.com/kubewharf/kubebrain/pkg/backend"
	"github.com/kubewharf/kubebrain/pkg/backend/coder"

	"kbverif/gate"
)

func byteList(b []byte) []interface{} {
	out := make([]interface{}, len(b))
	for i, x := range b {
		out[i] = int(x)
	}
	return out
}

type kr struct {
	k []byte
	r uint64
}

// cmdCodeRun (C10) evaluates the real coder functions on the model's domain (exhaustively) and
// on a seed-chosen larger domain, and writes one trace line per evaluation.
func cmdCodeRun(args []string) int {
	fs := flag.NewFlagSet("coderun", flag.ExitOnError)
	out := fs.String("out", "", "trace output")
	report := fs.String("report", "", "report output")
	seed := fs.Int64("seed", 1, "seed")
	maxLen := fs.Int("maxlen", 3, "maximal key length of the exhaustive domain")
	random := fs.Int("random", 3000, "number of random (key, revision) pairs")
	fs.Parse(args)
	w, err := os.Create(*out)
	if err != nil {
		fmt.Println(err)
		return 2
	}
	bw := bufio.NewWriterSize(w, 1<<20)
	n := 0
	emit := func(e gate.Event) {
		bs, _ := json.Marshal(e)
		bw.Write(bs)
		bw.WriteByte('\n')
		n++
	}
	c := coder.NewNormalCoder()
	alphabet := []byte{0x25, 0x2f, 0x61, 0xff}
	var keys [][]byte
	var gen func(prefix []byte, l int)
	gen = func(prefix []byte, l int) {
		keys = append(keys, append([]byte(nil), prefix...))
		if l == *maxLen {
			return
		}
		for _, a := range alphabet {
			gen(append(prefix, a), l+1)
		}
	}
	gen(nil, 0)
	revs := []uint64{0, 1, 255, 256, 1 << 56, ^uint64(0)}
	encodeAll := func(pairs []kr) {
		sort.Slice(pairs, func(i, j int) bool {
			if c := bytes.Compare(pairs[i].k, pairs[j].k); c != 0 {
				return c < 0
			}
			return pairs[i].r < pairs[j].r
		})
		emit(gate.Event{"e": "OrderReset"})
		var last *kr
		for i := range pairs {
			p := pairs[i]
			if last != nil && bytes.Equal(last.k, p.k) && last.r == p.r {
				continue
			}
			last = &pairs[i]
			var enc []byte
			if p.r == 0 {
				enc = c.EncodeRevisionKey(p.k)
			} else {
				enc = c.EncodeObjectKey(p.k, p.r)
			}
			dk, dr, derr := c.Decode(enc)
			r8 := make([]byte, 8)
			binary.BigEndian.PutUint64(r8, p.r)
			d8 := make([]byte, 8)
			binary.BigEndian.PutUint64(d8, dr)
			emit(gate.Event{"e": "Enc", "k": byteList(p.k), "r": byteList(r8), "enc": byteList(enc), "dk": byteList(dk), "dr": byteList(d8), "dok": derr == nil})
		}
	}
	// exhaustive domain
	var pairs []kr
	for _, k := range keys {
		for _, r := range revs {
			pairs = append(pairs, kr{k, r})
		}
	}
	encodeAll(pairs)
	// prefix ends and bounds on the exhaustive domain
	for _, p := range keys {
		end := backend.PrefixEnd(p)
		emit(gate.Event{"e": "PrefixEnd", "p": byteList(p), "end": byteList(end)})
		finite := !(len(end) == 1 && end[0] == 0)
		lo := c.EncodeRevisionKey(p)
		hi := c.EncodeRevisionKey(end)
		for _, k := range keys {
			for _, r := range []uint64{0, 7, ^uint64(0)} {
				enc := c.EncodeObjectKey(k, r)
				in := bytes.Compare(lo, enc) <= 0 && bytes.Compare(enc, hi) < 0
				emit(gate.Event{"e": "Bounds", "p": byteList(p), "k": byteList(k), "inprefix": bytes.HasPrefix(k, p), "inbounds": in, "finite": finite})
			}
		}
	}
	// index record values
	for _, l := range []int{0, 1, 7, 8, 9, 10} {
		b := make([]byte, l)
		for i := range b {
			b[i] = byte(0xf0 + i)
		}
		rev, tomb, perr := coder.ParseRevision(b)
		r8 := make([]byte, 8)
		binary.BigEndian.PutUint64(r8, rev)
		emit(gate.Event{"e": "ParseRev", "b": byteList(b), "ok": perr == nil, "r": byteList(r8), "tomb": tomb})
	}
	// random larger domain: any byte above '$', keys up to 12 bytes, any 64-bit revision
	rnd := rand.New(rand.NewSource(*seed))
	pairs = nil
	for i := 0; i < *random; i++ {
		l := rnd.Intn(13)
		k := make([]byte, l)
		for j := range k {
			k[j] = byte(0x25 + rnd.Intn(256-0x25))
		}
		var r uint64
		switch rnd.Intn(4) {
		case 0:
			r = uint64(rnd.Intn(1000))
		case 1:
			r = ^uint64(0) - uint64(rnd.Intn(1000))
		default:
			r = rnd.Uint64()
		}
		pairs = append(pairs, kr{k, r})
		if rnd.Intn(3) == 0 { // same key, another revision; a key extended by one byte
			pairs = append(pairs, kr{k, rnd.Uint64()}, kr{append(append([]byte(nil), k...), byte(0x25+rnd.Intn(256-0x25))), r})
		}
	}
	encodeAll(pairs)
	for i := 0; i < *random/3; i++ {
		l := rnd.Intn(6)
		p := make([]byte, l)
		for j := range p {
			if rnd.Intn(3) == 0 {
				p[j] = 0xff
			} else {
				p[j] = byte(0x25 + rnd.Intn(256-0x25))
			}
		}
		emit(gate.Event{"e": "PrefixEnd", "p": byteList(p), "end": byteList(backend.PrefixEnd(p))})
	}
	// the coder is called by every request goroutine: the same evaluations from 8 goroutines at once must give what they give
	// alone. Every concurrent evaluation that differs from the sequential one is recorded (and judged like any other).
	var mu sync.Mutex
	var wg sync.WaitGroup
	concEvals, concBad := 0, 0
	for g := 0; g < 8; g++ {
		wg.Add(1)
		go func(g int) {
			defer wg.Done()
			for it := 0; it < 300; it++ {
				for i, k := range keys {
					r := revs[(i+it+g)%len(revs)]
					if r == 0 {
						r = 1
					}
					enc := c.EncodeObjectKey(k, r)
					dk, dr, derr := c.Decode(enc)
					bad := derr != nil || dr != r || !bytes.Equal(dk, k)
					mu.Lock()
					concEvals++
					if bad && concBad < 50 {
						concBad++
						r8 := make([]byte, 8)
						binary.BigEndian.PutUint64(r8, r)
						d8 := make([]byte, 8)
						binary.BigEndian.PutUint64(d8, dr)
						emit(gate.Event{"e": "OrderReset"})
						emit(gate.Event{"e": "Enc", "k": byteList(k), "r": byteList(r8), "enc": byteList(enc), "dk": byteList(dk), "dr": byteList(d8), "dok": derr == nil, "concurrent": true})
					}
					mu.Unlock()
				}
			}
		}(g)
	}
	wg.Wait()
	bw.Flush()
	w.Close()
	if *report != "" {
		bs, _ := json.Marshal(map[string]interface{}{"behaviours": n, "nontrivial": n, "concurrent_evaluations": concEvals, "concurrent_wrong": concBad, "exhaustive_keys": len(keys), "revisions": len(revs), "random_pairs": len(pairs)})
		os.WriteFile(*report, bs, 0644)
	}
	fmt.Printf("coderun evaluations=%d exhaustive keys=%d\n", n, len(keys))
	return 0
}
