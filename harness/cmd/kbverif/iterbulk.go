package main

import (
	"context"
	"encoding/json"
	"flag"
	"fmt"
	"io"
	"os"
	"strings"
	"sync/atomic"

	"kbverif/gate"
	"kbverif/kb"
)

var bulkSeq int64

// cmdIterBulk (C11, "from one consistent snapshot"): the contract sequences of Storage.tla use a handful of keys, which
// every engine serves from one fetch. Here an iterator over N keys is opened, a few items are consumed, then one batch
// deletes a key the iterator has not reached yet and inserts a new one; the rest is drained. What the iterator yields
// must be the contents at the time it was opened.
func cmdIterBulk(args []string) int {
	fs := flag.NewFlagSet("iterbulk", flag.ExitOnError)
	out := fs.String("out", "", "trace output")
	report := fs.String("report", "", "report output")
	engine := fs.String("engine", "memkv", "engines (comma separated)")
	nkeys := fs.Int("n", 700, "keys in the iterated interval")
	fs.String("in", "", "unused")
	fs.Int("shard", 0, "unused")
	fs.Int("shards", 1, "unused")
	fs.Parse(args)
	kb.QuietLogs()
	w, err := os.Create(*out)
	if err != nil {
		fmt.Println(err)
		return 2
	}
	defer w.Close()
	ctx := context.Background()
	runs := 0
	for _, en := range strings.Split(*engine, ",") {
		e, err := kb.NewEngine(en)
		if err != nil {
			fmt.Println(err)
			return 2
		}
		kv := e.KV
		for _, backward := range []bool{false, true} {
			for _, consumeFirst := range []int{0, 10, 300} {
				prefix := fmt.Sprintf("/ib%d/", atomic.AddInt64(&bulkSeq, 1))
				key := func(i int) []byte { return []byte(fmt.Sprintf("%sk%05d", prefix, i*2)) }
				for lo := 0; lo < *nkeys; lo += 100 {
					b := kv.BeginBatchWrite()
					for i := lo; i < lo+100 && i < *nkeys; i++ {
						b.Put(key(i), []byte("v"), 0)
					}
					if err := b.Commit(ctx); err != nil {
						fmt.Println("setup:", err)
						return 2
					}
				}
				start, end := []byte(prefix), []byte(prefix+"z")
				victim, fresh := key(*nkeys-50), []byte(fmt.Sprintf("%sk%05d", prefix, (*nkeys-60)*2+1))
				if backward {
					start, end = end, start
					victim, fresh = key(50), []byte(fmt.Sprintf("%sk%05d", prefix, 60*2+1))
				}
				it, err := kv.Iter(ctx, start, end, 0, 0)
				if err != nil {
					fmt.Println("iter:", err)
					return 2
				}
				yielded, sawVictim, sawFresh, ordered := 0, false, false, true
				var prev []byte
				step := func() bool {
					if err := it.Next(ctx); err != nil {
						if err != io.EOF {
							ordered = false
						}
						return false
					}
					k := append([]byte(nil), it.Key()...)
					if prev != nil && ((!backward && string(k) <= string(prev)) || (backward && string(k) >= string(prev))) {
						ordered = false
					}
					prev = k
					yielded++
					if string(k) == string(victim) {
						sawVictim = true
					}
					if string(k) == string(fresh) {
						sawFresh = true
					}
					return true
				}
				for i := 0; i < consumeFirst; i++ {
					if !step() {
						break
					}
				}
				b := kv.BeginBatchWrite()
				b.Del(victim)
				b.Put(fresh, []byte("new"), 0)
				cerr := b.Commit(ctx)
				for step() {
				}
				it.Close()
				ev := gate.Event{"e": "SIterBulk", "engine": en, "backward": backward, "n": *nkeys, "consumed_before_write": consumeFirst,
					"write_ok": cerr == nil, "yielded": yielded, "saw_deleted": sawVictim, "saw_new": sawFresh, "ordered": ordered}
				bs, _ := json.Marshal(ev)
				w.Write(append(bs, '\n'))
				runs++
			}
		}
		e.Close()
	}
	w.WriteString("{\"e\":\"Reset\"}\n")
	if *report != "" {
		bs, _ := json.Marshal(map[string]interface{}{"behaviours": runs, "nontrivial": runs, "agreed": runs})
		os.WriteFile(*report, bs, 0644)
	}
	fmt.Printf("iterbulk runs=%d\n", runs)
	return 0
}
