package main

import (
	"bufio"
	"context"
	"encoding/json"
	"errors"
	"flag"
	"fmt"
	"os"
	"sort"
	"strings"
	"sync"
	"time"

	proto "github.com/kubewharf/kubebrain-client/api/v2rpc"

	"github.com/kubewharf/kubebrain/pkg/backend"
	"github.com/kubewharf/kubebrain/pkg/storage"

	"kbverif/gate"
	"kbverif/kb"
)

// ---- behaviour format (printed by TLC from spec/KubeBrain.tla, operator Behaviour) ----

type specOp struct {
	Type string `json:"type"`
	Key  int    `json:"key"`
	Val  string `json:"val"`
	Exp  uint64 `json:"exp"`
}

type specStep struct {
	P string `json:"p"`
	A string `json:"a"`
	G string `json:"g"`
	// optional fault / choice annotations
	F string `json:"f,omitempty"`
	X uint64 `json:"x,omitempty"`
}

type specVer struct {
	Rev uint64 `json:"rev"`
	Val string `json:"val"`
}

type specIdx struct {
	Rev uint64 `json:"rev"`
	Del bool   `json:"del"`
}

type specAck struct {
	W     string `json:"w"`
	I     int    `json:"i"`
	Type  string `json:"type"`
	Key   int    `json:"key"`
	Exp   uint64 `json:"exp"`
	Rev   uint64 `json:"rev"`
	Res   string `json:"res"`
	Hdr   uint64 `json:"hdr"`
	KvRev uint64 `json:"kvrev"`
	KvVal string `json:"kvval"`
}

type specEvent struct {
	Type  string `json:"type"`
	Key   int    `json:"key"`
	Rev   uint64 `json:"rev"`
	Val   string `json:"val"`
	KvRev uint64 `json:"kvrev"`
}

type specWatchReq struct {
	Start  int64 `json:"start"`
	Prefix int   `json:"prefix"`
}

type specKv struct {
	K   int    `json:"k"`
	Rev uint64 `json:"rev"`
	Val string `json:"val"`
}

type specRead struct {
	P       string   `json:"p"`
	N       int      `json:"n"`
	Kind    string   `json:"kind"`
	Key     int      `json:"key"`
	Req     uint64   `json:"req"`
	Rev     uint64   `json:"rev"`
	Hdr     uint64   `json:"hdr"`
	Refused bool     `json:"refused"`
	Res     []specKv `json:"res"`
}

type specFinal struct {
	Reads     []specRead             `json:"reads"`
	Idx       []specIdx              `json:"idx"`
	Ver       [][]specVer            `json:"ver"`
	Committed uint64                 `json:"committed"`
	Dealt     uint64                 `json:"dealt"`
	Acked     []specAck              `json:"acked"`
	Delivered json.RawMessage        `json:"delivered"`
	XRes      json.RawMessage        `json:"xres"`
	Closed    json.RawMessage        `json:"closed"`
	RetryQ    int                    `json:"retryQ"`
	Floor     uint64                 `json:"floor"`
	Extra     map[string]interface{} `json:"-"`
}

type behaviour struct {
	KInit []string               `json:"kinit"`
	WOps  map[string][]specOp    `json:"wops"`
	XReq  json.RawMessage        `json:"xreq"`
	Steps []specStep             `json:"steps"`
	Final specFinal              `json:"final"`
	Cfg   map[string]interface{} `json:"cfg"`
	raw   string
}

// ---- replay configuration ----

type replayCfg struct {
	Engine       string
	Family       string
	Base         uint64
	KeyNames     []string
	Prefixes     []string // watch prefix id -> relative raw prefix
	CacheSize    int
	SeqDetail    bool
	TsoDetail    bool   // tso.Commit in two steps (the sequencer also parks at tso.commit)
	RecordDetail bool   // the compactor also stops at the reads and writes of the compaction record
	API          string // "" / "native": backend API; "etcd": writes go through the etcd-compatible Txn handler
	SubCap       int    // > 0: abstract subscriber buffer capacity, realised with filler batches
	Timeout      time.Duration
}

var writerStops = map[string]bool{"deal": true, "kv.commit": true, "kv.get": true, "kv.iter": true, "notify": true}

// the stepwise compactor (CStart / CIter / CDel) stops where its worker opens the iterator and at
// every engine deletion
var compactStops = map[string]bool{"kv.iter": true, "kv.del": true, "kv.delcur": true}
var compactStopsRec = map[string]bool{"kv.iter": true, "kv.del": true, "kv.delcur": true, "kv.get": true, "kv.commit": true}
var compactActions = map[string]bool{"CStart": true, "CIter": true, "CDel": true, "CRecGet": true, "CRecCas": true, "CScanGet": true, "CScanPut": true}

// reader processes (RInvoke / RCheck / RIter) stop at the compaction-record check and where the iterator is opened
var readStops = map[string]bool{"kv.get": true, "kv.iter": true}
var readActions = map[string]bool{"RInvoke": true, "RCheck": true, "RIter": true}

type rdOutcome struct {
	err string
	hdr uint64
	kvs []interface{}
}

func parkLabels(seqDetail, watchers bool, tsoDetail ...bool) func(string, string, uint64, uint64) bool {
	m := map[string]bool{
		"deal": true, "kv.commit": true, "kv.get": true, "kv.iter": true, "notify": true,
		"seq.poll": true, "retry.step": true, "retry.deal": true,
	}
	if watchers {
		for _, l := range []string{"hub.item", "hub.delivered", "watch.subscribed", "watch.cacheread", "watch.process", "watch.processed", "watch.closing"} {
			m[l] = true
		}
	}
	if seqDetail {
		m["seq.cacheadd"] = true
	}
	// compaction deletes are only ever issued by the compactor; parking them costs nothing elsewhere
	m["kv.del"] = true
	m["kv.delcur"] = true
	filler := map[string]bool{} // forwarding loops currently handling an empty (filler) batch; called under the scheduler lock
	return func(proc, l string, a, b uint64) bool {
		if l == "watch.process" {
			filler[proc] = b == 0
			if b == 0 {
				return false // an empty (filler) batch: see watch.go, buffer scaling
			}
		}
		if l == "watch.processed" && filler[proc] {
			return false
		}
		if l == "tso.commit" {
			// only the sequencer's calls are steps of the model (leader start-up and followers call Commit too)
			return len(tsoDetail) > 0 && tsoDetail[0] && proc == "seq"
		}
		if l == "hub.delete" && strings.HasPrefix(proc, "hub.asyncdel") {
			// a close handed to another goroutine is a separate, arbitrarily late step
			return watchers
		}
		return m[l]
	}
}

// seedKey writes the initial history of one key (spec: InitKey).
func seedKey(env *kb.Env, k int, state string) error {
	type vr struct {
		r uint64
		v string
	}
	var vs []vr
	var ix *specIdx
	tomb := string(backend.VerifTombstone())
	switch state {
	case "none":
	case "live":
		vs = []vr{{1, "a"}}
		ix = &specIdx{1, false}
	case "live2":
		vs = []vr{{1, "a"}, {2, "b"}}
		ix = &specIdx{2, false}
	case "deleted":
		vs = []vr{{1, "a"}, {2, tomb}}
		ix = &specIdx{2, true}
	case "compacted":
		vs = []vr{{1, "a"}, {2, tomb}}
	case "recreated":
		vs = []vr{{1, "a"}, {2, tomb}, {3, "c"}}
		ix = &specIdx{3, false}
	default:
		return fmt.Errorf("unknown initial key state %q", state)
	}
	for _, v := range vs {
		if err := env.SeedVersion(k, v.r, v.v); err != nil {
			return err
		}
	}
	if ix != nil {
		return env.SeedIndex(k, ix.Rev, ix.Del)
	}
	return nil
}

type opResult struct {
	Succ  bool
	Hdr   uint64
	KvRev uint64
	KvVal string
	Err   string // "", "drift", "unk", "err"
}

func classifyErr(err error) string {
	switch {
	case err == nil:
		return ""
	case errors.Is(err, backend.ErrRevisionDriftBack):
		return "drift"
	case errors.Is(err, storage.ErrUncertainResult):
		return "unk"
	default:
		return "err"
	}
}

// callOp issues one write operation on the real backend.
func callOp(env *kb.Env, o specOp) opResult {
	ctx := context.Background()
	key := env.Keys.Raw(o.Key)
	switch o.Type {
	case "create":
		r, err := env.B.Create(ctx, &proto.CreateRequest{Key: key, Value: []byte(o.Val)})
		if err != nil {
			return opResult{Err: classifyErr(err)}
		}
		return opResult{Succ: r.Succeeded, Hdr: r.Header.GetRevision()}
	case "update":
		r, err := env.B.Update(ctx, &proto.UpdateRequest{Kv: &proto.KeyValue{Key: key, Value: []byte(o.Val), Revision: o.Exp}})
		if err != nil {
			return opResult{Err: classifyErr(err)}
		}
		res := opResult{Succ: r.Succeeded, Hdr: r.Header.GetRevision()}
		if r.Kv != nil {
			res.KvRev, res.KvVal = r.Kv.Revision, string(r.Kv.Value)
		}
		return res
	case "delete":
		r, err := env.B.Delete(ctx, &proto.DeleteRequest{Key: key, Revision: o.Exp})
		if err != nil {
			return opResult{Err: classifyErr(err)}
		}
		res := opResult{Succ: r.Succeeded, Hdr: r.Header.GetRevision()}
		if r.Kv != nil {
			res.KvRev, res.KvVal = r.Kv.Revision, string(r.Kv.Value)
		}
		return res
	}
	return opResult{Err: "err"}
}

// runState is the state of one behaviour replay.
type runState struct {
	cfg        replayCfg
	env        *kb.Env
	b          *behaviour
	opIdx      map[string]int // next op (0-based) per writer
	results    map[string][]opResult
	resMu      sync.Mutex
	diverged   bool
	notes      []string
	watch      map[string]*watchState
	maxRev     uint64
	compactors map[string]bool
	panicked   bool
	api        *api
	readers    map[string]bool
	readN      map[string]int
	readRes    map[string]rdOutcome
}

func (rs *runState) note(f string, a ...interface{}) {
	if len(rs.notes) < 20 {
		rs.notes = append(rs.notes, fmt.Sprintf(f, a...))
	}
}

func (rs *runState) launchWriter(p string) error {
	i := rs.opIdx[p]
	ops := rs.b.WOps[p]
	if i >= len(ops) {
		return fmt.Errorf("%s has no operation left", p)
	}
	o := ops[i]
	rs.opIdx[p] = i + 1
	env := rs.env
	started := make(chan struct{})
	go func() {
		env.Sched.Register(p)
		env.Rec.Log(gate.Event{"e": "Invoke", "p": p, "i": i + 1, "op": o.Type, "k": o.Key, "exp": gate.Clip(o.Exp), "v": o.Val})
		close(started)
		defer func() {
			// a panic inside the code under test is an observation, not the end of the driver
			if x := recover(); x != nil {
				env.Rec.Log(gate.Event{"e": "Panic", "p": p, "i": i + 1, "op": o.Type, "msg": fmt.Sprint(x)})
				rs.resMu.Lock()
				rs.panicked = true
				rs.resMu.Unlock()
				env.Sched.Finish(p)
			}
		}()
		r := rs.api.write(o)
		env.Rec.Log(gate.Event{"e": "Return", "p": p, "i": i + 1, "op": o.Type, "k": o.Key, "exp": gate.Clip(o.Exp), "v": o.Val,
			"succ": r.Succ, "hdr": gate.Clip(r.Hdr), "kvrev": gate.Clip(r.KvRev), "kvval": r.KvVal, "err": r.Err})
		rs.resMu.Lock()
		rs.results[p] = append(rs.results[p], r)
		rs.resMu.Unlock()
		env.Sched.Finish(p)
	}()
	<-started
	return nil
}

var firstWriterAction = map[string]bool{"CreateDeal": true, "UpdateDeal": true, "DeleteGet": true}

// stopsFor returns the stop labels of a spec action.
func (rs *runState) stopsFor(s specStep) map[string]bool {
	if compactActions[s.A] {
		if rs.cfg.RecordDetail {
			return compactStopsRec
		}
		return compactStops
	}
	if readActions[s.A] {
		return readStops
	}
	switch s.P {
	case "seq":
		if rs.cfg.TsoDetail {
			return map[string]bool{"seq.poll": true, "seq.cacheadd": true, "tso.commit": true}
		}
		if rs.cfg.SeqDetail {
			return map[string]bool{"seq.poll": true, "seq.cacheadd": true}
		}
		return map[string]bool{"seq.poll": true}
	case "retry":
		switch s.A {
		case "RetryGet":
			return map[string]bool{"retry.step": true, "retry.deal": true}
		case "RetryDeal":
			return map[string]bool{"kv.commit": true}
		case "RetryCommit":
			return map[string]bool{"notify": true}
		default:
			return map[string]bool{"retry.step": true}
		}
	}
	return writerStops
}

// execStep performs one spec step on the real backend.
func (rs *runState) execStep(s specStep) error {
	env := rs.env
	to := rs.cfg.Timeout
	if ws, ok := rs.watch[s.P]; ok || strings.HasPrefix(s.P, "w") && rs.isWatcher(s.P) {
		_ = ws
		return rs.execWatchStep(s)
	}
	if s.P == "hub" {
		return rs.execHubStep(s)
	}
	if s.A == "CompactReq" {
		return rs.execCompact(s)
	}
	if s.A == "CStart" {
		return rs.startCompact(s)
	}
	if s.A == "RInvoke" {
		return rs.startRead(s)
	}
	if s.A == "CDel" && s.F != "" && s.F != "ok" {
		proc := s.P
		kind := s.F
		fired := false
		env.Store.DelFault = func(p string, nth int, e gate.Event) string {
			if p == proc && !fired {
				fired = true
				return kind
			}
			return ""
		}
		defer func() { env.Store.DelFault = nil }()
	}
	switch s.F {
	case "err", "unka", "unkn":
		// the engine answer the specification chose for this commit
		kind := map[string]string{"err": "err", "unka": "unk_applied", "unkn": "unk_notapplied"}[s.F]
		proc := s.P
		fired := false
		env.Store.CommitFault = func(p string, nth int, ops []gate.Event) *gate.Fault {
			if p == proc && !fired {
				fired = true
				return &gate.Fault{Kind: kind}
			}
			return nil
		}
		defer func() { env.Store.CommitFault = nil }()
	}
	if s.F == "rerr" {
		// the engine's iterator fails once for this process: the first Next of its next iterator
		proc := s.P
		fired := false
		var fmu sync.Mutex
		env.Store.IterFault = func(p string, iter, nth int) error {
			fmu.Lock()
			defer fmu.Unlock()
			if p == proc && !fired {
				fired = true
				return errors.New("injected transient iterator error")
			}
			return nil
		}
		defer func() { env.Store.IterFault = nil }()
		// ... or its next point lookup, whichever the step does
		env.Store.GetFault = func(p string) error {
			fmu.Lock()
			defer fmu.Unlock()
			if p == proc && !fired {
				fired = true
				return errors.New("injected transient lookup error")
			}
			return nil
		}
		defer func() { env.Store.GetFault = nil }()
	}
	if _, isWriter := rs.b.WOps[s.P]; isWriter && firstWriterAction[s.A] {
		st := env.Sched.Peek(s.P)
		if st.Exists && !st.Finished {
			return fmt.Errorf("%s: previous operation of %s has not returned (at %s)", s.A, s.P, st.Label)
		}
		if err := rs.launchWriter(s.P); err != nil {
			return err
		}
		st, err := env.Sched.RunToStop(s.P, writerStops, to)
		if err != nil {
			return err
		}
		if st.Finished {
			return fmt.Errorf("%s: %s returned before reaching gate %s", s.A, s.P, s.G)
		}
	}
	st, err := env.Sched.WaitStop(s.P, to)
	if err != nil {
		return err
	}
	if st.Finished {
		return fmt.Errorf("%s: %s already returned", s.A, s.P)
	}
	if !rs.diverged && st.Label != s.G {
		return fmt.Errorf("%s: %s is at gate %s, specification expects %s", s.A, s.P, st.Label, s.G)
	}
	_, err = env.Sched.Step(s.P, rs.stopsFor(s), to)
	return err
}

// startRead issues one read request (specification: RInvoke; f = kind, x = revision * 16 + key) and lets it
// run to its first stop.
func (rs *runState) startRead(s specStep) error {
	env := rs.env
	rev, key := s.X/16, int(s.X%16)
	rs.readers[s.P] = true
	rs.readN[s.P]++
	n := rs.readN[s.P]
	nkeys := len(rs.b.KInit)
	started := make(chan struct{})
	go func() {
		env.Sched.Register(s.P)
		close(started)
		rd := &reader{env: env, pname: s.P}
		if s.F == "list" {
			bs := boundsFor(env, nkeys)
			rd.list(bs[0], bs[len(bs)-1], rev, 0, -1)
		} else {
			rd.get(key, rev)
		}
		rs.resMu.Lock()
		rs.readRes[fmt.Sprintf("%s/%d", s.P, n)] = rdOutcome{err: rd.lastErr, hdr: rd.lastHdr, kvs: rd.lastKvs}
		rs.resMu.Unlock()
		env.Sched.Finish(s.P)
	}()
	<-started
	st, err := env.Sched.RunToStop(s.P, readStops, rs.cfg.Timeout)
	if err != nil {
		return err
	}
	want := "kv.iter"
	if s.F == "list" {
		want = "kv.get"
	}
	if st.Finished || st.Label != want {
		return fmt.Errorf("RInvoke: %s is at gate %q (finished=%v), specification expects %s", s.P, st.Label, st.Finished, want)
	}
	return nil
}

// startCompact issues one compaction request and lets it run until its worker is about to open
// the iterator (specification: CStart).
func (rs *runState) startCompact(s specStep) error {
	env := rs.env
	rs.compactors[s.P] = true
	go func() {
		env.Sched.Register(s.P)
		minunc := backend.VerifRetryMinRevision(env.B)
		env.Rec.Log(gate.Event{"e": "CInvoke", "p": s.P, "req": gate.Clip(s.X)})
		resp, err := env.B.Compact(context.Background(), s.X)
		hdr := uint64(0)
		if err == nil {
			hdr = resp.Header.GetRevision()
		}
		env.Rec.Log(gate.Event{"e": "CReturn", "p": s.P, "req": gate.Clip(s.X), "hdr": gate.Clip(hdr), "err": errStr(err), "minunc": gate.Clip(minunc)})
		env.Sched.Finish(s.P)
	}()
	stops, want := compactStops, "kv.iter"
	if rs.cfg.RecordDetail {
		stops, want = compactStopsRec, "kv.get"
	}
	st, err := env.Sched.RunToStop(s.P, stops, rs.cfg.Timeout)
	if err != nil {
		return err
	}
	if st.Finished {
		return fmt.Errorf("CStart: %s returned before reaching %s", s.P, want)
	}
	if st.Label != want {
		return fmt.Errorf("CStart: %s is at gate %s, specification expects %s", s.P, st.Label, want)
	}
	return nil
}

// execCompact issues one compaction request and lets it run to completion.
func (rs *runState) execCompact(s specStep) error {
	env := rs.env
	go func() {
		env.Sched.Register(s.P)
		minunc := backend.VerifRetryMinRevision(env.B)
		env.Rec.Log(gate.Event{"e": "CInvoke", "p": s.P, "req": gate.Clip(s.X)})
		resp, err := env.B.Compact(context.Background(), s.X)
		hdr := uint64(0)
		if err == nil {
			hdr = resp.Header.GetRevision()
		}
		env.Rec.Log(gate.Event{"e": "CReturn", "p": s.P, "req": gate.Clip(s.X), "hdr": gate.Clip(hdr), "err": errStr(err), "minunc": gate.Clip(minunc)})
		env.Sched.Finish(s.P)
	}()
	_, err := env.Sched.RunToStop(s.P, noStops, rs.cfg.Timeout)
	return err
}

// finishAll drives everything to quiescence at process level (used after a divergence and at
// the end of every behaviour).
func (rs *runState) finishAll() {
	env := rs.env
	to := rs.cfg.Timeout
	deadline := time.Now().Add(6 * time.Second)
	for round := 0; round < 200 && time.Now().Before(deadline); round++ {
		progressed := false
		// writers
		names := make([]string, 0, len(rs.b.WOps))
		for p := range rs.b.WOps {
			names = append(names, p)
		}
		sort.Strings(names)
		for _, p := range names {
			st := env.Sched.Peek(p)
			if st.Exists && st.Parked {
				if _, err := env.Sched.Step(p, writerStops, to); err == nil {
					progressed = true
				}
			} else if (!st.Exists || st.Finished) && rs.opIdx[p] < len(rs.b.WOps[p]) && rs.diverged {
				if err := rs.launchWriter(p); err == nil {
					env.Sched.RunToStop(p, writerStops, to)
					progressed = true
				}
			}
		}
		for p := range rs.readers {
			if st := env.Sched.Peek(p); st.Exists && st.Parked {
				if _, err := env.Sched.Step(p, noStops, to); err == nil {
					progressed = true
				}
			}
		}
		for p := range rs.compactors {
			if st := env.Sched.Peek(p); st.Exists && st.Parked {
				if _, err := env.Sched.Step(p, noStops, to); err == nil {
					progressed = true
				}
			}
		}
		if rs.finishWatch() {
			progressed = true
		}
		if !progressed {
			// asynchronous closers go last
			for name, label := range env.Sched.ParkedProcs() {
				if label == "hub.delete" {
					env.Sched.Release(name)
					time.Sleep(200 * time.Microsecond)
					progressed = true
				}
			}
		}
		// sequencer: run while it makes progress
		before := env.B.GetCurrentRevision()
		if st := env.Sched.Peek("seq"); st.Exists && st.Parked {
			env.Sched.Step("seq", map[string]bool{"seq.poll": true}, to)
			if env.B.GetCurrentRevision() != before {
				progressed = true
			}
		}
		// repair loop
		if backend.VerifRetryQueueSize(env.B) > 0 {
			if st := env.Sched.Peek("retry"); st.Exists && st.Parked {
				env.Sched.Step("retry", map[string]bool{"retry.step": true}, to)
				progressed = true
			}
		}
		if !progressed {
			// one more sequencer round to flush a pending batch
			if st := env.Sched.Peek("seq"); st.Exists && st.Parked {
				env.Sched.Step("seq", map[string]bool{"seq.poll": true}, to)
			}
			if !rs.finishWatch() {
				return
			}
		}
	}
}

type replayReport struct {
	Behaviours    int            `json:"behaviours"`
	Agreed        int            `json:"agreed"`
	Diverged      int            `json:"diverged"`
	ObsMismatch   int            `json:"obs_mismatch"`
	Errors        int            `json:"errors"`
	Steps         int            `json:"steps"`
	Events        int            `json:"events"`
	ActionCount   map[string]int `json:"action_count"`
	Samples       []string       `json:"samples"`
	MismatchNotes []string       `json:"mismatch_notes"`
	Nontrivial    int            `json:"nontrivial"`
	OkOps         int            `json:"ok_ops"`
	FailedOps     int            `json:"failed_ops"`
	ErrorOps      int            `json:"error_ops"`
	WallS         float64        `json:"wall_s"`
	Engine        string         `json:"engine"`
}

func valOrTomb(v string) string { return v }

// compareFinal compares the real final state with the specification's prediction.
func (rs *runState) compareFinal() []string {
	var diffs []string
	env := rs.env
	f := rs.b.Final
	if got := env.B.GetCurrentRevision(); got != f.Committed {
		diffs = append(diffs, fmt.Sprintf("committed: real %d spec %d", got, f.Committed))
	}
	if got := env.CompactRecord(); got != f.Floor {
		diffs = append(diffs, fmt.Sprintf("compaction record: real %d spec %d", got, f.Floor))
	}
	dump, err := env.Dump()
	if err != nil {
		diffs = append(diffs, "dump: "+err.Error())
		return diffs
	}
	want := []string{}
	for ki, ix := range f.Idx {
		if ix.Rev != 0 {
			d := 0
			if ix.Del {
				d = 1
			}
			want = append(want, fmt.Sprintf("[%d 0 [%d %d]]", ki+1, ix.Rev, d))
		}
	}
	for ki, vs := range f.Ver {
		for _, v := range vs {
			want = append(want, fmt.Sprintf("[%d %d %s]", ki+1, v.Rev, v.Val))
		}
	}
	got := []string{}
	for _, r := range dump {
		a := r.([]interface{})
		v := a[2].([]interface{})
		switch v[0] {
		case "i":
			got = append(got, fmt.Sprintf("[%v 0 [%v %v]]", a[0], v[1], v[2]))
		case "v":
			got = append(got, fmt.Sprintf("[%v %v %v]", a[0], a[1], v[3]))
		default:
			got = append(got, fmt.Sprint(a))
		}
	}
	sort.Strings(want)
	sort.Strings(got)
	if strings.Join(want, ";") != strings.Join(got, ";") {
		diffs = append(diffs, fmt.Sprintf("store: real %v spec %v", got, want))
	}
	for _, a := range f.Acked {
		rs.resMu.Lock()
		rl := rs.results[a.W]
		rs.resMu.Unlock()
		if a.I-1 >= len(rl) {
			diffs = append(diffs, fmt.Sprintf("op %s/%d did not return", a.W, a.I))
			continue
		}
		r := rl[a.I-1]
		wantErr := ""
		switch a.Res {
		case "drift", "unk", "err":
			wantErr = a.Res
		}
		if r.Err != wantErr {
			diffs = append(diffs, fmt.Sprintf("op %s/%d error class: real %q spec %q", a.W, a.I, r.Err, wantErr))
			continue
		}
		if wantErr != "" {
			continue
		}
		if r.Succ != (a.Res == "ok") || r.Hdr != a.Hdr || r.KvRev != a.KvRev || (a.KvRev != 0 && r.KvVal != a.KvVal) {
			diffs = append(diffs, fmt.Sprintf("op %s/%d response: real %+v spec %+v", a.W, a.I, r, a))
		}
	}
	diffs = append(diffs, rs.compareWatch()...)
	rs.resMu.Lock()
	for _, x := range f.Reads {
		r, ok := rs.readRes[fmt.Sprintf("%s/%d", x.P, x.N)]
		if !ok {
			diffs = append(diffs, fmt.Sprintf("read %s/%d did not return", x.P, x.N))
			continue
		}
		if x.Refused != (r.err != "") {
			diffs = append(diffs, fmt.Sprintf("read %s/%d refused: real %q spec %v", x.P, x.N, r.err, x.Refused))
			continue
		}
		if x.Refused {
			continue
		}
		want := []string{}
		for _, kv := range x.Res {
			want = append(want, fmt.Sprintf("[%d %d %s]", kv.K, kv.Rev, kv.Val))
		}
		got := []string{}
		for _, kv := range r.kvs {
			got = append(got, fmt.Sprint(kv))
		}
		if strings.Join(got, " ") != strings.Join(want, " ") || r.hdr != x.Hdr && x.Kind == "list" {
			diffs = append(diffs, fmt.Sprintf("read %s/%d (%s rev %d): real hdr %d %v spec hdr %d %v", x.P, x.N, x.Kind, x.Req, r.hdr, got, x.Hdr, want))
		}
	}
	rs.resMu.Unlock()
	return diffs
}

// replayOne replays one behaviour and returns its trace events.
func replayOne(cfg replayCfg, eng *kb.Engine, b *behaviour, rep *replayReport) []gate.Event {
	keyNames := cfg.KeyNames[:len(b.KInit)]
	hasWatchers := len(b.XReq) > 0 && b.XReq[0] == '{'
	env := kb.NewEnv(kb.Options{Engine: eng, KeyNames: keyNames, Gated: true, Etcd: cfg.API == "etcd", Park: parkLabels(cfg.SeqDetail, hasWatchers, cfg.TsoDetail),
		Base: cfg.Base, CacheSize: cfg.CacheSize, Record: true})
	defer env.Retire()
	rs := &runState{cfg: cfg, env: env, b: b, opIdx: map[string]int{}, results: map[string][]opResult{}, watch: map[string]*watchState{}, compactors: map[string]bool{}, readers: map[string]bool{}, readN: map[string]int{}, readRes: map[string]rdOutcome{}, api: newAPI(env, cfg.API)}
	for k, st := range b.KInit {
		if err := seedKey(env, k+1, st); err != nil {
			rep.Errors++
			rs.note("seed: %v", err)
			return nil
		}
	}
	store0, _ := env.Dump()
	if store0 == nil {
		store0 = []interface{}{}
	}
	env.Rec.Log(gate.Event{"e": "Init", "base": gate.Clip(cfg.Base), "nkeys": len(keyNames), "store": store0, "engine": cfg.Engine,
		"prefixes": rs.prefixTable(), "expiring": []interface{}{}})
	rs.initWatch()
	// background processes must be parked before the schedule starts
	if _, err := env.Sched.WaitStop("seq", cfg.Timeout); err != nil {
		rep.Errors++
		return nil
	}
	if _, err := env.Sched.WaitStop("retry", cfg.Timeout); err != nil {
		rep.Errors++
		return nil
	}
	budget := time.Now().Add(8 * time.Second)
	for i, s := range b.Steps {
		rep.Steps++
		rep.ActionCount[s.A]++
		if rs.diverged && time.Now().After(budget) {
			break
		}
		if err := rs.execStep(s); err != nil {
			if !rs.diverged {
				rs.diverged = true
				rs.cfg.Timeout = 300 * time.Millisecond // the schedule no longer applies: do not wait long for gates
				budget = time.Now().Add(5 * time.Second)
				rs.note("step %d (%s %s): %v", i, s.P, s.A, err)
			}
		}
		rs.drainWatch()
	}
	rs.finishAll()
	rs.drainWatch()
	// quiescence
	allReturned := true
	for p, ops := range b.WOps {
		rs.resMu.Lock()
		n := len(rs.results[p])
		rs.resMu.Unlock()
		if n != len(ops) {
			allReturned = false
		}
	}
	env.Rec.Log(gate.Event{"e": "Quiesce", "committed": gate.Clip(env.B.GetCurrentRevision()), "returned": allReturned,
		"retryq": backend.VerifRetryQueueSize(env.B)})
	for _, rl := range rs.results {
		for _, r := range rl {
			switch {
			case r.Err != "":
				rep.ErrorOps++
			case r.Succ:
				rep.OkOps++
			default:
				rep.FailedOps++
			}
		}
	}
	diffs := rs.compareFinal()
	switch {
	case rs.diverged:
		rep.Diverged++
		if len(rep.MismatchNotes) < 10 {
			rep.MismatchNotes = append(rep.MismatchNotes, "diverged: "+strings.Join(rs.notes, " | ")+" :: "+strings.Join(diffs, " | "))
		}
	case len(diffs) > 0:
		rep.ObsMismatch++
		if len(rep.MismatchNotes) < 10 {
			rep.MismatchNotes = append(rep.MismatchNotes, "mismatch: "+strings.Join(diffs, " | "))
		}
	default:
		rep.Agreed++
	}
	evs := env.Rec.Events()
	rep.Events += len(evs)
	return evs
}

func isNontrivial(b *behaviour) bool {
	// at least two processes with overlapping lifetimes: some process takes a step between the
	// first and the last step of another one
	first := map[string]int{}
	last := map[string]int{}
	for i, s := range b.Steps {
		if s.P == "seq" || s.P == "hub" {
			continue
		}
		if _, ok := first[s.P]; !ok {
			first[s.P] = i
		}
		last[s.P] = i
	}
	for p, f := range first {
		for q, g := range first {
			if p != q && f < g && g < last[p] {
				return true
			}
		}
	}
	for _, s := range b.Steps {
		if s.P == "retry" {
			return true
		}
	}
	return false
}

func cmdReplay(args []string) int {
	fs := flag.NewFlagSet("replay", flag.ExitOnError)
	in := fs.String("in", "", "behaviours (one JSON object per line)")
	out := fs.String("out", "", "trace output (ndjson)")
	report := fs.String("report", "", "report output (json)")
	engine := fs.String("engine", "memkv", "engine")
	shard := fs.Int("shard", 0, "shard index")
	shards := fs.Int("shards", 1, "number of shards")
	cache := fs.Int("cache", 0, "watch cache size (0 = default)")
	seqDetail := fs.Bool("seqdetail", false, "cache insert is a separate sequencer step")
	tsoDetail := fs.Bool("tsodetail", false, "tso.Commit is two sequencer steps (implies -seqdetail)")
	apiKind := fs.String("api", "native", "native | etcd: the API the writers use")
	recordDetail := fs.Bool("recorddetail", false, "the compactor also stops at the reads and writes of the compaction record")
	base := fs.Uint64("base", 3, "base revision")
	subcap := fs.Int("subcap", 0, "abstract subscriber buffer capacity (0 = no scaling)")
	fs.Parse(args)
	kb.QuietLogs()
	backend.VerifSetRetryIntervals(0, time.Millisecond)
	f, err := os.Open(*in)
	if err != nil {
		fmt.Println(err)
		return 2
	}
	defer f.Close()
	eng, err := kb.NewEngine(*engine)
	if err != nil {
		fmt.Println(err)
		return 2
	}
	defer eng.Close()
	cfg := replayCfg{Engine: *engine, Base: *base, KeyNames: defaultKeyNames, Prefixes: defaultPrefixes, CacheSize: *cache, SeqDetail: *seqDetail || *tsoDetail, TsoDetail: *tsoDetail, API: *apiKind, RecordDetail: *recordDetail, SubCap: *subcap, Timeout: 3 * time.Second}
	rep := &replayReport{ActionCount: map[string]int{}, Engine: *engine}
	start := time.Now()
	w, err := os.Create(*out)
	if err != nil {
		fmt.Println(err)
		return 2
	}
	bw := bufio.NewWriterSize(w, 1<<20)
	sc := bufio.NewScanner(f)
	sc.Buffer(make([]byte, 1<<20), 1<<26)
	n := 0
	seen := map[string]bool{}
	for sc.Scan() {
		line := sc.Text()
		if strings.TrimSpace(line) == "" {
			continue
		}
		n++
		if (n-1)%*shards != *shard {
			continue
		}
		var b behaviour
		if err := json.Unmarshal([]byte(line), &b); err != nil {
			fmt.Println("bad behaviour:", err)
			rep.Errors++
			continue
		}
		rep.Behaviours++
		if !seen[line] {
			seen[line] = true
			if isNontrivial(&b) {
				rep.Nontrivial++
			}
		}
		evs := replayOne(cfg, eng, &b, rep)
		if len(rep.Samples) < 3 {
			rep.Samples = append(rep.Samples, line)
		}
		for _, e := range evs {
			bs, _ := json.Marshal(e)
			bw.Write(bs)
			bw.WriteByte('\n')
		}
		bw.WriteString("{\"e\":\"Reset\"}\n")
	}
	bw.Flush()
	w.Close()
	rep.WallS = time.Since(start).Seconds()
	if *report != "" {
		bs, _ := json.MarshalIndent(rep, "", " ")
		os.WriteFile(*report, bs, 0644)
	}
	fmt.Printf("replay engine=%s behaviours=%d agreed=%d diverged=%d obs_mismatch=%d errors=%d steps=%d events=%d wall=%.1fs\n",
		*engine, rep.Behaviours, rep.Agreed, rep.Diverged, rep.ObsMismatch, rep.Errors, rep.Steps, rep.Events, rep.WallS)
	for _, m := range rep.MismatchNotes {
		fmt.Println("  NOTE", m)
	}
	if rep.Errors > 0 {
		return 2
	}
	return 0
}

var defaultKeyNames = []string{"/a", "/a-b", "/a/b", "/ab"}
var defaultPrefixes = []string{"/", "/a-", "/a/"}
