package main

import (
	"bufio"
	"encoding/json"
	"flag"
	"fmt"
	"os"
	"strings"
	"sync"
	"sync/atomic"
	"time"

	"github.com/kubewharf/kubebrain/pkg/metrics"
	"github.com/kubewharf/kubebrain/pkg/verifhook"

	"kbverif/gate"
	"kbverif/kb"
)

var metricSeq int64

// cmdMetricsRun (C20): schedules of MetricsReg.tla on the real Prometheus client. Every behaviour uses a fresh metric
// name; the goroutines of the behaviour emit it; the yield point between the read-miss and the write lock is the gate.
func cmdMetricsRun(args []string) int {
	fs := flag.NewFlagSet("metricsrun", flag.ExitOnError)
	in := fs.String("in", "", "behaviours")
	out := fs.String("out", "", "trace output")
	report := fs.String("report", "", "report output")
	fs.String("engine", "", "unused")
	shard := fs.Int("shard", 0, "shard")
	shards := fs.Int("shards", 1, "shards")
	fs.Parse(args)
	kb.QuietLogs()
	f, err := os.Open(*in)
	if err != nil {
		fmt.Println(err)
		return 2
	}
	defer f.Close()
	w, err := os.Create(*out)
	if err != nil {
		fmt.Println(err)
		return 2
	}
	bw := bufio.NewWriterSize(w, 1<<20)
	cli := kb.Metrics()
	type step struct {
		T string `json:"t"`
		A string `json:"a"`
	}
	type beh struct {
		Steps []step `json:"steps"`
	}
	// the gate: a goroutine that missed parks here until its Create step
	var mu sync.Mutex
	parked := map[int64]chan struct{}{}
	byGid := map[int64]string{}
	arrived := make(chan string, 16)
	verifhook.Hook = func(point string, a, b uint64) {
		if point != "metrics.miss" {
			return
		}
		gid := gate.CurGID()
		mu.Lock()
		name, ok := byGid[gid]
		if !ok {
			mu.Unlock()
			return
		}
		ch := make(chan struct{})
		parked[gid] = ch
		mu.Unlock()
		arrived <- name
		<-ch
	}
	sc := bufio.NewScanner(f)
	sc.Buffer(make([]byte, 1<<20), 1<<26)
	n, runs, diverged := 0, 0, 0
	kinds := []string{"counter", "gauge", "histogram"}
	for sc.Scan() {
		line := strings.TrimSpace(sc.Text())
		if line == "" {
			continue
		}
		n++
		if (n-1)%*shards != *shard {
			continue
		}
		var b beh
		if err := json.Unmarshal([]byte(line), &b); err != nil {
			continue
		}
		for _, kind := range kinds {
			name := fmt.Sprintf("verif.fresh.%s.%d.%d", kind, *shard, atomic.AddInt64(&metricSeq, 1))
			emit := func() {
				switch kind {
				case "counter":
					cli.EmitCounter(name, 1, metrics.Tag("k", "v"))
				case "gauge":
					cli.EmitGauge(name, 1, metrics.Tag("k", "v"))
				default:
					cli.EmitHistogram(name, 1, metrics.Tag("k", "v"))
				}
			}
			done := map[string]chan string{}
			gids := map[string]int64{}
			ok := true
			var evs []gate.Event
			for _, s := range b.Steps {
				switch s.A {
				case "Lookup":
					dch := make(chan string, 1)
					done[s.T] = dch
					started := make(chan int64, 1)
					go func(t string) {
						gid := gate.CurGID()
						mu.Lock()
						byGid[gid] = t
						mu.Unlock()
						started <- gid
						res := "ok"
						func() {
							defer func() {
								if x := recover(); x != nil {
									res = "panic: " + fmt.Sprint(x)
								}
							}()
							emit()
						}()
						dch <- res
					}(s.T)
					gids[s.T] = <-started
					// either it parks at the miss or it finishes (hit)
					select {
					case <-arrived:
						evs = append(evs, gate.Event{"e": "MLookup", "t": s.T, "kind": kind, "miss": true})
					case r := <-dch:
						dch <- r
						evs = append(evs, gate.Event{"e": "MLookup", "t": s.T, "kind": kind, "miss": false})
					case <-time.After(2 * time.Second):
						ok = false
					}
				case "Create":
					mu.Lock()
					ch := parked[gids[s.T]]
					delete(parked, gids[s.T])
					mu.Unlock()
					if ch == nil {
						// the model says this thread missed; the code had a hit: a divergence, not a verdict
						ok = false
						continue
					}
					close(ch)
					select {
					case r := <-done[s.T]:
						evs = append(evs, gate.Event{"e": "MCreate", "t": s.T, "kind": kind, "panic": strings.HasPrefix(r, "panic"), "detail": r})
					case <-time.After(2 * time.Second):
						ok = false
					}
				}
			}
			// let every goroutine go
			mu.Lock()
			for g, ch := range parked {
				close(ch)
				delete(parked, g)
			}
			mu.Unlock()
			if !ok {
				diverged++
			}
			for _, e := range evs {
				bs, _ := json.Marshal(e)
				bw.Write(bs)
				bw.WriteByte('\n')
			}
			bw.WriteString("{\"e\":\"Reset\"}\n")
			runs++
		}
	}
	verifhook.Hook = nil
	bw.Flush()
	w.Close()
	if *report != "" {
		bs, _ := json.Marshal(map[string]interface{}{"behaviours": runs, "nontrivial": runs, "agreed": runs - diverged, "obs_mismatch": diverged})
		os.WriteFile(*report, bs, 0644)
	}
	fmt.Printf("metricsrun runs=%d diverged=%d\n", runs, diverged)
	return 0
}
