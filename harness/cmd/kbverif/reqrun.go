package main

import (
	"bufio"
	"context"
	"encoding/json"
	"errors"
	"flag"
	"fmt"
	"net/http"
	"os"
	"sort"
	"strings"
	"sync"
	"time"

	"go.etcd.io/etcd/api/v3/etcdserverpb"
	"google.golang.org/grpc"

	proto "github.com/kubewharf/kubebrain-client/api/v2rpc"

	"github.com/kubewharf/kubebrain/pkg/backend"
	"github.com/kubewharf/kubebrain/pkg/metrics"
	"github.com/kubewharf/kubebrain/pkg/server/brain"
	"github.com/kubewharf/kubebrain/pkg/server/etcd"

	"kbverif/gate"
	"kbverif/kb"
)

// metricsRec wraps the REAL Prometheus client: it records with which label names every metric
// name is emitted and whether the real client panicked.
type metricsRec struct {
	inner  metrics.Metrics
	mu     sync.Mutex
	labels map[string]map[string]bool // "kind name" -> set of label-name lists
	panics []string
}

func (m *metricsRec) rec(kind, name string, tags []metrics.T) {
	ns := make([]string, len(tags))
	for i, t := range tags {
		ns[i] = t.Name
	}
	key := kind + " " + name
	m.mu.Lock()
	if m.labels[key] == nil {
		m.labels[key] = map[string]bool{}
	}
	m.labels[key][strings.Join(ns, ",")] = true
	m.mu.Unlock()
}
func (m *metricsRec) guard(name string) {
	if r := recover(); r != nil {
		m.mu.Lock()
		m.panics = append(m.panics, fmt.Sprintf("%s: %v", name, r))
		m.mu.Unlock()
	}
}
func (m *metricsRec) GetGrpcServerOption() []grpc.ServerOption { return m.inner.GetGrpcServerOption() }
func (m *metricsRec) GetHttpHandlers() map[string]http.Handler { return m.inner.GetHttpHandlers() }
func (m *metricsRec) EmitCounter(name string, v interface{}, tags ...metrics.T) error {
	m.rec("counter", name, tags)
	defer m.guard(name)
	return m.inner.EmitCounter(name, v, tags...)
}
func (m *metricsRec) EmitGauge(name string, v interface{}, tags ...metrics.T) error {
	m.rec("gauge", name, tags)
	defer m.guard(name)
	return m.inner.EmitGauge(name, v, tags...)
}
func (m *metricsRec) EmitHistogram(name string, v interface{}, tags ...metrics.T) error {
	m.rec("histogram", name, tags)
	defer m.guard(name)
	return m.inner.EmitHistogram(name, v, tags...)
}

type reqCase map[string]interface{}

func (r reqCase) s(k string) string {
	v, _ := r[k].(string)
	return v
}
func (r reqCase) b(k string) bool {
	v, _ := r[k].(bool)
	return v
}

// cmdReqRun (C20): every request of the abstract space of Requests.tla (and seed-chosen
// sequences of two) is sent to the real handlers of one long-lived node with the real Prometheus
// client; after each request a liveness probe runs.
func cmdReqRun(args []string) int {
	fs := flag.NewFlagSet("reqrun", flag.ExitOnError)
	in := fs.String("in", "", "requests")
	out := fs.String("out", "", "trace output")
	report := fs.String("report", "", "report output")
	pending := fs.String("pending", "", "file holding the request being executed (crash forensics)")
	engine := fs.String("engine", "memkv", "engine")
	shard := fs.Int("shard", 0, "shard")
	shards := fs.Int("shards", 1, "shards")
	fs.Parse(args)
	kb.QuietLogs()
	backend.VerifSetRetryIntervals(0, time.Millisecond)
	mrec := &metricsRec{labels: map[string]map[string]bool{}}
	kb.MetricsWrap = func(m metrics.Metrics) metrics.Metrics { mrec.inner = m; return mrec }
	eng, err := kb.NewEngine(*engine)
	if err != nil {
		fmt.Println(err)
		return 2
	}
	defer eng.Close()
	const base = 100
	env := kb.NewEnv(kb.Options{Engine: eng, KeyNames: defaultKeyNames, Gated: false, Record: false, Base: base, Etcd: true})
	peers := leaderPeers()
	es := etcd.New(env.B, kb.Metrics(), peers)
	bs := brain.New(env.B, kb.Metrics(), peers)
	ctx0 := context.Background()
	env.B.Create(ctx0, &proto.CreateRequest{Key: env.Keys.Raw(1), Value: []byte("x")})
	env.B.Create(ctx0, &proto.CreateRequest{Key: env.Keys.Raw(2), Value: []byte("y")})
	env.WaitCommitted(base+2, time.Second)

	f, err := os.Open(*in)
	if err != nil {
		fmt.Println(err)
		return 2
	}
	defer f.Close()
	w, err := os.Create(*out)
	if err != nil {
		fmt.Println(err)
		return 2
	}
	bw := bufio.NewWriter(w)
	emit := func(e gate.Event) {
		bs, _ := json.Marshal(e)
		bw.Write(bs)
		bw.WriteByte('\n')
		bw.Flush()
	}
	P := env.Prefix
	keyOf := func(c string) []byte {
		switch c {
		case "empty":
			return nil
		case "normal":
			return []byte(P + "/a")
		case "ff":
			return []byte(P + "/\xff\xff")
		case "lowbytes":
			return []byte(P + "/\x01\x00x")
		case "dollar":
			return []byte(P + "/a$b")
		default:
			return []byte("zz-not-a-path")
		}
	}
	valOf := func(c string) []byte {
		switch c {
		case "empty":
			return nil
		case "marker":
			return []byte("tombstone")
		}
		return []byte("v")
	}
	revOf := func(c string) int64 {
		cur := int64(env.B.GetCurrentRevision())
		switch c {
		case "zero":
			return 0
		case "past":
			return base + 1
		case "current":
			return cur
		case "future":
			return cur + 1000
		case "negative":
			return -5
		default:
			return 1888
		}
	}
	endOf := func(c string, key []byte) []byte {
		switch c {
		case "empty":
			return nil
		case "below":
			return []byte(P + "/")
		case "equal":
			return key
		case "normal":
			return backend.PrefixEnd([]byte(P + "/"))
		default:
			return []byte("\xff\xff\xff")
		}
	}
	limOf := func(c string) int64 {
		switch c {
		case "zero":
			return 0
		case "small":
			return 2
		case "huge":
			return 1 << 62
		default:
			return -3
		}
	}
	txnOf := func(c string, key, val []byte, rev int64) *etcdserverpb.TxnRequest {
		other := []byte(P + "/other")
		switch c {
		case "create":
			return &etcdserverpb.TxnRequest{Compare: []*etcdserverpb.Compare{cmpMod(key, 0)}, Success: []*etcdserverpb.RequestOp{opPut(key, val)}}
		case "update":
			return &etcdserverpb.TxnRequest{Compare: []*etcdserverpb.Compare{cmpMod(key, rev)}, Success: []*etcdserverpb.RequestOp{opPut(key, val)}, Failure: []*etcdserverpb.RequestOp{opRange(key)}}
		case "delete":
			return &etcdserverpb.TxnRequest{Compare: []*etcdserverpb.Compare{cmpMod(key, rev)}, Success: []*etcdserverpb.RequestOp{opDel(key)}, Failure: []*etcdserverpb.RequestOp{opRange(key)}}
		case "delete0":
			return &etcdserverpb.TxnRequest{Success: []*etcdserverpb.RequestOp{opRange(key), opDel(key)}}
		case "compact":
			ck := []byte("compact_rev_key")
			return &etcdserverpb.TxnRequest{Compare: []*etcdserverpb.Compare{{Target: etcdserverpb.Compare_VERSION, Result: etcdserverpb.Compare_EQUAL, Key: ck, TargetUnion: &etcdserverpb.Compare_Version{Version: rev}}},
				Success: []*etcdserverpb.RequestOp{opPut(ck, val)}, Failure: []*etcdserverpb.RequestOp{opRange(ck)}}
		case "empty":
			return &etcdserverpb.TxnRequest{}
		case "mismatch":
			return &etcdserverpb.TxnRequest{Compare: []*etcdserverpb.Compare{cmpMod(other, rev)}, Success: []*etcdserverpb.RequestOp{opPut(key, val)}, Failure: []*etcdserverpb.RequestOp{opRange(key)}}
		case "twocmp":
			return &etcdserverpb.TxnRequest{Compare: []*etcdserverpb.Compare{cmpMod(key, rev), cmpMod(key, 0)}, Success: []*etcdserverpb.RequestOp{opPut(key, val)}}
		case "putonly":
			return &etcdserverpb.TxnRequest{Success: []*etcdserverpb.RequestOp{opPut(key, val)}}
		default: // nested transaction and a nil request op
			return &etcdserverpb.TxnRequest{Compare: []*etcdserverpb.Compare{cmpMod(key, rev)},
				Success: []*etcdserverpb.RequestOp{{Request: &etcdserverpb.RequestOp_RequestTxn{RequestTxn: &etcdserverpb.TxnRequest{}}}},
				Failure: []*etcdserverpb.RequestOp{{}}}
		}
	}
	liveN := 0
	probe := func() bool {
		liveN++
		k := []byte(fmt.Sprintf("%s/live/%d", P, liveN))
		ctx, cancel := context.WithTimeout(ctx0, 2*time.Second)
		defer cancel()
		r, err := env.B.Create(ctx, &proto.CreateRequest{Key: k, Value: []byte("alive")})
		if err != nil || !r.Succeeded {
			return false
		}
		if !env.WaitCommitted(r.Header.Revision, 2*time.Second) {
			return false
		}
		g, err := env.B.Get(ctx, &proto.GetRequest{Key: k})
		if err != nil || g.Kv == nil || string(g.Kv.Value) != "alive" {
			return false
		}
		l, err := env.B.List(ctx, &proto.RangeRequest{Key: k, End: append(append([]byte{}, k...), 0xff)})
		return err == nil && len(l.Kvs) == 1
	}
	// send executes one request; outcome is "response", "error" or "panic"
	send := func(c reqCase) (outcome string) {
		defer func() {
			if r := recover(); r != nil {
				outcome = fmt.Sprintf("panic: %v", r)
			}
		}()
		ctx, cancel := context.WithTimeout(ctx0, 2*time.Second)
		defer cancel()
		key := keyOf(c.s("key"))
		var err error
		if fk := c.s("fault"); fk != "" {
			// one call of that kind fails in the engine (under the storage metrics wrapper where the engine kind has one)
			ferr := errors.New("injected engine fault")
			if bl := env.Store.Below; bl != nil {
				switch fk {
				case "iteropen":
					bl.ArmIterOpen(ferr)
				case "next":
					bl.ArmNext(ferr)
				case "get":
					bl.ArmGet(ferr)
				case "commit":
					bl.ArmCommit(ferr, false)
				case "del":
					bl.ArmDel(ferr)
				}
				defer bl.Disarm()
			} else {
				once := func() func() bool {
					fired := false
					var mu sync.Mutex
					return func() bool { mu.Lock(); defer mu.Unlock(); f := !fired; fired = true; return f }
				}()
				switch fk {
				case "next", "iteropen":
					env.Store.IterFault = func(string, int, int) error {
						if once() {
							return ferr
						}
						return nil
					}
					defer func() { env.Store.IterFault = nil }()
				case "get":
					env.Store.GetFault = func(string) error {
						if once() {
							return ferr
						}
						return nil
					}
					defer func() { env.Store.GetFault = nil }()
				case "commit":
					env.Store.CommitFault = func(string, int, []gate.Event) *gate.Fault {
						if once() {
							return &gate.Fault{Kind: "err"}
						}
						return nil
					}
					defer func() { env.Store.CommitFault = nil }()
				case "del":
					env.Store.DelFault = func(string, int, gate.Event) string {
						if once() {
							return "err"
						}
						return ""
					}
					defer func() { env.Store.DelFault = nil }()
				}
			}
		}
		// a gRPC server encodes what a unary handler returns; a response that cannot be encoded kills the process there
		enc := func(resp interface{}, e error) error {
			if e == nil {
				if m, ok := resp.(interface{ Marshal() ([]byte, error) }); ok && m != nil {
					if _, me := m.Marshal(); me != nil {
						panic("response cannot be encoded: " + me.Error())
					}
				}
			}
			return e
		}
		switch c.s("h") {
		case "etcd.Txn":
			err = enc(es.Txn(ctx, txnOf(c.s("txn"), key, valOf(c.s("val")), revOf(c.s("rev")))))
		case "etcd.Range":
			err = enc(es.Range(ctx, &etcdserverpb.RangeRequest{Key: key, RangeEnd: endOf(c.s("end"), key), Revision: revOf(c.s("rev")), Limit: limOf(c.s("limit")), CountOnly: c.b("countonly")}))
		case "etcd.Watch":
			wctx, wcancel := context.WithTimeout(ctx, 40*time.Millisecond)
			ws := newFakeWatchStream(wctx)
			switch c.s("msg") {
			case "create":
				ws.reqs <- &etcdserverpb.WatchRequest{RequestUnion: &etcdserverpb.WatchRequest_CreateRequest{CreateRequest: &etcdserverpb.WatchCreateRequest{Key: key, RangeEnd: endOf(c.s("end"), key), StartRevision: revOf(c.s("rev"))}}}
			case "cancel":
				ws.reqs <- &etcdserverpb.WatchRequest{RequestUnion: &etcdserverpb.WatchRequest_CancelRequest{CancelRequest: &etcdserverpb.WatchCancelRequest{WatchId: revOf(c.s("rev"))}}}
			default:
				ws.reqs <- &etcdserverpb.WatchRequest{}
			}
			err = es.Watch(ws)
			wcancel()
			if err != nil && strings.Contains(err.Error(), "EOF") {
				err = nil // the client went away: the normal end of a watch stream
			}
		case "etcd.Compact":
			err = enc(es.Compact(ctx, &etcdserverpb.CompactionRequest{Revision: revOf(c.s("rev"))}))
		case "etcd.Put":
			err = enc(es.Put(ctx, &etcdserverpb.PutRequest{Key: key, Value: []byte("v")}))
		case "etcd.DeleteRange":
			err = enc(es.DeleteRange(ctx, &etcdserverpb.DeleteRangeRequest{Key: key}))
		case "brain.Create":
			err = enc(bs.Create(ctx, &proto.CreateRequest{Key: key, Value: valOf(c.s("val"))}))
		case "brain.Update":
			rq := &proto.UpdateRequest{Kv: &proto.KeyValue{Key: key, Value: valOf(c.s("val")), Revision: uint64(revOf(c.s("rev")))}}
			if c.b("kvnil") {
				rq.Kv = nil
			}
			err = enc(bs.Update(ctx, rq))
		case "brain.Delete":
			err = enc(bs.Delete(ctx, &proto.DeleteRequest{Key: key, Revision: uint64(revOf(c.s("rev")))}))
		case "brain.Compact":
			err = enc(bs.Compact(ctx, &proto.CompactRequest{Revision: uint64(revOf(c.s("rev")))}))
		case "brain.Get":
			err = enc(bs.Get(ctx, &proto.GetRequest{Key: key, Revision: uint64(revOf(c.s("rev")))}))
		case "brain.Range":
			err = enc(bs.Range(ctx, &proto.RangeRequest{Key: key, End: endOf(c.s("end"), key), Revision: uint64(revOf(c.s("rev"))), Limit: limOf(c.s("limit"))}))
		case "brain.RangeStream":
			err = bs.RangeStream(&proto.RangeRequest{Key: key, End: endOf(c.s("end"), key), Revision: uint64(revOf(c.s("rev"))), Limit: limOf(c.s("limit"))}, &fakeRangeStream{fakeBrainStream: fakeBrainStream{ctx: ctx}})
		case "brain.Count":
			err = enc(bs.Count(ctx, &proto.CountRequest{Key: key, End: endOf(c.s("end"), key)}))
		case "brain.ListPartition":
			err = enc(bs.ListPartition(ctx, &proto.ListPartitionRequest{Key: key, End: endOf(c.s("end"), key)}))
		case "brain.Watch":
			wctx, wcancel := context.WithTimeout(ctx, 40*time.Millisecond)
			err = bs.Watch(&proto.WatchRequest{Key: key, Revision: uint64(revOf(c.s("rev")))}, &fakeBrainWatch{fakeBrainStream: fakeBrainStream{ctx: wctx}})
			wcancel()
		default:
			return "error"
		}
		if err != nil {
			return "error"
		}
		return "response"
	}
	sc := bufio.NewScanner(f)
	sc.Buffer(make([]byte, 1<<20), 1<<24)
	n, cases, dead := 0, 0, 0
	for sc.Scan() {
		line := sc.Text()
		if strings.TrimSpace(line) == "" {
			continue
		}
		n++
		if (n-1)%*shards != *shard {
			continue
		}
		var c reqCase
		if err := json.Unmarshal([]byte(line), &c); err != nil {
			continue
		}
		cases++
		if *pending != "" {
			os.WriteFile(*pending, []byte(line), 0644)
		}
		oc := send(c)
		live := probe()
		if live {
			dead = 0
		} else if dead++; dead >= 5 {
			// five probes in a row without a correct answer: the node is gone for good; every further request would wait out the
			// probe's deadlines and tell nothing new. The trace ends here, with the failed probes in it.
			mrec.mu.Lock()
			np := len(mrec.panics)
			mrec.mu.Unlock()
			emit(gate.Event{"e": "Req", "req": map[string]interface{}(c), "outcome": strings.SplitN(oc, ":", 2)[0], "detail": oc, "live": live, "metric_panics": np})
			break
		}
		mrec.mu.Lock()
		np := len(mrec.panics)
		mrec.mu.Unlock()
		emit(gate.Event{"e": "Req", "req": map[string]interface{}(c), "outcome": strings.SplitN(oc, ":", 2)[0], "detail": oc, "live": live, "metric_panics": np})
	}
	if *pending != "" {
		os.Remove(*pending)
	}
	// the metric table observed in this process
	mrec.mu.Lock()
	names := make([]string, 0, len(mrec.labels))
	for k := range mrec.labels {
		names = append(names, k)
	}
	sort.Strings(names)
	for _, k := range names {
		var sets []interface{}
		for s := range mrec.labels[k] {
			sets = append(sets, s)
		}
		parts := strings.SplitN(k, " ", 2)
		emit(gate.Event{"e": "Metric", "kind": parts[0], "name": parts[1], "labelsets": sets, "n": len(sets)})
	}
	for _, p := range mrec.panics {
		emit(gate.Event{"e": "MetricPanic", "detail": p})
	}
	nm := len(names)
	mrec.mu.Unlock()
	emit(gate.Event{"e": "Reset"})
	w.Close()
	if *report != "" {
		bs, _ := json.Marshal(map[string]interface{}{"behaviours": cases, "nontrivial": cases, "metric_names": nm, "engine": *engine})
		os.WriteFile(*report, bs, 0644)
	}
	fmt.Printf("reqrun engine=%s requests=%d metric names=%d\n", *engine, cases, nm)
	return 0
}
