#!/opt/veriftools/pyvenv/bin/python
import json, jsonschema, sys, glob
jsonschema.validate(json.load(open('/verif/MANIFEST.json')), json.load(open('/root/.vp/MANIFEST.schema.json')))
print('manifest valid')
es = json.load(open('/root/.vp/EVIDENCE.schema.json'))
for f in sorted(glob.glob('/verif/evidence/*.json')):
    try:
        jsonschema.validate(json.load(open(f)), es); print(f, 'valid')
    except Exception as e:
        print(f, 'INVALID', str(e)[:300])
