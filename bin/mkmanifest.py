#!/usr/bin/env python3
"""Generates /verif/MANIFEST.json from the table below."""
import json, os, subprocess
VERIF = os.path.dirname(os.path.dirname(os.path.abspath(__file__)))

def hooks_commits():
    out = subprocess.run(["git", "-C", "/repo", "log", "--format=%h %s"], capture_output=True, text=True).stdout
    return [l.split()[0] for l in out.splitlines() if l.split(" ", 1)[1].startswith("verif:")]

TB = ("trusted base: TLC 1.8, the Go harness in /verif/harness (gate scheduler, recording engine wrapper), the engines' own "
      "transaction atomicity/isolation as documented (their adapters are checked by C11); TiKV is client-go's in-process mock cluster")

CHECKS = {
 "C01": dict(technique="TLA+ spec (KubeBrain.tla) model-checked by TLC; TLC-generated schedules replayed gate-by-gate on the real backend; recorded traces validated by TLC against TraceProps.tla monitors; StorageRace.tla (atomic commit of parallel conditional batches) model-checked by TLC, every case run with real parallelism on the bare adapters and judged serialisable by TLC",
   text="Exhaustive TLC check of IndexAgrees/Chain/OneWinner/FailedLeavesKey/FailedOnlyIfDiffered for 2-3 writers on 1-2 keys from every initial key state; thousands of TLC-generated interleavings are forced onto the real backend (memkv, Badger, TiKV mock, metrics wrapper) through engine-call gates and verif yield points, plus free-running concurrent runs; every recorded execution is judged by the trace monitors (WriteCondition evaluates the operation's condition on the engine state reconstructed at the commit's linearization point).",
   ref="6/C01"),
 "C02": dict(technique="TLA+ spec model-checked by TLC; replay of TLC schedules on the real backend; TLC trace validation (UniqueRevision, RealTimeOrder, PerKeyIncreasing, HeaderCoversData); tso.Commit modelled in two steps (TsoDetail) and replayed through a yield point inside it; reader processes (List/Get in flight) replayed and judged",
   text="TLC checks uniqueness, real-time order, per-key monotonicity and header>=data on the spec for all interleavings of the bounded model; the same monitors are evaluated by TLC on every trace recorded from gated replays and free-running concurrent runs of the real code.",
   ref="6/C02"),
 "C04": dict(technique="TLA+ spec model-checked by TLC (safety NoOvertake/Resolved + liveness <>[](committed=dealt) under weak fairness); replay of TLC schedules with lagging sequencer on the real backend; TLC trace validation; schedules with storage errors / unknown outcomes on any commit incl. the repair write; reader processes of the model (List/Get in flight next to writers and a stepwise compactor) replayed",
   text="TLC proves on the bounded model that the committed revision never reaches an unfinished write and always catches up (liveness under WF), for every outcome incl. future expectations; schedules in which later-allocated writes finish first are replayed on the real backend with the sequencer as a gated process; monitors NoOvertake/CommittedWasReported/Resolved judge every recorded trace.",
   ref="6/C04"),
}
CHECKS.update({
 "C03": dict(technique="TLA+ transcription of the scanner (Scanner.tla) model-checked against the MVCC reference (KBSeq.tla/KBDefs.tla); TLC-generated histories run on 4 engines; reads judged by TLC trace validation against the history rebuilt from logged engine commits",
   text="TLC checks, for every history of the bounded sequential model and every revision/range/limit, that the transcribed scan and point-read algorithms return exactly the MVCC snapshot. TLC-generated histories (incl. failed writes and compactions, prefix-related key names) are run on memkv, Badger, TiKV mock and the metrics wrapper; after every request sampled, and at the end swept, point/range/limited/count/streamed reads at every revision are judged by TraceProps monitors (ReadIsSnapshot, MoreFlag, CountIsSnapshot, StreamIsSnapshot) against the history reconstructed from the engine's own post-values. The value equal to the deletion marker is a recorded known finding (D5).",
   ref="6/C03"),
 "C08": dict(technique="TLA+ sequential model (KBSeq.tla) model-checked by TLC (FloorMonotone, FloorAccepted); TLC-generated compaction/request sequences run on 4 engines; TLC trace validation (FloorMonotone on every logged write of the compaction record, BelowFloorRefused on every read)",
   text="All sequences of compaction requests (zero, current, current-1/-2, oldest, above current) interleaved with writes in the bounded model are checked by TLC; generated sequences are executed on the real backend on every engine and every range/stream read at every revision is issued: reads below the reconstructed floor must be refused and the floor record must never go down.",
   ref="6/C08"),
 "C12": dict(technique="TLC: client-visible outcomes of KubeBrain.tla identical under both engine parameters; TLC-generated histories run on memkv/Badger/TiKV-mock/metrics wrapper; transcripts compared by TLC trace validation (TraceAgree.tla)",
   text="The same TLC-generated sequential histories (writes with correct/stale/zero/future expectations on existing, missing, deleted and compacted keys, reads, compactions, a prefix watch) are executed on all four engine configurations; a TLA+ trace specification requires every engine to produce the same normalised transcript (successes, failures, returned values, revisions, range results, watch events), line by line.",
   ref="6/C12"),
 "C13": dict(technique="TLA+ transcription of border adjustment and per-partition workers (Scanner.tla) model-checked for all placements of <=2 borders; generated border sets injected into GetPartitions of real engines; TLC trace validation of list/count/streamed results",
   text="TLC checks partition independence of the transcribed scanner for every placement of one or two borders on stored or well-formed internal keys at every revision. On the real code the engine's partition answer is replaced by seed-generated border sets (1-3 borders, on index records, inside a key's versions, unsorted); unlimited List, Count, whole-range streams and the concatenation of streams over the advertised partitions are judged against the reconstructed history (every key exactly once, batch revision = read revision, one terminator).",
   ref="6/C13"),
})
CHECKS.update({
 "C05": dict(technique="TLA+ spec (KubeBrain.tla: sequencer poll/cache-insert/flush, hub, watcher subscribe/cache-read/decide/forward/close) model-checked by TLC; TLC schedules replayed through verif yield points on the real backend incl. real-capacity buffer overflow; TLC trace validation of every delivery; Ring.tla (event cache with revision gaps through wrap-around) model-checked, every fill executed on the real Ring and every lookup judged by TLC (TraceRing.tla)",
   text="TLC checks DeliveredIsPrefix / DeliveredIsInfix / RefusedDeliversNothing / CompleteAtQuiescence for all interleavings of registration with writes, all start revisions relative to the cache window (zero, below, inside, newest, above), cache sizes 1-2 (wrap) and subscriber buffers 1-2 with a consumer that may stall. Thousands of generated schedules are forced on the real Watch/hub/sequencer code through the yield points (memkv, TiKV mock, Badger); overflow of the real 10000-batch buffer is reached by scaling with empty batches. Every Recv/Closed is judged by the trace monitors (ordered, from start, prefix, matches a committed write, no skipped event, nothing after close, complete at quiescence).",
   ref="6/C05"),
 "C06": dict(technique="TLA+ invariant ListWatchAgree model-checked by TLC; replay of TLC schedules with list-then-watch clients on the real backend; TLC trace validation (ListWatchAgree: list result + delivered events = snapshot rebuilt from engine commits); the list half as a reader process of the model (RInvoke/RCheck/RIter) with writes and compaction deletions in flight, replayed gate by gate",
   text="A client that lists its prefix (served at R) and watches from R+1 is part of the model; TLC checks for all interleavings with writers that list result plus delivered events equals the snapshot at the last delivered revision. The same schedules are replayed on the real backend; the trace monitor recomputes the equation at every delivery against the history rebuilt from logged engine commits, and ReadIsSnapshot/NoSkip/DeliveredMatchesWrite cross-check read path and event path against the same history.",
   ref="6/C06"),
})
CHECKS.update({
 "C07": dict(technique="TLA+ transcription of the compaction scan (Scanner.tla) model-checked by TLC for every crash point and every failing deletion (CompactionSafe); TLC-generated histories with interrupted/failing compactions replayed on 4 engines with faults injected at the storage interface; free-running writers+compactor+readers; TLC trace validation at every logged delete; the compactor as a process of KubeBrain.tla taking one step per engine deletion (ok / error / lost compare / worker dies) racing writers: model-checked, schedules replayed gate by gate on memkv, Badger, TiKV mock",
   text="TLC checks in every reachable state of the bounded sequential model that a compaction at any R, interrupted after any number of deletions or with any single deletion failing (certain error or failed compare), leaves all reads at R' >= R unchanged and every key writable. TLC-generated histories containing such interrupted/failing compactions (followed by more writes) are executed on memkv, Badger, TiKV mock and the metrics wrapper; the monitor CompactionPreservesReads is evaluated at every logged Del/DelCurrent against the reconstructed store, and reads at every revision >= floor are compared with the reference. Free-running runs add real concurrency between writers, the compactor and readers.",
   ref="6/C07"),
})
CHECKS.update({
 "C09": dict(technique="TLA+ spec (KubeBrain.tla: engine answers ok/error/unknown-applied/unknown-not-applied on every commit incl. the repair write, repair loop, compaction request) model-checked by TLC; TLC schedules with the chosen faults injected at the storage interface replayed on the real backend; TLC trace validation (UnknownIsError, RepairCondition, Converged, CompactClamp, ...)",
   text="TLC explores every placement of up to 2-3 faults over create/update/delete commits and over the repair write, in both variants (applied / not applied), interleaved with a second writer and a compaction request, and checks Converged (events replayed over the initial snapshot = final store), AckedDurable, CompactClamp, RepairStillPossible, NoOvertake and Resolved. The generated schedules are replayed on memkv, TiKV mock and Badger with the same answers injected by the recording engine wrapper and the repair loop as a gated process; every trace is judged by the monitors, with a watcher from the first revision providing the delivered events.",
   ref="6/C09"),
})
CHECKS.update({
 "C10": dict(technique="byte-level TLA+ transcription of the coder (Coder.tla) model-checked by TLC over alphabet {0x25,0x2f,0x61,0xff}; every evaluation of the real functions validated by TLC against the transcription (TraceCoder.tla)",
   text="The self-contained functions EncodeObjectKey/Decode/PrefixEnd/ParseRevision are transcribed into TLA+; TLC checks round trip, order preservation (key first, revision second), index-first, contiguity, range and prefix bound enclosure for all keys of length <= 2 (quick) / 3 (thorough) and six boundary revisions. The real Go functions are evaluated exhaustively on the 85-key domain and on seed-chosen long keys with random 64-bit revisions; TLC checks each logged result against the transcription and that the logged encodings ascend strictly in (key, revision) order.",
   ref="6/C10", note="exhaustive for the stated domain only; trusted base: TLC, the harness' byte-to-JSON rendering"),
 "C11": dict(technique="TLA+ engine contract (Storage.tla) model-checked by TLC; TLC-generated operation sequences executed on memkv, Badger, TiKV mock and each behind the metrics wrapper; every result re-executed on the contract by TLC (TraceStorage.tla)",
   text="Storage.tla states the contract (sequential condition evaluation inside a batch, all-or-nothing, failed condition <=> condition false, iterator = interval from the snapshot at open, in direction, limit = at least the first n). TLC checks its internal consistency over all short sequences and generates long random sequences (two-operation batches, conditions on missing keys, bounds on/between/outside keys, backward and limited iterators, iterators consumed after later commits, compare-and-delete after a conflicting write). Each sequence runs on six engine configurations; TraceStorage re-executes every logged operation and requires the logged result class, values and iterator contents.",
   ref="6/C11"),
 "C14": dict(technique="TLA+ model of the lock record (Election.tla) model-checked by TLC for 2-3 candidates; TLC-generated interleavings of Get/Create/Update executed on the real resource lock over 4 engines; TLC trace validation against the record rebuilt from logged engine commits (TraceElection.tla)",
   text="All interleavings of the get / create / update steps of up to three candidates are explored by TLC (AtMostOneCreate, NoTwoFromSameObserved, NeverSilentlyOverwritten). Generated interleavings are executed on election.NewResourceLockManager over memkv, Badger, TiKV mock and the metrics wrapper; the trace monitors require Create to succeed iff the record is absent, Update iff the record equals what that candidate last read, and every change of the stored record to come from such a conditional write.",
   ref="6/C14"),
 "C15": dict(technique="TLA+ model of leader start-up and engine clock kinds (Election.tla) model-checked by TLC; restart scenarios through the real Campaign()/OnStartedLeading on memkv, TiKV mock, Badger, metrics wrapper; TLC trace validation (NewRevisionsAboveStored, GuardedWritesKeepWorking, OldDataVisible)",
   text="TLC checks that a new leader's revisions exceed everything stored when the engine clock advances at least as fast as write attempts, and produces the counterexample for a transaction-counting clock. On the real code an old leader (real election, real seeding from the lock description) serves successful and many failed writes, stops after any request, and a restarted node becomes leader the same way; first revisions, a guarded update of an old key and a list are judged by the monitors per engine. Badger violates the property (known finding D10).",
   ref="6/C15", note="fail-over between different identities is not executed (losing the lease ends the process); the restart path runs the same seeding code. Trusted base as above."),
})
CHECKS.update({
 "C16": dict(technique="TLA+ model of the transaction recognisers and of etcd reference semantics (Etcd.tla) model-checked by TLC over the whole bounded transaction space; the same (transaction, store) pairs sent to the real Txn handler and judged by TLC (TraceEtcd.tla); TLC-generated histories issued through the real etcd Txn/Range/Watch handlers on 4 engines and judged by TraceProps monitors",
   text="TLC enumerates all 450k (transaction, store) pairs with <=1 compare, <=2 success and <=1 failure operations and checks that a recognised transaction is executed exactly as etcd semantics prescribe (success flag, store effect, failure-branch key-value) and that every other shape is rejected without effect. A structure-stratified sample (all of it in the thorough tier) is sent to the real handler over a seeded store and re-judged by TLC. Histories of the four Kubernetes shapes are issued through the real Txn, Range (point, range, limit, count-only) and Watch (fake gRPC stream, prev_kv on deletes) handlers on four engines and judged by the MVCC monitors. Two deviations are recorded as known findings (D17 unguarded delete of a missing key, D18 count under a limit).",
   ref="6/C16"),
})
CHECKS.update({
 "C17": dict(technique="TLA+ sequential model with expiry (KBSeq.tla: compaction marks that age beyond the TTL) model-checked by TLC; TLC-generated histories with Event records and look-alike keys run on the TiKV mock with a real 1 s TTL; scripted TTL scenarios on engines with native TTL; TLC trace validation (NotBeforeTTL, ExpireWholly, only Event keys lose readable versions)",
   text="TLC checks OnlyEventsExpire / NonEventsKeepHistory / ExpiredAbsent over all bounded histories with compactions whose marks age or not. Generated histories (Event records, a pod in a namespace called events, plain keys) run on the TiKV mock with real sleeps; at every logged compaction delete the monitor decides whether it is a safe compaction delete or an expiry, and an expiry is accepted only for an Event key whose newest change is older than the TTL; after each compaction Event keys must be wholly present or wholly gone; no watch event may announce an expiry; re-creation must work. On memkv, Badger and the metrics wrapper a scripted scenario with explicit expectations covers native TTL (young Events survive, look-alikes survive, rewritten Events keep index and version together).",
   ref="6/C17"),
 "C18": dict(technique="TLA+ decision table and follower-read protocol (RolesTable.tla, Roles.tla) model-checked by TLC; every table cell executed on the real etcd/brain handlers with the real revision syncer; the complete protocol behaviour space replayed on the real revision syncer with the leader's answer and every SetCurrentRevision as gates; TLC trace validation (TraceRoles.tla)",
   text="The table (14 request types x role x proxy x leader reachable/unreachable/error) is checked by TLC against the property's clauses and executed cell by cell on the real handlers over a recording backend: followers never reach a backend write or watch, forward or reject as unavailable, set the leader's revision before reading, fail when the leader cannot be reached. The read protocol is model-checked (holds without shared fetches and with a raising store; the implemented single-flight / plain-store protocol has counterexamples) and all its 4596 behaviours are executed on the real syncer; stale reads appear exactly where the model predicts them and are reported as known findings D11a/D11b.",
   ref="6/C18"),
 "C20": dict(technique="TLA+ abstract request space (Requests.tla) enumerated by TLC; every request instantiated and sent to the real handlers of one long-lived node per engine with the real Prometheus client, liveness probe after each; TLC trace validation (Answered, StillLive, NoMetricPanic, Validated, MetricLabelsConsistent)",
   text="All 4926 abstract requests (17 handlers, one class per field incl. hostile keys, negative / future / magic revisions, huge and negative limits, unsupported and nested transactions, missing fields) are sent in a seed-dependent order to long-lived nodes on memkv and the TiKV mock (thorough: Badger and the metrics wrapper too); handler panics are caught, panics of the metrics client are recorded by a wrapper around the real client, a process death is attributed to the request in flight. The monitors require an answer, a live node after every request, no metric panic, one label-name set per metric name, and rejection of the requests the handlers must validate away.",
   ref="6/C20", note="metric call sites on paths the request space does not reach are not exercised (listed in the evidence assumptions). Trusted base as above."),
})
NA = {
 "C19": "data-race freedom is a property of memory accesses under the Go memory model; a TLA+ specification has no notion of an unsynchronised access and trace validation cannot observe one (see DESIGN.md section 6, C19)",
}

def main():
    props = [json.loads(l)["id"] for l in open(os.path.join(VERIF, "properties.jsonl"))]
    m = dict(version=1,
             setup_cmd="bash /verif/bin/setup.sh",
             hooks=dict(guard="verif (Go build tag)", enable="go build -tags verif (the harness module replaces github.com/kubewharf/kubebrain with /repo)",
                        baseline_off_cmd="/verif/bin/baseline_off.sh", source_commits=hooks_commits(), add_only=True),
             engines=[dict(name="tlc", path="/usr/local/bin/tlc", serves_properties=sorted(CHECKS), kind_free_text="TLC 1.8 explicit-state model checker: exhaustive checks of spec/*.tla, behaviour generation, trace validation"),
                      dict(name="kbverif", path="/verif/harness", serves_properties=sorted(CHECKS), kind_free_text="Go conformance harness: gated replay of TLC behaviours on the real code, free-running recorded drivers")],
             checks=[], notes="Design: /verif/DESIGN.md. Known findings: /verif/known_findings.json. Seeded changes: /verif/seeded/.",
             not_applicable=[])
    for p in props:
        if p in CHECKS:
            c = CHECKS[p]
            m["checks"].append(dict(property_id=p, quick_cmd="bin/check %s --tier quick" % p, thorough_cmd="bin/check %s --tier thorough" % p,
                                    evidence_file="/verif/evidence/%s.json" % p, replay_cmd_template="bin/check --replay {path} %s" % p,
                                    engine="tlc", level_claimed=dict(category="model_checking", text=c["text"], design_ref="DESIGN.md section " + c["ref"]),
                                    level_note=c.get("note", TB), technique=c["technique"]))
        else:
            m["not_applicable"].append(dict(property_id=p, reason=NA.get(p, "check not built yet in this revision of /verif (work in progress; see DESIGN.md section 9 build order)")))
    json.dump(m, open(os.path.join(VERIF, "MANIFEST.json"), "w"), indent=1)
    print("MANIFEST.json:", len(m["checks"]), "checks,", len(m["not_applicable"]), "not applicable")

main()
