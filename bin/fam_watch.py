"""Watch family: C05 (a watch delivers exactly the matching changes once, in order, or is closed)
and C06 (list-then-watch reconstructs the store)."""
import json, os, random, time
from kbcheck import *
import fam_write
from fam_write import run_mc, gen_behaviours

W_CONSTS = dict(fam_write.BASE_CONSTS, Keys={1, 2}, Writers={"c1"}, OpsPer=3, InitStates={"none"}, ExpSet={0, 4},
                Watchers={"w1"}, WatchStarts={0, 2, 4, 5, 6, 9}, WatchPrefixes={0, 1}, CacheSize=2, SubCap=1,
                SeqDetail=True, AtomicWrites=True)

MC_INV = {
    "C05": ["DeliveredIsPrefix", "DeliveredIsInfix", "RefusedDeliversNothing", "CompleteAtQuiescence", "EventsMatchWrites"],
    "C06": ["ListWatchAgree", "DeliveredIsPrefix", "EventsMatchWrites"],
}
T_MON = {
    "C05": ["M_DeliveredOrdered", "M_DeliveredFromStart", "M_DeliveredPrefix", "M_DeliveredMatchesWrite", "M_RefusedDeliversNothing",
            "M_NoSkip", "M_NothingAfterClose", "M_CompleteAtQuiescence", "M_WatchBulkExactlyOnce"],
    "C06": ["M_ListWatchAgree", "M_ReadIsSnapshot", "M_ReadStable", "M_HeaderCoversData", "M_NoSkip", "M_DeliveredMatchesWrite", "M_CompleteAtQuiescence", "M_Converged", "M_CompactionPreservesReads"],
}


RING_MON = ["M_RingFindKind", "M_RingFindEvents", "M_RingFindBounds"]


def ring_part(work, binp, cov, quick, seed, prop):
    """The event cache as a component: every fill of Ring.tla (all gap patterns, through the wrap-around) on the
    real Ring, every start revision looked up, judged by TLC (TraceRing.tla)."""
    import fam_comp
    traces = []
    for cap in ((1, 2, 3) if quick else (1, 2, 3, 4)):
        consts = dict(Cap=cap, MaxAdds=2 * cap + 2, Gaps={1, 2, 3}, GenHist=False)
        r = fam_comp.mc(work, "Ring.tla", consts, ["FindSound", "WindowIsSuffix"], name="mcring%d" % cap)
        cov["states"] += r["distinct"]; cov["transitions"] += r["states"]
        cov["mc_runs"].append(dict(module="Ring.tla", config="capacity %d, %d additions, gaps 1..3" % (cap, 2 * cap + 2), distinct_states=r["distinct"],
                                   states_generated=r["states"], invariants=["FindSound", "WindowIsSuffix"]))
        g = tlc(work, "Ring.tla", fam_comp.simple_cfg(dict(consts, GenHist=True), ["Dump"], view=False), workers=1, timeout=1800, name="genring%d" % cap)
        behs = parse_behaviours(g["outfile"])
        if not behs:
            raise Undecided("no ring fills generated")
        if quick and len(behs) > 3000:
            behs = random.Random(seed).sample(behs, 3000)
        rep, trs, _ = fam_comp.run_driver(work, binp, "ringrun", behs, "memkv", 4, name="ringrun%d" % cap)
        cov["evaluations"] += rep.get("behaviours", 0); cov["distinct_nontrivial"] += rep.get("nontrivial", 0)
        cov["replay"].append(dict(what="event cache: fills of Ring.tla on the real Ring, every start revision looked up", capacity=cap,
                                  fills=rep.get("behaviours", 0), fills_that_wrap=rep.get("nontrivial", 0)))
        log("ringrun capacity %d: %d fills on the real Ring" % (cap, rep.get("behaviours", 0)))
        traces += trs
    ntr, v = validate_all(work, traces, RING_MON, module="TraceRing.tla", chunks=8)
    cov["traces_validated_against_impl"] += ntr
    cov["monitors_ring"] = RING_MON
    if v:
        report_violation(prop, seed, v)
        return 1
    return 0


MUX_MON = ["M_MuxWriteLog", "M_MuxCreatedFresh", "M_MuxEventsKnownWatch", "M_MuxEventsMatch", "M_MuxOrderedOnce", "M_MuxHeaderIsLastEvent",
           "M_MuxDeleteCarriesPrevious", "M_MuxEndedIsSilent", "M_MuxNoSpuriousCancel", "M_MuxCompleteAtQuiet", "M_MuxCancelAnswered",
           "M_MuxHandlerReturns", "M_MuxNoSubscriptionLeft"]


def mux_part(work, binp, cov, quick, seed, prop, monitors=None):
    """The etcd watch stream as a component (pkg/server/etcd/watch.go): several watches on one stream, on nested prefixes, from
    revision 0 / inside the cached window / the next revision; cancel requests; a send that fails for one watch; the end of the
    stream. WatchMux.tla model-checked; its client scripts executed on the real RPCServer.Watch over a recording stream (writes
    through the real Txn handler); every response judged by TLC (TraceWatchMux.tla)."""
    import fam_comp
    monitors = monitors or MUX_MON
    base = dict(MaxWatches=2, MaxWrites=3, MaxCancels=1, GenHist=False)
    invs = ["DeliveredMatches", "DeliveredIsPrefix", "CompleteWhenQuiet"]
    r = tlc(work, "WatchMux.tla", fam_comp.simple_cfg(base, invs, view=False) + "PROPERTIES EndedIsSilent EndIsIsolated\n", timeout=1800, name="mcmux")
    if r["violated"] or not r.get("ok"):
        raise Undecided("TLC on WatchMux.tla: %s %s" % (r["violated"], r["error"]))
    cov["states"] += r["distinct"]; cov["transitions"] += r["states"]
    cov["mc_runs"].append(dict(module="WatchMux.tla", config="2 watches on one stream over 3 nested prefixes, 3 writes/deletes, 1 cancel request, failed sends, end of stream",
                               distinct_states=r["distinct"], states_generated=r["states"], invariants=invs, properties=["EndedIsSilent", "EndIsIsolated"]))
    log("MC WatchMux.tla: %d distinct states" % r["distinct"])
    traces = []
    for engine, n in (("memkv", 320 if quick else 4000),) + ((("tikv", 400), ("badger", 400)) if not quick else ()):
        behs = fam_comp.gen(work, "WatchMux.tla", dict(MaxWatches=3, MaxWrites=5 if quick else 6, MaxCancels=2), seed, n, 18, name="genmux_" + engine)
        rep, trs, _ = fam_comp.run_driver(work, binp, "muxrun", behs, engine, 16, name="muxrun_" + engine)
        cov["evaluations"] += rep.get("behaviours", 0); cov["distinct_nontrivial"] += rep.get("nontrivial", 0)
        cov["replay"].append(dict(engine=engine, what="client scripts of WatchMux.tla on the real etcd watch handler (one stream, several watches, cancel, failed send, end of stream)",
                                  behaviours=rep.get("behaviours", 0), with_several_watches=rep.get("nontrivial", 0), not_executable=rep.get("obs_mismatch", 0)))
        log("muxrun %s: %d scripts of WatchMux.tla on the real watch handler (%d with several watches)" % (engine, rep.get("behaviours", 0), rep.get("nontrivial", 0)))
        if rep.get("agreed", 0) < rep.get("behaviours", 0) // 2:
            raise Undecided("fewer than half of the scripts of WatchMux.tla could be executed")
        traces += trs
    ntr, v = validate_all(work, traces, monitors, module="TraceWatchMux.tla", chunks=4)
    cov["traces_validated_against_impl"] += ntr
    cov["monitors_mux"] = monitors
    if v:
        report_violation(prop, seed, v)
        return 1
    return 0


def bulk_part(work, binp, cov, quick):
    """C05 at the real constants: full sequencer batches (300) and a catch-up over more cached events than 100 batches of 300."""
    trs = []
    for engine, extra in (("memkv", []), ("badger", ["-big", "0", "-burst", "400"]), ("tikv", ["-big", "0", "-burst", "400"])):
        if quick and engine == "badger":
            continue
        d = work.sub("watchbulk_" + engine)
        tr = os.path.join(d, "watchbulk.ndjson"); rp = os.path.join(d, "watchbulk.json")
        rc, out = run([binp, "watchbulk", "-out", tr, "-report", rp, "-engine", engine] + extra, env=GOENV, timeout=600)
        if rc != 0 or not os.path.exists(rp):
            raise Undecided("watchbulk failed (rc=%s): %s" % (rc, (out or "")[-800:]))
        rep = json.load(open(rp))
        if not rep.get("full_batches"):
            raise Undecided("watchbulk on %s: the sequencer never handed out a full batch (largest %s): the scenario did not reach the boundary" % (engine, rep.get("largest_flush")))
        cov["replay"].append(dict(engine=engine, what="sequencer held during bursts of writes on 8 goroutines: full batches of 300; watchers from before, from the middle "
                                  "(event cache, then live), on a sub-prefix%s" % ("" if extra else "; a watcher catching up on 31000 cached events"),
                                  writes=rep.get("writes"), watchers=rep.get("behaviours"), full_batches=rep.get("full_batches"), largest_flush=rep.get("largest_flush")))
        log("watchbulk %s: %s writes, %s watchers, %s full batches" % (engine, rep.get("writes"), rep.get("behaviours"), rep.get("full_batches")))
        trs.append(tr)
    return trs


def check_watch(prop, tier, seed):
    t0 = time.time()
    work = Work(prop)
    violations = 0
    quick = tier == "quick"
    try:
        binp = build_harness(work)
        cov = dict(states=0, transitions=0, traces_validated_against_impl=0, samples=[], evaluations=0,
                   distinct_nontrivial=0, mc_runs=[], replay=[], exhaustive=False)
        starts = {0, 2, 4, 5, 6, 9} if prop == "C05" else {999}
        mcs = [("1 writer x 2 requests, 1 watcher, cache 2, buffer 1", dict(W_CONSTS, OpsPer=2, WatchStarts=starts | {999})),
               ("1 writer x 3 requests, 1 watcher, cache 1 (wrap), buffer 1", dict(W_CONSTS, OpsPer=3, CacheSize=1, WatchStarts=starts, ExpSet={0}, WatchPrefixes={0}))]
        if not quick:
            mcs.append(("1 writer x 3 requests, 1 watcher, cache 2, buffer 2", dict(W_CONSTS, OpsPer=3, SubCap=2, WatchStarts=starts | {999})))
            mcs.append(("1 writer x 2 requests, 2 watchers", dict(W_CONSTS, OpsPer=2, Watchers={"w1", "w2"}, WatchStarts={0, 4, 5, 999}, WatchPrefixes={0}, ExpSet={0})))
        if prop == "C05":
            # the batch the sequencer hands to the hub is capped (300 in the code): with a cap of one and two events
            mcs.append(("1 writer x 3 requests, 1 watcher, sequencer batches of at most 1 event", dict(W_CONSTS, OpsPer=3, EventBatch=1, WatchStarts=starts, ExpSet={0}, WatchPrefixes={0})))
            if not quick:
                mcs.append(("1 writer x 4 requests, 1 watcher, sequencer batches of at most 2 events", dict(W_CONSTS, OpsPer=4, EventBatch=2, SubCap=2, WatchStarts={0, 4, 5}, ExpSet={0}, WatchPrefixes={0})))
        for title, consts in mcs:
            r = run_mc(work, consts, MC_INV[prop], module="MC_Watch.tla")
            cov["states"] += r["distinct"]
            cov["transitions"] += r["states"]
            cov["mc_runs"].append(dict(config=title, distinct_states=r["distinct"], states_generated=r["states"], invariants=MC_INV[prop]))
            log("MC %s: %d distinct states, %s hold" % (title, r["distinct"], MC_INV[prop]))
        # ---- behaviours replayed on the real backend
        n = 2400 if quick else 30000
        gstarts = starts | {999} if prop == "C05" else {999, 4}
        plans = [
            ("memkv", "registration races, cache window", dict(W_CONSTS, SubCap=10, WatchStarts=gstarts, ExpSet={0}), n, ["-cache", "2", "-seqdetail"], 16),
            ("memkv", "two writers, two watchers", dict(W_CONSTS, SubCap=10, Writers={"c1", "c2"}, OpsPer=2, Watchers={"w1", "w2"}, WatchStarts=gstarts,
                                                        ExpSet={0}, AtomicWrites=False), n // 2, ["-cache", "2", "-seqdetail"], 16),
            ("tikv", "registration races on TiKV", dict(W_CONSTS, SubCap=10, WatchStarts=gstarts, ExpSet={0}, ConflictCarriesValue=False), n // 8, ["-cache", "2", "-seqdetail"], 8),
            ("badger", "registration races on Badger", dict(W_CONSTS, SubCap=10, WatchStarts=gstarts, ExpSet={0}), n // 8, ["-cache", "2", "-seqdetail"], 4),
        ]
        if prop == "C06":
            # "... while successful writes, failed writes and compactions run concurrently": two writers racing on keys that
            # start deleted / live (create over a tombstone, lost races), and storage faults + repair + a compaction request
            plans.append(("memkv", "two writers on deleted and live keys, list-then-watch",
                          dict(W_CONSTS, SubCap=10, Keys={1}, Writers={"c1", "c2"}, OpsPer=2, InitStates={"deleted", "live", "none"}, WatchStarts={999, 4},
                               WatchPrefixes={0}, ExpSet={0, 1, 4}, AtomicWrites=False), n // 2, ["-cache", "10", "-seqdetail"], 16))
            plans.append(("memkv", "two racing creates over a tombstone / a missing key under a watch",
                          dict(W_CONSTS, SubCap=10, CacheSize=10, Keys={1}, Writers={"c1", "c2"}, OpsPer=1, InitStates={"deleted", "none", "compacted"},
                               FixedOps="<- MCCreateOnly", WatchStarts={999, 4}, WatchPrefixes={0}, AtomicWrites=False), 300, ["-cache", "10", "-seqdetail"], 8))
            plans.append(("memkv", "a delete with unknown outcome, its repair and a compaction request under a watch",
                          dict(W_CONSTS, SubCap=10, CacheSize=10, Keys={1}, Writers={"c1"}, OpsPer=1, InitStates={"live", "live2"}, FixedOps="<- MCDeleteOnly",
                               WatchStarts={4}, WatchPrefixes={0}, FaultKinds={"unka", "unkn"}, FaultBudget=1, Compactors={"k1"}, CompactRevs={0, 4},
                               MaxCompacts=1, AtomicWrites=False, LateCompact=True), 400, ["-cache", "10", "-seqdetail"], 8))
            plans.append(("memkv", "unknown outcomes, repair and a compaction request under a watch from the first revision",
                          dict(W_CONSTS, SubCap=10, CacheSize=10, Keys={1}, Writers={"c1", "c2"}, OpsPer=1, InitStates={"none", "live", "deleted"}, ExpSet={0, 1, 4},
                               WatchStarts={4}, WatchPrefixes={0}, FaultKinds={"err", "unka", "unkn"}, FaultBudget=2, Compactors={"k1"}, CompactRevs={0, 4},
                               MaxCompacts=1, AtomicWrites=False), n // 2, ["-cache", "10", "-seqdetail"], 16))
        if prop == "C06":
            # ... and compactions whose deletions fail: the stepwise compactor (one step per engine deletion) with one deletion that
            # errs, loses its compare or a compactor that dies, next to a writer, under list-then-watch
            plans.append(("memkv", "stepwise compactor with one failing / lost deletion or a dying compactor next to a writer, list-then-watch",
                          dict(W_CONSTS, SubCap=10, CacheSize=10, Keys={1}, Writers={"c1"}, OpsPer=1, InitStates={"live", "live2", "deleted", "recreated"},
                               ExpSet={0, 1, 2, 3}, WatchStarts={999, 4}, WatchPrefixes={0}, Compactors={"k1"}, CompactRevs={0, 2, 4}, MaxCompacts=1,
                               CompactDetail=True, DelFaults={"err", "cas", "die"}, FaultBudget=1, AtomicWrites=False), 500 if quick else 5000,
                          ["-cache", "10", "-seqdetail"], 8))
        if prop == "C05":
            plans.append(("memkv", "slow consumer: subscriber buffer overflows (real capacity 10000, scaled with empty batches)",
                          dict(W_CONSTS, OpsPer=5, SubCap=1, WatchStarts={0, 4, 5, 6}, FixedOps="<- MCAlternate", LazyWatchers={"w1"}, EagerSeq=True),
                          96 if quick else 800, ["-cache", "2", "-seqdetail", "-subcap", "1"], 16))
        alltraces = []
        for engine, title, consts, num, flags, shards in plans:
            behs, g = gen_behaviours(work, consts, "simulate", seed + len(alltraces), num=num, depth=150, module="MC_Watch.tla", limit=num)
            reports, traces = replay(work, binp, behs, engine, shards, flags)
            rep = merge_reports(reports)
            cov["evaluations"] += rep.get("behaviours", 0)
            cov["distinct_nontrivial"] += rep.get("nontrivial", 0)
            cov["replay"].append(dict(engine=engine, what=title, behaviours=rep.get("behaviours", 0), agreed=rep.get("agreed", 0),
                                      diverged=rep.get("diverged", 0), observable_mismatch=rep.get("obs_mismatch", 0),
                                      steps=rep.get("steps", 0), events=rep.get("events", 0), actions=rep.get("action_count", {}),
                                      notes=(rep.get("mismatch_notes") or [])[:3]))
            if len(cov["samples"]) < 3 and rep.get("samples"):
                cov["samples"].append(json.loads(rep["samples"][0]))
            log("replay %s (%s): %d behaviours, agreed %d, diverged %d, observable mismatch %d" % (
                engine, title, rep.get("behaviours", 0), rep.get("agreed", 0), rep.get("diverged", 0), rep.get("obs_mismatch", 0)))
            alltraces += traces
        if prop == "C06":
            # the list half of list-then-watch as a process: header and data of a List with writes in flight
            alltraces += fam_write.reader_part(work, binp, cov, quick, seed)
        if prop == "C05":
            alltraces += bulk_part(work, binp, cov, quick)
        ntr, v = validate_all(work, alltraces, T_MON[prop], chunks=8)
        cov["traces_validated_against_impl"] = ntr
        if v:
            violations += 1
            report_violation(prop, seed, v)
        if prop == "C05" and not violations:
            violations += ring_part(work, binp, cov, quick, seed, prop)
        if prop == "C05" and not violations:
            violations += mux_part(work, binp, cov, quick, seed, prop)
        cov["rule"] = ("behaviours = complete schedules of spec/KubeBrain.tla with writers, sequencer (poll / cache insert / flush), hub and watchers "
                       "(subscribe / cache read / decide / forward / close), generated by TLC simulation and replayed gate by gate; non-trivial = a watcher or "
                       "second writer overlaps a writer's lifetime")
        cov["monitors"] = T_MON[prop]
        write_evidence(prop, tier, seed, cov,
                       ["the subscriber buffer of 10000 batches is scaled to the model's capacity with empty batches that the forwarding loop discards",
                        "the client drains its result channel after every step (a slow client is modelled by not scheduling the forwarding loop)"],
                       time.time() - t0, violations)
        return 1 if violations else 0
    finally:
        work.cleanup()


REGISTRY = {"C05": check_watch, "C06": check_watch}
