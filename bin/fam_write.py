"""Write / sequencer / repair family: C01, C02, C04 (and the write-side of C09)."""
import json, os, random, time
from kbcheck import *

BASE_CONSTS = dict(
    Keys={1}, Vals={"x"}, Writers={"c1", "c2"}, OpsPer=1, Base=3,
    InitStates={"none", "live", "deleted", "compacted", "recreated"},
    Fut=50, ExpSet={0, 1, 3, 4, 50}, ConflictCarriesValue=True,
    FaultKinds=set(), FaultBudget=0,
    Watchers=set(), WatchStarts={0}, WatchPrefixes={0}, PrefixOf="<- MCPrefixOf",
    CacheSize=2, SubCap=2, RingCap=0, ClearInvalid=True, EventBatch=0, SeqDetail=False, TsoDetail=False,
    Readers=set(), ReadRevs={0}, MaxReads=0, SnapAtTs=False, Compactors=set(), CompactRevs=set(), MaxCompacts=0, DelFaults=set(), CompactDetail=False, RecordDetail=False,
    LateCompact=False, EagerSeq=False, FixedOps="<- MCNoFixedOps", LazyWatchers=set(), AtomicWrites=False, GenHist=False,
)

MC_INV = {
    "C01": ["IndexAgrees", "Chain", "OneWinner", "FailedLeavesKey", "FailedOnlyIfDiffered"],
    "C02": ["RealTimeOrder", "PerKeyIncreasing", "HeaderCoversData", "UniqueRevision"],
    "C04": ["NoOvertake", "NoOvertakeRetry", "Resolved"],
}
T_MON = {
    "C01": ["M_CommitAtomic", "M_WriteCondition", "M_WriteValue", "M_PerKeyIncreasing", "M_FailedOnlyIfDiffered",
            "M_FailedLeavesKey", "M_SuccessMeansWritten", "M_DeleteReturnsPrev", "M_IndexAgrees", "M_NoPanic"],
    "C02": ["M_UniqueRevision", "M_RealTimeOrder", "M_PerKeyIncreasing", "M_HeaderCoversData", "M_NoPanic"],
    "C04": ["M_NoOvertake", "M_CommittedMonotone", "M_CommittedWasReported", "M_Resolved", "M_ReadIsSnapshot", "M_ReadStable", "M_HeaderCoversData", "M_NoPanic", "M_ResolvedAfterWrap"],
}


def mc_cfg(consts, invariants, view=True, props=None, spec=None):
    s = cfg_constants(consts)
    if spec:
        s += "SPECIFICATION %s\n" % spec
    else:
        s += "INIT Init\nNEXT Next\n"
    if view:
        s += "VIEW View\n"
    if invariants:
        s += "INVARIANTS " + " ".join(invariants) + "\n"
    if props:
        s += "PROPERTIES " + " ".join(props) + "\n"
    s += "CHECK_DEADLOCK FALSE\n"
    return s


def gen_behaviours(work, consts, mode, seed, num=3000, depth=80, timeout=1800, limit=None, module="MC_Write.tla", name="gen"):
    c = dict(consts, GenHist=True)
    cfg = mc_cfg(c, ["Dump"], view=False)
    if mode == "simulate":
        extra = ["-simulate", "num=%d" % num, "-depth", str(depth), "-seed", str(seed)]
    else:
        extra = []
    r = tlc(work, module, cfg, workers=1, timeout=timeout, extra=extra, name=name)
    if r["violated"] or (r["rc"] not in (0,) and not r.get("ok")):
        if r["rc"] == 124:
            raise Undecided("behaviour generation timed out")
        if r["violated"] or r["error"]:
            raise Undecided("behaviour generation failed: %s %s\n%s" % (r["violated"], r["error"], r["tail"][-2000:]))
    behs = parse_behaviours(r["outfile"], limit=limit, seed=seed)
    if not behs:
        raise Undecided("no behaviours generated\n" + r["tail"][-2000:])
    return behs, r


def run_mc(work, consts, invariants, timeout=3000, module="MC_Write.tla", name="mc", props=None, spec=None, view=True):
    r = tlc(work, module, mc_cfg(consts, invariants, props=props, spec=spec, view=view), timeout=timeout, name=name)
    if r["violated"]:
        # a counterexample of the DESIGN, not of kubebrain: the model and the claim disagree
        raise Undecided("TLC found a counterexample to %s in the specification itself; the specification or "
                        "the property formalisation must be corrected:\n%s" % (r["violated"], r["tail"][-3000:]))
    if not r.get("ok"):
        raise Undecided("TLC did not finish (rc=%s): %s\n%s" % (r["rc"], r["error"], r["tail"][-2000:]))
    return r


def race_part(work, binp, cov, quick, seed):
    """C01's premise on every engine: conditional batches committed in parallel are atomic (StorageRace.tla).
    Returns a violation dict or None."""
    import fam_comp
    consts = dict(KeyPos={2, 4}, Vals={"a", "b"}, AtomicCommit=True, GenHist=False)
    r = tlc(work, "StorageRace.tla", fam_comp.simple_cfg(consts, ["Serializable"], view=False), timeout=900, name="mcrace")
    if r["violated"] or not r.get("ok"):
        raise Undecided("TLC on StorageRace.tla: %s %s" % (r["violated"], r["error"]))
    cov["states"] += r["distinct"]; cov["transitions"] += r["states"]
    cov["mc_runs"].append(dict(module="StorageRace.tla", config="2 clients, one operation each over 2 keys, every initial contents; commit atomic",
                               distinct_states=r["distinct"], states_generated=r["states"], invariants=["Serializable"]))
    rn = tlc(work, "StorageRace.tla", fam_comp.simple_cfg(dict(consts, AtomicCommit=False), ["Serializable"], view=False), timeout=900, name="mcrace2")
    cov["mc_runs"].append(dict(module="StorageRace.tla", config="same, conditions evaluated when the operation is added (what an adapter must not do)",
                               counterexample_found=bool(rn["violated"])))
    g = tlc(work, "StorageRace.tla", fam_comp.simple_cfg(dict(consts, GenHist=True), ["Dump"], view=False, init="GenInit", nxt="GenNext"),
            workers=1, timeout=900, name="genrace")
    cases = parse_behaviours(g["outfile"])
    if not cases:
        raise Undecided("no race cases generated")
    rnd = random.Random(seed)
    same = [c for c in cases if json.loads(c)["a"]["k"] == json.loads(c)["b"]["k"]]
    pick = same if not quick else rnd.sample(same, min(len(same), 600))
    traces = []
    for engines, reps, shards in (("memkv,metrics", 40 if quick else 200, 8), ("badger,tikv", 4 if quick else 20, 8)):
        rep, trs, _ = fam_comp.run_driver(work, binp, "storerace", pick, engines, shards, ["-reps", str(reps)], name="race_" + engines.split(",")[0])
        cov["evaluations"] += rep.get("behaviours", 0); cov["distinct_nontrivial"] += rep.get("nontrivial", 0)
        cov["replay"].append(dict(what="two conditional batches on one key committed in parallel on the bare adapter", engines=engines,
                                  cases=rep.get("behaviours", 0), rounds_per_case=reps))
        log("storerace %s: %d cases x %d rounds" % (engines, rep.get("behaviours", 0), reps))
        traces += trs
    ntr, v = validate_all(work, traces, ["M_BatchesSerializable", "M_ReadsDuringBatches"], module="TraceStorage.tla", chunks=8)
    cov["traces_validated_against_impl"] += ntr
    return v


# reader processes of the concurrent model (RInvoke / RCheck / RIter) next to a writer and the stepwise compactor
RD_CONSTS = dict(BASE_CONSTS, Keys={1}, Writers={"c1"}, OpsPer=2, InitStates={"none", "live2", "deleted"}, ExpSet={0, 2, 4},
                 Readers={"r1"}, ReadRevs={0, 2, 4}, MaxReads=1)
RD_INV = ["IndexAgrees", "Chain", "Resolved", "ReadIsSnapshotC", "ReadAtHeader", "HeaderCoversReads", "RefusedBelowFloor", "ReadsPreserved", "StaysWritable"]
RD_MON = ["M_ReadIsSnapshot", "M_MoreFlag", "M_HeaderCoversData", "M_BelowFloorRefused", "M_ReadableServed"]


def reader_part(work, binp, cov, quick, seed):
    """Model-checks the reader processes and replays generated schedules with reads in flight; returns the traces."""
    comp = dict(Compactors={"k1"}, CompactRevs={0, 2}, MaxCompacts=1, CompactDetail=True)
    mcs = [("reads in flight: 1 writer x 2 requests, 1 reader (list / get at 0, 2, 4)", dict(RD_CONSTS)),
           ("reads in flight: 1 writer, 1 reader, stepwise compactor", dict(RD_CONSTS, OpsPer=1, **comp))]
    if not quick:
        mcs.append(("reads in flight, iterator snapshot fixed at the timestamp fetch (TiKV)", dict(RD_CONSTS, OpsPer=1, SnapAtTs=True, ConflictCarriesValue=False, **comp)))
        mcs.append(("reads in flight: 2 readers", dict(RD_CONSTS, OpsPer=1, Readers={"r1", "r2"}, ReadRevs={0, 4})))
    for title, consts in mcs:
        r = run_mc(work, consts, RD_INV, name="mcrd")
        cov["states"] += r["distinct"]
        cov["transitions"] += r["states"]
        cov["mc_runs"].append(dict(module="KubeBrain.tla (RInvoke / RCheck / RIter)", config=title, distinct_states=r["distinct"], states_generated=r["states"], invariants=RD_INV))
        log("MC %s: %d distinct states" % (title, r["distinct"]))
    g = dict(RD_CONSTS, Keys={1, 2}, MaxReads=2, **comp)
    n = 1500 if quick else 20000
    traces = []
    nreads = 0
    for engine, consts, num, shards in [("memkv", g, n, 16), ("tikv", dict(g, SnapAtTs=True, ConflictCarriesValue=False), n // 5, 8), ("badger", g, n // 5, 4)]:
        behs, _ = gen_behaviours(work, consts, "simulate", seed + 11, num=num, depth=90, limit=num, name="genrd")
        reports, trs = replay(work, binp, behs, engine, shards, name="replayrd_" + engine)
        rep = merge_reports(reports)
        cov["evaluations"] += rep.get("behaviours", 0)
        cov["distinct_nontrivial"] += rep.get("nontrivial", 0)
        nreads += (rep.get("action_count") or {}).get("RIter", 0)
        cov["replay"].append(dict(what="schedules with reads in flight (reader, writer, stepwise compactor), replayed gate by gate", engine=engine,
                                  behaviours=rep.get("behaviours", 0), agreed=rep.get("agreed", 0), diverged=rep.get("diverged", 0),
                                  observable_mismatch=rep.get("obs_mismatch", 0), actions=rep.get("action_count", {}), notes=(rep.get("mismatch_notes") or [])[:2]))
        log("replay %s, reads in flight: %d behaviours, agreed %d, diverged %d, observable mismatch %d" % (
            engine, rep.get("behaviours", 0), rep.get("agreed", 0), rep.get("diverged", 0), rep.get("obs_mismatch", 0)))
        traces += trs
    if nreads == 0:
        raise Undecided("vacuous: no replayed behaviour contained a read")
    return traces


def tso_part(work, binp, cov, quick, seed):
    """C02, the revision allocator on its own: Deal next to Commits (sequencer, election callback, follower sync) that name a revision
    above the allocator -- Tso.tla model-checked, its behaviours executed on the real allocator through the yield point inside Commit."""
    import fam_read
    base = dict(Dealers={"d1", "d2"}, Committers={"k1", "k2"}, MaxDeals=4 if quick else 5, Ahead={0, 2, 3}, CasCommit=True, GenHist=False)
    cfg = cfg_constants(base) + "INIT Init\nNEXT Next\nINVARIANTS UniqueDeals DealsIncrease\nPROPERTIES AllocatorMonotone\nCHECK_DEADLOCK FALSE\n"
    r = tlc(work, "Tso.tla", cfg, timeout=900, name="mctso2")
    if r["violated"] or not r.get("ok"):
        raise Undecided("TLC on Tso.tla: %s %s" % (r["violated"], r["error"]))
    cov["states"] += r["distinct"]; cov["transitions"] += r["states"]
    cov["mc_runs"].append(dict(module="Tso.tla", config="2 dealers, 2 commits naming revisions 0/2/3 above the allocator, %d deals" % base["MaxDeals"],
                               distinct_states=r["distinct"], states_generated=r["states"], invariants=["UniqueDeals", "DealsIncrease"], properties=["AllocatorMonotone"]))
    rs = tlc(work, "Tso.tla", cfg.replace("CasCommit = TRUE", "CasCommit = FALSE"), timeout=900, name="mctso3")
    cov["mc_runs"].append(dict(module="Tso.tla", config="the same with a plain store instead of the compare-and-swap (what Commit must not do)", counterexample_found=bool(rs["violated"])))
    n = 400 if quick else 4000
    g = tlc(work, "Tso.tla", cfg_constants(dict(base, GenHist=True)) + "INIT Init\nNEXT Next\nINVARIANTS Dump\nCHECK_DEADLOCK FALSE\n", workers=1, timeout=900,
            extra=["-simulate", "num=%d" % (n * 3), "-depth", "12", "-seed", str(seed)], name="gentso")
    behs = parse_behaviours(g["outfile"], limit=n, seed=seed)
    if not behs:
        raise Undecided("no behaviours of Tso.tla generated")
    rep, traces, _ = fam_read.seqrun(work, binp, behs, "memkv", 8, [], cmd="tsorun", name="tsorun")
    cov["evaluations"] += rep.get("behaviours", 0); cov["distinct_nontrivial"] += rep.get("nontrivial", 0)
    cov["replay"].append(dict(what="behaviours of Tso.tla on the real revision allocator (Commit stopped at its yield point)", behaviours=rep.get("behaviours", 0),
                              executed=rep.get("agreed", 0), not_executable=rep.get("obs_mismatch", 0)))
    log("tsorun: %d behaviours of Tso.tla, %d executed on the real allocator" % (rep.get("behaviours", 0), rep.get("agreed", 0)))
    if rep.get("agreed", 0) < rep.get("behaviours", 0) // 2:
        raise Undecided("fewer than half of the behaviours of Tso.tla could be executed")
    ntr, v = validate_all(work, traces, ["M_UniqueRevision", "M_DealIsSpec", "M_CommitPublishes"], module="TraceTso.tla", chunks=4)
    cov["traces_validated_against_impl"] += ntr
    return v


def check_write(prop, tier, seed):
    t0 = time.time()
    rnd = random.Random(seed)
    work = Work(prop)
    violations = 0
    try:
        binp = build_harness(work)
        cov = dict(states=0, transitions=0, traces_validated_against_impl=0, samples=[], evaluations=0,
                   distinct_nontrivial=0, mc_runs=[], replay=[], exhaustive=False)
        # ---- 1. exhaustive model checking of the property on the specification
        mcs = [("2 writers, 1 key", dict(BASE_CONSTS)),
               ("2 writers, 2 keys", dict(BASE_CONSTS, Keys={1, 2}, InitStates={"none", "live", "deleted"}, ExpSet={0, 1, 4, 50})),
               ("3 writers, 1 key", dict(BASE_CONSTS, Writers={"c1", "c2", "c3"}, InitStates={"live", "deleted", "compacted"}, ExpSet={0, 1, 4}))]
        if tier == "thorough":
            # (with InitStates {none, live, deleted} and ExpSet {0,1,4,5,50} this has > 40 M states and does not finish in an hour;
            #  the bound below was measured: 11.4 M distinct states, 4 min on 8 workers)
            mcs.append(("2 writers x 2 ops, 1 key", dict(BASE_CONSTS, OpsPer=2, InitStates={"none", "live"}, ExpSet={0, 1, 4})))
            mcs.append(("tikv-style conflicts, 2 writers", dict(BASE_CONSTS, ConflictCarriesValue=False)))
        for title, consts in mcs:
            r = run_mc(work, consts, MC_INV[prop])
            cov["states"] += r["distinct"]
            cov["transitions"] += r["states"]
            cov["mc_runs"].append(dict(config=title, distinct_states=r["distinct"], states_generated=r["states"], invariants=MC_INV[prop]))
            log("MC %s: %d distinct states, invariants %s hold" % (title, r["distinct"], MC_INV[prop]))
        if prop == "C04":
            # liveness under weak fairness, no state constraint
            r = run_mc(work, dict(BASE_CONSTS, InitStates={"live", "deleted"}, ExpSet={0, 1, 50}), [], props=["EventuallyResolved"], spec="Spec", view=False)
            cov["mc_runs"].append(dict(config="liveness: <>[](committed = dealt) under WF", distinct_states=r["distinct"], states_generated=r["states"]))
            cov["states"] += r["distinct"]
            cov["transitions"] += r["states"]
            log("MC liveness EventuallyResolved: %d distinct states" % r["distinct"])
        # ---- 2. behaviours generated from the specification, replayed on the real backend
        plans = []
        nsim = 4000 if tier == "quick" else 40000
        plans.append(("memkv", dict(BASE_CONSTS), "simulate", nsim, 16, []))
        plans.append(("memkv", dict(BASE_CONSTS, Keys={1, 2}, Writers={"c1", "c2", "c3"}, ExpSet={0, 1, 4, 50}), "simulate", nsim // 2, 16, []))
        plans.append(("memkv", dict(BASE_CONSTS, OpsPer=2, ExpSet={0, 1, 4, 5, 50}), "simulate", nsim // 2, 16, []))
        plans.append(("badger", dict(BASE_CONSTS), "simulate", nsim // 8, 4, []))
        plans.append(("tikv", dict(BASE_CONSTS, ConflictCarriesValue=False), "simulate", nsim // 4, 8, []))
        plans.append(("metrics", dict(BASE_CONSTS), "simulate", nsim // 8, 4, []))
        if prop == "C01":
            # "a write that reports ... an error leaves the key unchanged": a certain error of a commit, or of the read a delete starts with
            plans.append(("memkv", dict(BASE_CONSTS, InitStates={"none", "live", "deleted"}, ExpSet={0, 1, 4}, FaultKinds={"err", "rerr"}, FaultBudget=1),
                          "simulate", nsim // 4, 16, []))
            # a compaction working through the key while the writers race on it: the deletions of the compactor (of old versions,
            # of a tombstone, the compare-and-delete of a tombstoned index) are steps between the writers' reads and commits
            comp = dict(BASE_CONSTS, Keys={1}, InitStates={"live", "live2", "deleted", "recreated"}, ExpSet={0, 1, 3, 4},
                        Compactors={"k1"}, CompactRevs={0, 2, 4}, MaxCompacts=1, CompactDetail=True)
            r = run_mc(work, comp, MC_INV[prop] + ["StaysWritable"], name="mccomp")
            cov["states"] += r["distinct"]; cov["transitions"] += r["states"]
            cov["mc_runs"].append(dict(config="2 writers, 1 key, a stepwise compactor", distinct_states=r["distinct"], states_generated=r["states"], invariants=MC_INV[prop] + ["StaysWritable"]))
            log("MC 2 writers and a stepwise compactor: %d distinct states" % r["distinct"])
            plans.append(("memkv", comp, "simulate", nsim // 4, 16, []))
            plans.append(("badger", comp, "simulate", nsim // 16, 4, []))
            plans.append(("tikv", dict(comp, ConflictCarriesValue=False, SnapAtTs=True), "simulate", nsim // 16, 8, []))
            # creates racing over a tombstoned index that the compactor takes away, with one lookup of the engine failing (rerr):
            # "a condition is reported failed only if the key really differed" also when the re-read after a lost compare fails
            crf = dict(BASE_CONSTS, Keys={1}, InitStates={"deleted", "none", "recreated"}, FixedOps="<- MCCreateOnly", ExpSet={0}, Compactors={"k1"},
                       CompactRevs={0, 2, 4}, MaxCompacts=1, CompactDetail=True, FaultKinds={"rerr"}, FaultBudget=1, ConflictCarriesValue=False, SnapAtTs=True)
            r = run_mc(work, crf, MC_INV[prop] + ["StaysWritable"], name="mccrf")
            cov["states"] += r["distinct"]; cov["transitions"] += r["states"]
            cov["mc_runs"].append(dict(config="2 racing creates, a stepwise compactor, one failing lookup (TiKV-style conflicts)", distinct_states=r["distinct"],
                                       states_generated=r["states"], invariants=MC_INV[prop] + ["StaysWritable"]))
            plans.append(("tikv", crf, "simulate", nsim // 4, 8, []))
            plans.append(("memkv", dict(crf, ConflictCarriesValue=True, SnapAtTs=False), "simulate", nsim // 8, 8, []))
        if prop == "C02":
            # the revision counter: tso.Commit in two steps, so that a Deal can land between its load and its compare-and-swap
            tso = dict(BASE_CONSTS, SeqDetail=True, TsoDetail=True, InitStates={"none", "live"}, ExpSet={0, 1, 4})
            r = run_mc(work, tso, MC_INV[prop] + ["Chain", "Resolved"], name="mctso")
            cov["states"] += r["distinct"]; cov["transitions"] += r["states"]
            cov["mc_runs"].append(dict(config="2 writers, 1 key, tso.Commit in two steps", distinct_states=r["distinct"], states_generated=r["states"], invariants=MC_INV[prop]))
            plans.append(("memkv", dict(tso, OpsPer=2), "simulate", nsim // 2, 16, ["-tsodetail"]))
        if prop == "C04":
            # "for every mix of outcomes": storage errors and unknown outcomes on any commit, also on the repair write
            plans.append(("memkv", dict(BASE_CONSTS, InitStates={"none", "live", "deleted"}, ExpSet={0, 1, 4},
                                        FaultKinds={"err", "unka", "unkn", "rerr"}, FaultBudget=2), "simulate", nsim // 2, 16, []))
        if tier == "thorough":
            plans.append(("memkv", dict(BASE_CONSTS), "exhaustive", 0, 16, []))
        alltraces = []
        for engine, consts, mode, num, shards, flags in plans:
            behs, g = gen_behaviours(work, consts, mode, seed + len(alltraces), num=num, timeout=3000, limit=200000 if mode == "exhaustive" else None)
            reports, traces = replay(work, binp, behs, engine, shards, flags)
            rep = merge_reports(reports)
            cov["evaluations"] += rep.get("behaviours", 0)
            cov["distinct_nontrivial"] += rep.get("nontrivial", 0)
            if mode == "exhaustive":
                cov["exhaustive"] = True
            cov["replay"].append(dict(engine=engine, mode=mode, behaviours=rep.get("behaviours", 0), agreed=rep.get("agreed", 0),
                                      diverged=rep.get("diverged", 0), observable_mismatch=rep.get("obs_mismatch", 0),
                                      steps=rep.get("steps", 0), events=rep.get("events", 0),
                                      actions=rep.get("action_count", {}), notes=(rep.get("mismatch_notes") or [])[:3]))
            if len(cov["samples"]) < 3 and rep.get("samples"):
                cov["samples"].append(json.loads(rep["samples"][0]))
            log("replay %s/%s: %d behaviours, agreed %d, diverged %d, observable mismatch %d" % (
                engine, mode, rep.get("behaviours", 0), rep.get("agreed", 0), rep.get("diverged", 0), rep.get("obs_mismatch", 0)))
            alltraces += traces
        if prop == "C04":
            # the write-result ring and its wrap-around: 3 slots in the model, once around the real 100000 slots in the code
            ring = dict(BASE_CONSTS, RingCap=3, Writers={"c1"}, OpsPer=3, InitStates={"none", "live"}, ExpSet={0, 1, 4, 5})
            r = run_mc(work, ring, MC_INV[prop] + ["RingNeverFull", "Converged"], name="mcring")
            cov["states"] += r["distinct"]; cov["transitions"] += r["states"]
            cov["mc_runs"].append(dict(config="write-result ring of 3 slots, 1 writer x 3 requests (wrap-around)", distinct_states=r["distinct"],
                                       states_generated=r["states"], invariants=MC_INV[prop] + ["RingNeverFull", "Converged"]))
            rn = tlc(work, "MC_Write.tla", mc_cfg(dict(ring, ClearInvalid=False), ["Resolved"]), timeout=900, name="mcring2")
            cov["mc_runs"].append(dict(config="same, the slot of an invalid event is not emptied (what the sequencer must not do)", counterexample_found=bool(rn["violated"])))
            if tier != "quick":
                r = run_mc(work, dict(ring, RingCap=4, Writers={"c1", "c2"}, OpsPer=2, ExpSet={0, 4}), MC_INV[prop] + ["RingNeverFull"], name="mcring3")
                cov["states"] += r["distinct"]; cov["transitions"] += r["states"]
                cov["mc_runs"].append(dict(config="ring of 4 slots, 2 writers x 2 requests", distinct_states=r["distinct"], states_generated=r["states"]))
            d = work.sub("wraprun")
            tr = os.path.join(d, "wrap.ndjson"); rp = os.path.join(d, "wrap.json")
            rc, out = run([binp, "wraprun", "-out", tr, "-report", rp, "-engine", "memkv"], env=GOENV, timeout=600)
            if rc != 0 or not os.path.exists(rp):
                raise Undecided("wraprun failed (rc=%s): %s" % (rc, (out or "")[-800:]))
            alltraces.append(tr)
            cov["replay"].append(dict(what="once around the real write-result ring: 100200 revisions with a failed write every 997th, then list + watch", **json.load(open(rp))))
            log("wraprun: %s" % (out or "").strip()[-160:])
        if prop in ("C02", "C04"):
            # "reads never overtake a write" / "a header never stays behind its data": reads in flight as processes of the model
            alltraces += reader_part(work, binp, cov, tier == "quick", seed)
        # ---- 3. free-running concurrent executions of the real backend, recorded
        fr_failed = None
        try:
            fr = free_run(work, binp, seed, tier)
            alltraces += fr["traces"]
            cov["free_running"] = fr["summary"]
        except Undecided as ex:
            # the verdict is T's; only if T accepts every recorded trace does a dead driver make the run undecided
            fr_failed = ex
        # ---- 4. trace validation: the only source of verdicts
        ntr, v = validate_all(work, alltraces, T_MON[prop], chunks=4 if tier == "quick" else 12)
        cov["traces_validated_against_impl"] = ntr
        if v:
            violations += 1
            report_violation(prop, seed, v)
        elif fr_failed:
            raise fr_failed
        elif prop == "C01":
            v2 = race_part(work, binp, cov, tier == "quick", seed)
            if v2:
                violations += 1
                report_violation(prop, seed, v2)
        elif prop == "C02":
            v2 = tso_part(work, binp, cov, tier == "quick", seed)
            if v2:
                violations += 1
                report_violation(prop, seed, v2)
        cov["rule"] = ("behaviours = complete schedules of spec/KubeBrain.tla (TLC simulation / exhaustive), each replayed gate by gate "
                       "on the real backend; non-trivial = two client processes with overlapping lifetimes or a repair step; distinct by schedule text")
        cov["monitors"] = T_MON[prop]
        write_evidence(prop, tier, seed, cov,
                       ["engine transactions are atomic and isolated as documented (checked separately by C11)",
                        "steps inside one gate (atomic counter increment, mutex sections) are atomic for the replayer; only the free-running runs exercise them",
                        "TiKV is client-go's in-process mock cluster"],
                       time.time() - t0, violations)
        return 1 if violations else 0
    finally:
        work.cleanup()


def free_run(work, binp, seed, tier):
    d = work.sub("free")
    runs = 4 if tier == "quick" else 24
    traces, summ = [], []
    procs = []
    for i in range(runs):
        tr = os.path.join(d, "free_%d.ndjson" % i)
        rp = os.path.join(d, "free_%d.json" % i)
        eng = ["memkv", "memkv", "badger", "tikv"][i % 4]
        c = [binp, "stress", "-out", tr, "-report", rp, "-engine", eng, "-seed", str(seed * 100 + i), "-clients", "8", "-ops", "60", "-keys", "3"]
        procs.append((subprocess.Popen(["timeout", "600"] + c, stdout=subprocess.PIPE, stderr=subprocess.STDOUT, env=GOENV, text=True), tr, rp, eng))
    for p, tr, rp, eng in procs:
        out, _ = p.communicate()
        if p.returncode != 0 or not os.path.exists(rp):
            raise Undecided("free-running driver failed (rc=%s): %s\n%s" % (p.returncode, (out or "")[-2000:], crash_tail(work)))
        traces.append(tr)
        r = json.load(open(rp))
        r["engine"] = eng
        summ.append(r)
    return dict(traces=traces, summary=summ)
