"""Sequential-history family: C03 (reads = MVCC snapshot), C12 (engine independence),
C08 (compaction floor), C13 (partition independence)."""
import json, os, subprocess, random, time
from kbcheck import *
import fam_write

SEQ_CONSTS = dict(Keys={1, 2}, Vals={"x"}, MaxOps=5, Base=0,
                  ExpKinds={"zero", "cur", "stale", "fut"},
                  OpKinds={"create", "update", "delete", "compact"},
                  CompactKinds={"zero", "cur-1", "old", "above"},
                  EventKeys=set(), Expiry=False, CompactAfter=0, DelFaultKinds=set(), StreamBatch=1, StreamRestarts=False, ResetOnRestart=True, ErrIsAbsent=False, GenHist=False)

MC_INV = {
    "C03": ["ScanIsSnapshot", "PointIsSnapshot", "IndexAgrees", "PointFaultInvariant"],
    "C08": ["FloorMonotone", "FloorAccepted", "ScanIsSnapshot"],
    "C13": ["PartitionInvariant", "StreamInvariant", "StreamFaultInvariant"],
    "C07": ["CompactionSafe", "IndexAgrees"],
}
T_MON = {
    "C03": ["M_ReadIsSnapshot", "M_MoreFlag", "M_CountIsSnapshot", "M_StreamIsSnapshot", "M_ReadableServed", "M_HeaderCoversData", "M_ReadStable", "M_BulkStreamExactlyOnce"],
    "C08": ["M_FloorMonotone", "M_FloorAccepted", "M_BelowFloorRefused", "M_CompactClampCommitted", "M_EngineAnswers"],
    "C13": ["M_ReadIsSnapshot", "M_CountIsSnapshot", "M_StreamIsSnapshot", "M_StreamOneTerminator", "M_StreamBatchRevision", "M_PartitionsTileInterval", "M_BulkStreamExactlyOnce"],
    "C12": ["M_EnginesAgree"],
}
KNOWN_MON = {"C03": ["M_TombValueReadable"]}
T_MODULE = {"C12": "TraceAgree.tla"}


def seq_cfg(consts, invariants, view=True):
    s = cfg_constants(consts) + "INIT Init\nNEXT Next\n"
    if view:
        s += "VIEW View\n"
    if invariants:
        s += "INVARIANTS " + " ".join(invariants) + "\n"
    return s + "CHECK_DEADLOCK FALSE\n"


def seq_mc(work, consts, invariants, timeout=3000, name="mcseq"):
    r = tlc(work, "KBSeq.tla", seq_cfg(consts, invariants), timeout=timeout, name=name)
    if r["violated"]:
        raise Undecided("TLC found a counterexample to %s in the specification itself:\n%s" % (r["violated"], r["tail"][-3000:]))
    if not r.get("ok"):
        raise Undecided("TLC did not finish (rc=%s): %s\n%s" % (r["rc"], r["error"], r["tail"][-2000:]))
    return r


def seq_gen(work, consts, seed, limit, depth=12, num=None, name="genseq"):
    c = dict(consts, GenHist=True)
    r = tlc(work, "KBSeq.tla", seq_cfg(c, ["Dump"], view=False), workers=1, timeout=1800,
            extra=["-simulate", "num=%d" % (num or limit * 2), "-depth", str(depth), "-seed", str(seed)], name=name)
    behs = parse_behaviours(r["outfile"], limit=limit, seed=seed)
    if not behs:
        raise Undecided("no sequential histories generated\n" + r["tail"][-2000:])
    return behs


def seqrun(work, binp, behs, engines, shards, flags, agree=False, name="seqrun", cmd="seqrun"):
    """Runs a driver over the behaviours with `shards` processes at a time.

    A driver process never gets rid of the backends it has created (their background goroutines do not end): measured 5.4 MB per
    backend, 3.3-4 GB for a process that runs 125 histories on five engines, and sixteen of those are more than this machine has
    (a thorough run of C03 was ended by the kernel's out-of-memory killer). So no process runs more than PER behaviours: the
    work is cut into more pieces than there are workers and the pieces are run by a pool."""
    import concurrent.futures
    PER = 30
    d = work.sub(name)
    inp = os.path.join(d, "histories.ndjson")
    with open(inp, "w") as f:
        for b in behs:
            f.write(b + "\n")
    pieces = max(shards, -(-len(behs) // PER))

    def one(i):
        tr = os.path.join(d, "trace_%d.ndjson" % i)
        ag = os.path.join(d, "agree_%d.ndjson" % i)
        rp = os.path.join(d, "report_%d.json" % i)
        lgp = os.path.join(d, "log_%d.txt" % i)
        c = [binp, cmd, "-in", inp, "-out", tr, "-report", rp, "-engine", engines, "-shard", str(i), "-shards", str(pieces)] + flags
        if agree:
            c += ["-agree", ag]
        with open(lgp, "w") as lg:
            rc = subprocess.call(["timeout", "1800"] + c, stdout=lg, stderr=subprocess.STDOUT, env=GOENV)
        return rc, tr, ag, rp, lgp
    with concurrent.futures.ThreadPoolExecutor(max_workers=shards) as ex:
        results = list(ex.map(one, range(pieces)))
    reports, traces, agrees = [], [], []
    for rc, tr, ag, rp, lgp in results:
        if rc != 0 or not os.path.exists(rp):
            raise Undecided("sequential driver failed (rc=%s): %s" % (rc, open(lgp, errors="replace").read()[-2000:]))
        reports.append(json.load(open(rp)))
        traces.append(tr)
        agrees.append(ag)
    return merge_reports(reports), traces, agrees


def known_or_violation(prop, seed, v):
    """A rejected trace: VIOLATION unless the failing monitor is an OPEN known finding of this property."""
    for kf in load_known_findings():
        if kf.get("property") == prop and kf.get("status") == "open" and kf.get("monitor") == v["violated"]:
            print("KNOWN-FINDING: property=%s %s (%s)" % (prop, kf["what"], kf["id"]), flush=True)
            return 0
    report_violation(prop, seed, v)
    return 1


PROP_GEN = {
    "C03": dict(),
    "C12": dict(),
    "C08": dict(CompactKinds={"zero", "cur", "cur-1", "cur-2", "old", "above"}, ExpKinds={"zero", "cur", "stale"}),
    "C13": dict(OpKinds={"create", "update", "delete"}, ExpKinds={"zero", "cur", "stale"}),
}
PROP_CMD = {"C13": "partrun"}


def check_seq(prop, tier, seed):
    t0 = time.time()
    work = Work(prop)
    violations = 0
    try:
        binp = build_harness(work)
        cov = dict(states=0, transitions=0, traces_validated_against_impl=0, samples=[], evaluations=0,
                   distinct_nontrivial=0, mc_runs=[], replay=[], exhaustive=False, known_findings=[])
        quick = tier == "quick"
        # ---- 1. TLC: the transcribed scanner against the MVCC reference over all bounded histories
        G = PROP_GEN[prop]
        mcs = [("2 keys, histories of 5 requests", dict(SEQ_CONSTS, MaxOps=5 if quick else 6, **G))]
        if not quick:
            mcs.append(("3 keys, histories of 4 requests", dict(SEQ_CONSTS, Keys={1, 2, 3}, MaxOps=4, **G)))
        if prop == "C12":
            mcs = []
        for title, consts in mcs:
            r = seq_mc(work, consts, MC_INV[prop])
            cov["states"] += r["distinct"]
            cov["transitions"] += r["states"]
            cov["mc_runs"].append(dict(module="KBSeq.tla", config=title, distinct_states=r["distinct"], states_generated=r["states"], invariants=MC_INV[prop]))
            log("MC KBSeq %s: %d distinct states, %s hold" % (title, r["distinct"], MC_INV[prop]))
        if prop == "C12":
            # the engine parameter of the step-level specification must not show in client-visible results
            outs = []
            for ccv in (True, False):
                consts = dict(fam_write.BASE_CONSTS, Writers={"c1"}, OpsPer=2 if quick else 3, ConflictCarriesValue=ccv,
                              ExpSet={0, 1, 3, 4, 5, 50})
                behs, g = fam_write.gen_behaviours(work, consts, "exhaustive", seed, timeout=3000)
                cov["states"] += g["distinct"]
                cov["transitions"] += g["states"]
                key = set()
                for b in behs:
                    j = json.loads(b)
                    key.add(json.dumps([j["kinit"], j["wops"], sorted(json.dumps(a, sort_keys=True) for a in j["final"]["acked"]),
                                        j["final"]["idx"], j["final"]["ver"]], sort_keys=True))
                outs.append(key)
                cov["mc_runs"].append(dict(module="KubeBrain.tla", config="single writer, ConflictCarriesValue=%s" % ccv,
                                           distinct_states=g["distinct"], states_generated=g["states"], outcomes=len(key)))
            if outs[0] != outs[1]:
                raise Undecided("specification: client-visible outcomes depend on the engine parameter ConflictCarriesValue (%d vs %d outcomes)" % (len(outs[0]), len(outs[1])))
            log("MC KubeBrain single writer: %d client-visible outcomes, identical under both engine parameters" % len(outs[0]))
        # ---- 2. histories generated from KBSeq, run on every engine
        n = 160 if quick else 2000
        if prop == "C12" and not quick:
            n = 800                      # (2000 histories x 5 engines with full final sweeps ran into the 30 min limit of the driver)
        if prop == "C13":
            n = 48 if quick else 160     # (600 histories x 120 border sets x 5 engines ran into the 30 min limit of the driver)
        plain = seq_gen(work, dict(SEQ_CONSTS, MaxOps=5 if quick else 7, **G), seed, n)
        star = seq_gen(work, dict(SEQ_CONSTS, MaxOps=4, Vals={"x", "tombstone*"}, OpKinds={"create", "update", "delete"}), seed + 1, n // 4, name="genstar") if prop == "C03" else []
        three = seq_gen(work, dict(SEQ_CONSTS, Keys={1, 2, 3}, MaxOps=5, **G), seed + 2, n // 4, name="gen3")
        engines = "memkv,badger,tikv,metrics"
        flags = ["-seed", str(seed), "-frac", "0.02" if quick else "0.1", "-finalfrac", "0.25" if quick else "1.0"]
        if prop in ("C03", "C08"):
            # "... or fails": point and limited reads repeated under one transient error of the engine's iterator; range reads below
            # the floor and an older compaction request while the compaction record cannot be looked up
            flags = flags + ["-readfaults"]
        alltraces, allagree = [], []
        # C12: long histories of one key (create, delete, re-create, update ...) with a compaction in the middle and
        # every read of the final sweep: engines must also agree on what a compaction leaves behind
        deep = seq_gen(work, dict(SEQ_CONSTS, Keys={1}, MaxOps=7, ExpKinds={"cur"}, CompactKinds={"cur", "cur-1", "cur-2"}, CompactAfter=4),
                       seed + 3, n // 2, name="gendeep") if prop == "C12" else []
        # C12: the same on Event records (written with a lease on engines with native TTL; the TTL itself is far away)
        evh = seq_gen(work, dict(SEQ_CONSTS, MaxOps=6, ExpKinds={"zero", "cur"}, OpKinds={"create", "update", "delete"}), seed + 4, n // 2, name="genev") if prop == "C12" else []
        for title, behs in (("2 keys", plain), ("3 keys", three), ("values equal to the deletion marker", star), ("1 key, deep history, compaction", deep),
                            ("Event records", evh)):
            if not behs:
                continue
            fl = flags if prop != "C13" else ["-seed", str(seed), "-sets", "30" if quick else "80"]
            if title.startswith("1 key"):
                fl = ["-seed", str(seed), "-frac", "0.05", "-finalfrac", "1.0"]
            if title.startswith("Event"):
                fl = flags + ["-keyset", "events"]
            # C13 (and C03's final sweeps): also the TiKV adapter's own partition answer, from real regions split at run time
            eng = engines + (",tikv-regions" if prop in ("C13", "C03", "C12") else "")
            rep, traces, agrees = seqrun(work, binp, behs, eng, 16, fl,
                                         agree=(prop == "C12"), cmd=PROP_CMD.get(prop, "seqrun"), name="seqrun_" + title.split(",")[0].replace(" ", "_"))
            cov["evaluations"] += rep.get("behaviours", 0)
            cov["distinct_nontrivial"] += rep.get("nontrivial", 0)
            cov["replay"].append(dict(histories=title, engines=engines, behaviours=rep.get("behaviours", 0), agreed_with_spec=rep.get("agreed", 0),
                                      observable_mismatch=rep.get("obs_mismatch", 0), requests=rep.get("steps", 0), reads=rep.get("reads", 0),
                                      events=rep.get("events", 0), ops=rep.get("action_count", {}), notes=(rep.get("mismatch_notes") or [])[:2]))
            if len(cov["samples"]) < 3 and rep.get("samples"):
                cov["samples"].append(json.loads(rep["samples"][0]))
            log("seqrun %s: %d histories x 4 engines, %d reads, predicted responses matched in %d" % (title, rep.get("behaviours", 0), rep.get("reads", 0), rep.get("agreed", 0)))
            if title.startswith("values"):
                startraces = traces
            else:
                alltraces += traces
            allagree += agrees
        if prop == "C08":
            # overlapping compaction requests: the record read and raised step by step by two compactors next to a writer
            import fam_compact
            cc = dict(fam_compact.CC_CONSTS, Compactors={"k1", "k2"}, CompactRevs={0, 2, 4}, InitStates={"live2", "deleted"}, RecordDetail=True, MaxCompacts=1)
            r = fam_write.run_mc(work, cc, ["IndexAgrees", "ReadsPreserved", "StaysWritable"], props=["FloorNeverLowered"], name="mcrec")
            cov["states"] += r["distinct"]; cov["transitions"] += r["states"]
            cov["mc_runs"].append(dict(module="KubeBrain.tla (CRecGet / CRecCas / CScanGet / CScanPut)", config="two overlapping compaction requests and a writer, record steps separate",
                                       distinct_states=r["distinct"], states_generated=r["states"], properties=["FloorNeverLowered"]))
            behs2, _ = fam_write.gen_behaviours(work, cc, "simulate", seed + 9, num=1200 if quick else 12000, depth=100, limit=1200 if quick else 12000, name="genrec")
            reports, trs = replay(work, binp, behs2, "memkv", 16, ["-recorddetail"], name="replayrec")
            rp2 = merge_reports(reports)
            cov["evaluations"] += rp2.get("behaviours", 0); cov["distinct_nontrivial"] += rp2.get("nontrivial", 0)
            cov["replay"].append(dict(what="two overlapping compaction requests, record steps as gates", behaviours=rp2.get("behaviours", 0), agreed=rp2.get("agreed", 0),
                                      diverged=rp2.get("diverged", 0), observable_mismatch=rp2.get("obs_mismatch", 0), notes=(rp2.get("mismatch_notes") or [])[:2]))
            log("replay, overlapping compaction requests: %d behaviours, agreed %d, diverged %d" % (rp2.get("behaviours", 0), rp2.get("agreed", 0), rp2.get("diverged", 0)))
            alltraces += trs
        if prop == "C03":
            # "... and returns the same answer whenever it is asked again": reads answered while writes are in flight
            # (reader processes of the concurrent model), judged when answered and again when everything has settled
            alltraces += fam_write.reader_part(work, binp, cov, quick, seed)
        if prop in ("C13", "C03"):
            # the same property at a scale the bounded histories do not reach (the scanner streams in batches of 300); for C03 the
            # part that matters is the read that meets a transient iterator error half way: the worker starts again and the answer
            # (unlimited list, limited list, count, stream) must still be the snapshot, each key once
            d = work.sub("streambulk")
            tr = os.path.join(d, "streambulk.ndjson"); rp = os.path.join(d, "streambulk.json")
            rc, out = run([binp, "streambulk", "-out", tr, "-report", rp, "-engine", "memkv" if (prop == "C03" and quick) else "memkv,badger,tikv-regions"], env=GOENV, timeout=900)
            if rc != 0 or not os.path.exists(rp):
                raise Undecided("streambulk failed (rc=%s): %s" % (rc, (out or "")[-800:]))
            alltraces.append(tr)
            cov["replay"].append(dict(what="40 / 400 / 1500 keys, a partition border between two versions of one key, streamed as a whole and per advertised partition; "
                                           "with one transient iterator error: the stream, an unlimited list, a limited list and a count",
                                      runs=json.load(open(rp)).get("behaviours", 0), engines="memkv" if (prop == "C03" and quick) else "memkv,badger,tikv-regions"))
        # ---- 3. verdicts from trace validation
        if prop == "C12":
            ntr, v = validate_all(work, allagree, T_MON[prop], module="TraceAgree.tla")
            if not v:
                # an engine whose own partition answer is malformed is an engine that behaves differently (the recording wrapper does
                # not pass such an answer on, so the transcripts cannot show it)
                _, v = validate_all(work, alltraces, ["M_PartitionsTileInterval", "M_EngineAnswers"], chunks=8)
            if not v:
                # ... and so is one on which an Event that was deleted and created again does not expire as a whole: the scripted
                # expiry scenario (real TTL of 2 s) on every engine, each judged against the same expectations
                d = work.sub("ttlrun")
                procs = []
                for eng in ("memkv", "badger", "metrics", "tikv"):
                    tr = os.path.join(d, "ttl_%s.ndjson" % eng); rp = os.path.join(d, "ttl_%s.json" % eng)
                    procs.append((subprocess.Popen(["timeout", "60", binp, "ttlrun", "-engine", eng, "-out", tr, "-report", rp], stdout=subprocess.PIPE,
                                                   stderr=subprocess.STDOUT, env=GOENV, text=True), eng, tr, rp))
                ttl = []
                for p_, eng, tr, rp in procs:
                    out, _ = p_.communicate()
                    if p_.returncode == 0 and os.path.exists(rp):
                        ttl.append(tr)
                    else:
                        log("ttlrun on %s inconclusive (rc=%s)" % (eng, p_.returncode))
                cov["replay"].append(dict(what="scripted expiry scenario (Event deleted and created again, look-alike keys), TTL 2 s", engines=len(ttl)))
                n2, v = validate_all(work, ttl, ["M_ExpiryExpectation", "M_ExpireWholly"], chunks=4)
                ntr += n2
        else:
            ntr, v = validate_all(work, alltraces, T_MON[prop], chunks=4 if quick else 12)
        cov["traces_validated_against_impl"] = ntr
        if v:
            violations += known_or_violation(prop, seed, v)
        if prop == "C03" and not violations:
            # values equal to the reserved marker: judged by every C03 monitor, and by the known-finding monitor
            ntr2, v2 = validate_all(work, startraces, T_MON[prop])
            cov["traces_validated_against_impl"] += ntr2
            if v2:
                violations += known_or_violation(prop, seed, v2)
            else:
                _, v3 = validate_all(work, startraces, KNOWN_MON[prop])
                if v3:
                    rc = known_or_violation(prop, seed, v3)
                    violations += rc
                    if rc == 0:
                        cov["known_findings"].append(dict(id="D5", monitor=v3["violated"]))
        cov["rule"] = ("histories = request sequences generated by TLC from spec/KBSeq.tla (create/update/delete with zero/current/stale/future "
                       "expectations, compaction requests), each run on memkv, Badger, TiKV mock and the metrics wrapper; after every request a seed-chosen "
                       "sample and at the end a sweep of point/range/limited/count/streamed reads over all revisions and bounds; non-trivial = at least two requests")
        cov["monitors"] = T_MON[prop]
        write_evidence(prop, tier, seed, cov,
                       ["the history the reads are judged against is rebuilt from the engine's own post-values logged at every commit",
                        "TiKV is client-go's in-process mock cluster"], time.time() - t0, violations)
        return 1 if violations else 0
    finally:
        work.cleanup()


REGISTRY = {"C03": check_seq, "C12": check_seq, "C08": check_seq, "C13": check_seq}
