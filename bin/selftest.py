#!/usr/bin/env python3
"""Binding demonstration: for every trace specification, one recorded field of a trace taken from the real code is
falsified before validation; the check must then report a violation. A check that still exits 0 would mean the trace
specification constrains nothing at that point. Evidence and violation files of these runs go to a scratch directory."""
import os, subprocess, sys, tempfile
CASES = [
    # property, trace module, regex => replacement, what is falsified
    ("C01", "TraceProps.tla", r'("e":"Return".*"op":"create".*)"succ":true=>\1"succ":false', "a successful create reported as failed"),
    ("C02", "TraceProps.tla", r'("e":"Return".*)"hdr":(\d+)(.*"succ":true)=>\g<1>"hdr":1\3', "a response header lowered to 1"),
    ("C02", "TraceTso.tla", r'("e":"TDeal".*)"v":(\d+)=>\g<1>"v":999', "a revision handed out by the allocator"),
    ("C03", "TraceProps.tla", r'("e":"RReturn".*)"kvs":\[\[[^\]]*\]=>\1"kvs":[[1,1,"zz"]', "first key-value of a read replaced"),
    ("C04", "TraceProps.tla", r'("e":"WrapRun".*)"listed_last":true=>\1"listed_last":false', "the last write missing from the list after the ring wrapped"),
    ("C05", "TraceProps.tla", r'("e":"Recv","evs":\[\["[A-Z]+",\d+,)(\d+)=>\g<1>1', "a delivered event's revision"),
    ("C05", "TraceWatchMux.tla", r'"e":"MEvents","hdr":\d+=>"e":"MEvents","hdr":99', "the header revision of a response on the etcd watch stream"),
    ("C06", "TraceProps.tla", r'("e":"Recv","evs":\[\["[A-Z]+",\d+,)(\d+)=>\g<1>1', "a delivered event's revision"),
    ("C07", "TraceProps.tla", r'("e":"RReturn".*)"kvs":\[\[[^\]]*\]=>\1"kvs":[[1,1,"zz"]', "first key-value of a read after a compaction"),
    ("C08", "TraceProps.tla", r'"e":"CReturn","err":"","hdr":\d+=>"e":"CReturn","err":"","hdr":999', "the revision a compaction was accepted at"),
    ("C10", "TraceCoder.tla", r'"dok":true=>"dok":false', "a decode result"),
    ("C11", "TraceStorage.tla", r'("e":"SCommit".*)"res":"ok"=>\1"res":"cas"', "an engine commit result"),
    ("C12", "TraceAgree.tla", r'("e":"Resp".*"eng":"badger".*)"r":"=>\1"r":"x', "one transcript line of one engine"),
    ("C13", "TraceProps.tla", r'"dups":0,"e":"BulkStream"=>"dups":3,"e":"BulkStream"', "duplicates in a bulk stream"),
    ("C14", "TraceElection.tla", r'("e":"LUpdate".*)"ok":true=>\1"ok":false', "a lock update result"),
    ("C16", "TraceEtcd.tla", r'"succ":true(?=.*"succ":\[\{"key":\d,"kind":"put"\}\])=>"succ":false',
     "the answer to a successful put transaction"),
    ("C18", "TraceRoles.tla", r'("e":"Case".*"role":"follower".*)"writes":0=>\1"writes":1', "a follower that wrote"),
    ("C18", "TraceProxy.tla", r'("a":"Txn","by":"[ab]".*)"ok":true=>\1"ok":false', "a forwarded transaction reported as refused"),
    ("C20", "TraceRequests.tla", r'"live":true=>"live":false', "a liveness probe"),
]
def main():
    only = set(sys.argv[1:])
    scratch = tempfile.mkdtemp(prefix="kbselftest_")
    bad = 0
    for prop, mod, rule, what in CASES:
        if only and prop not in only:
            continue
        env = dict(os.environ, KB_CORRUPT=mod + "::" + rule, KB_REPO="/repo", KB_SCRATCH=scratch)
        p = subprocess.run([os.path.join(os.path.dirname(os.path.abspath(__file__)), "check"), prop, "--tier", "quick"],
                           env=env, stdout=subprocess.PIPE, stderr=subprocess.STDOUT, text=True)
        fals = "selftest: falsified" in p.stdout
        ok = p.returncode == 1 and fals
        print("%s %-18s %s -> exit %d %s" % ("OK  " if ok else "FAIL", prop + " " + mod, what, p.returncode,
                                             "" if fals else "(nothing was falsified: %s)" % [l for l in p.stdout.splitlines() if "selftest" in l][-1:]))
        bad += 0 if ok else 1
    subprocess.run(["rm", "-rf", scratch])
    return 1 if bad else 0
if __name__ == "__main__":
    sys.exit(main())
