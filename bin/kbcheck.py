#!/usr/bin/env python3
"""Runner for the model-based verification of kubebrain.

   check <PROPERTY> [--tier quick|thorough] [--replay <trace.ndjson>]

Per property: (1) TLC model-checks the property on the TLA+ specification (spec/), (2) TLC generates
behaviours of the specification, (3) the Go harness (harness/, built from /repo's working tree with
-tags verif) replays them on the real code and records ndjson traces, (4) TLC validates the traces
against the trace specification's property monitors.  Only (4) produces VIOLATION verdicts.

Exit codes: 0 property held on everything explored; 1 violation (a line
"VIOLATION property=<id> replay=<path>" is printed); 2 the check could not decide
(build failure, TLC failure, dead driver, ...), never reported as a violation.
"""
import json, os, re, shutil, subprocess, sys, tempfile, time, hashlib, random

VERIF = os.path.dirname(os.path.dirname(os.path.abspath(__file__)))
SPEC = os.path.join(VERIF, "spec")
HARNESS = os.path.join(VERIF, "harness")
OUT = os.path.join(VERIF, "out")
EVID = os.path.join(VERIF, "evidence")
# Evaluation of seeded changes only (bin/mutant.sh): KB_REPO names a scratch worktree of the repository
# with a change applied; the harness is then built against it, and evidence / violation traces go to
# KB_SCRATCH instead of /verif. The registered commands never set these.
KB_REPO = os.environ.get("KB_REPO", "/repo")
if os.environ.get("KB_REPO"):
    _scr = os.environ.get("KB_SCRATCH") or ("/tmp/kbmut_%d" % os.getpid())
    OUT = os.path.join(_scr, "out")
    EVID = os.path.join(_scr, "evidence")
NCPU = os.cpu_count() or 4

GOENV = dict(os.environ, GOFLAGS="-mod=mod", GOPROXY="off", GOSUMDB="off", GOTOOLCHAIN="local", CGO_ENABLED="0")


class Undecided(Exception):
    pass


def crash_tail(work, n=1500):
    """What the drivers of this run wrote before dying of a fatal panic (first lines of every crash)."""
    try:
        t = open(work.crashlog, errors="replace").read()
    except Exception:
        return ""
    heads = [c[:n] for c in t.split("\n\n\n") if c.strip()] or [t[:n]]
    return "\n".join(heads)[:3 * n]


def log(*a):
    print("[check]", *a, flush=True)


class Work:
    def __init__(self, prop):
        self.dir = tempfile.mkdtemp(prefix="kbverif_%s_" % prop)
        # every driver process appends the trace of a fatal panic here before it dies
        self.crashlog = os.path.join(self.dir, "crash.log")
        GOENV["KBVERIF_CRASHLOG"] = self.crashlog
        self.spec = os.path.join(self.dir, "spec")
        shutil.copytree(SPEC, self.spec)
        self.n = 0

    def sub(self, name):
        self.n += 1
        p = os.path.join(self.dir, "%s_%d" % (name, self.n))
        os.makedirs(p, exist_ok=True)
        return p

    def cleanup(self):
        shutil.rmtree(self.dir, ignore_errors=True)


def run(cmd, cwd=None, env=None, timeout=None, stdout=None):
    try:
        p = subprocess.run(cmd, cwd=cwd, env=env, timeout=timeout, stdout=stdout or subprocess.PIPE,
                           stderr=subprocess.STDOUT, text=(stdout is None))
        return p.returncode, (p.stdout if stdout is None else "")
    except subprocess.TimeoutExpired as e:
        out = e.stdout if isinstance(e.stdout, str) else (e.stdout or b"").decode("utf8", "replace") if e.stdout else ""
        return 124, out


_built = {}


def build_harness(work):
    """Builds the harness against /repo's current working tree with the verif tag."""
    if "bin" in _built:
        return _built["bin"]
    t0 = time.time()
    binp = os.path.join(work.dir, "kbverif")
    # keep go.sum in step with the repository (offline: nothing can be fetched)
    hdir = HARNESS
    if KB_REPO != "/repo":
        hdir = os.path.join(work.dir, "harness")
        shutil.copytree(HARNESS, hdir)
        gm = open(os.path.join(hdir, "go.mod")).read().replace("=> /repo", "=> " + KB_REPO)
        open(os.path.join(hdir, "go.mod"), "w").write(gm)
    try:
        shutil.copy(os.path.join(KB_REPO, "go.sum"), os.path.join(hdir, "go.sum"))
    except Exception:
        pass
    cover = []
    if os.environ.get("KB_COVER"):
        # (diagnostics only: which code of the repository the drivers of a check execute; `go tool covdata func -i=$KB_COVER`)
        cover = ["-cover", "-coverpkg=kbverif/...,github.com/kubewharf/kubebrain/..."]   # (the main package must be instrumented too, or nothing is written)
        os.makedirs(os.environ["KB_COVER"], exist_ok=True)
        GOENV["GOCOVERDIR"] = os.environ["KB_COVER"]
    rc, out = run(["go", "build", "-tags", "verif"] + cover + ["-o", binp, "./cmd/kbverif"], cwd=hdir, env=GOENV, timeout=900)
    if rc != 0:
        raise Undecided("harness build failed (the repository does not compile with -tags verif?):\n" + out[-3000:])
    log("harness built in %.1fs" % (time.time() - t0))
    _built["bin"] = binp
    return binp


STATES_RE = re.compile(r"(\d+) states generated, (\d+) distinct states found")


def tlc(work, module, cfg_text, workers=None, timeout=1800, extra=None, env=None, name="mc"):
    """Runs TLC in the scratch copy of spec/. Returns dict(rc, out, states, distinct, violated)."""
    d = work.sub(name)
    cfg = os.path.join(work.spec, "%s_%d.cfg" % (name, work.n))
    with open(cfg, "w") as f:
        f.write(cfg_text)
    cmd = ["tlc", "-workers", str(workers or NCPU), "-metadir", d, "-config", cfg] + (extra or []) + [module]
    e = dict(os.environ)
    if env:
        e.update(env)
    outp = os.path.join(d, "out.txt")
    with open(outp, "w") as fo:
        try:
            p = subprocess.run(["timeout", str(timeout)] + cmd, cwd=work.spec, env=e, stdout=fo, stderr=subprocess.STDOUT)
            rc = p.returncode
        except Exception as ex:
            raise Undecided("cannot run tlc: %s" % ex)
    res = dict(rc=rc, outfile=outp, states=0, distinct=0, violated=None, error=None)
    tail = []
    with open(outp, errors="replace") as f:
        for line in f:
            m = STATES_RE.search(line)
            if m:
                res["states"], res["distinct"] = int(m.group(1)), int(m.group(2))
            m = re.search(r"Invariant (\S+) is violated", line)
            if m:
                res["violated"] = m.group(1)
            m = re.search(r"Temporal properties were violated|Action property (\S+) is violated", line)
            if m:
                res["violated"] = m.group(1) or "temporal"
            if line.startswith("Error:") and res["error"] is None and "violated" not in line and "behavior up to" not in line:
                res["error"] = line.strip()
            if "Model checking completed. No error has been found" in line:
                res["ok"] = True
            tail.append(line)
            if len(tail) > 60:
                tail.pop(0)
    res["tail"] = "".join(tail)
    return res


def cfg_constants(consts):
    lines = ["CONSTANTS"]
    for k, v in consts.items():
        if isinstance(v, bool):
            v = "TRUE" if v else "FALSE"
        elif isinstance(v, (set, frozenset, list, tuple)):
            v = "{" + ", ".join(json.dumps(x) if isinstance(x, str) else str(x) for x in sorted(v, key=str)) + "}"
        elif isinstance(v, str) and v.startswith("<-"):
            lines.append("  %s %s" % (k, v))
            continue
        elif isinstance(v, str):
            v = json.dumps(v)
        lines.append("  %s = %s" % (k, v))
    return "\n".join(lines) + "\n"


def parse_behaviours(outfile, limit=None, seed=0):
    """Extracts the JSON behaviours printed by the Dump invariant.

    In simulation mode TLC evaluates the invariant on every successor it generates, so all
    siblings of the last step are printed: one behaviour per distinct prefix (everything but the
    last step) is kept, and `limit` behaviours are then sampled uniformly with the seed."""
    res = []
    seen = set()
    with open(outfile, errors="replace") as f:
        for line in f:
            if not line.startswith('<<"BEHAVIOUR", "'):
                continue
            inner = line.rstrip("\n")[len('<<"BEHAVIOUR", "'):-3]
            try:
                s = json.loads('"' + inner + '"')
            except Exception:
                s = inner.replace('\\"', '"')
            # sibling key: the text up to the last step / operation
            cut = max(s.rfind('{"p":'), s.rfind('{"op":'), s.rfind('{"e":'))
            key = s[:cut] if cut > 0 else s
            h = hashlib.md5(key.encode()).digest()
            if h in seen:
                continue
            seen.add(h)
            res.append(s)
    if limit and len(res) > limit:
        rnd = random.Random(seed)
        res = rnd.sample(res, limit)
    return res


def replay(work, binp, behaviours, engine, shards, flags=None, timeout=1800, name="replay", cmd="replay"):
    """Replays behaviours on the real code in `shards` OS processes. Returns (reports, tracefiles)."""
    d = work.sub(name)
    inp = os.path.join(d, "behaviours.ndjson")
    with open(inp, "w") as f:
        for b in behaviours:
            f.write(b + "\n")
    procs = []
    for i in range(shards):
        tr = os.path.join(d, "trace_%d.ndjson" % i)
        rp = os.path.join(d, "report_%d.json" % i)
        lg = open(os.path.join(d, "log_%d.txt" % i), "w")
        c = [binp, cmd, "-in", inp, "-out", tr, "-report", rp, "-engine", engine, "-shard", str(i), "-shards", str(shards)] + (flags or [])
        procs.append((subprocess.Popen(["timeout", str(timeout)] + c, stdout=lg, stderr=subprocess.STDOUT, env=GOENV), tr, rp, lg))
    reports, traces = [], []
    for p, tr, rp, lg in procs:
        rc = p.wait()
        lg.close()
        if rc != 0 or not os.path.exists(rp):
            with open(lg.name, errors="replace") as f:
                t = f.read()[-3000:]
            raise Undecided("replay driver failed (rc=%s, engine=%s):\n%s\n%s" % (rc, engine, t, crash_tail(work)))
        reports.append(json.load(open(rp)))
        traces.append(tr)
    return reports, traces


def merge_reports(reports):
    tot = {}
    for r in reports:
        for k, v in r.items():
            if isinstance(v, (int, float)) and not isinstance(v, bool):
                tot[k] = tot.get(k, 0) + v
            elif isinstance(v, dict):
                d = tot.setdefault(k, {})
                for kk, vv in v.items():
                    d[kk] = d.get(kk, 0) + vv
            elif v is None:
                continue
            elif isinstance(v, list):
                tot.setdefault(k, [])
                tot[k].extend(v[: max(0, 6 - len(tot[k]))])
            else:
                tot[k] = v
    return tot


def trace_cfg(invariants, spec="TSpec"):
    return "SPECIFICATION %s\nCHECK_DEADLOCK FALSE\nINVARIANTS\n  %s\nPOSTCONDITION TraceAccepted\n" % (spec, "\n  ".join(invariants))


def count_lines(path):
    n = 0
    with open(path, "rb") as f:
        for _ in f:
            n += 1
    return n


def extract_trace(tracefile, line_no, dest):
    """Copies the single trace (between Reset lines) that contains line_no (1-based)."""
    start = 1
    buf = []
    with open(tracefile) as f:
        for i, line in enumerate(f, 1):
            if '"e":"Reset"' in line:
                if i >= line_no:
                    break
                buf = []
                start = i + 1
                continue
            buf.append(line)
    os.makedirs(os.path.dirname(dest), exist_ok=True)
    with open(dest, "w") as f:
        f.writelines(buf)
        f.write('{"e":"Reset"}\n')
    return dest


def validate_trace(work, tracefile, invariants, module="TraceProps.tla", timeout=3600, name="trace"):
    """Validates a trace file. Returns dict(accepted, violated, line, events)."""
    n = count_lines(tracefile)
    if n == 0:
        return dict(accepted=True, violated=None, line=None, events=0, traces=0)
    r = tlc(work, module, trace_cfg(invariants), workers=1, timeout=timeout, env={"KB_TRACE": tracefile}, name=name,
            extra=[])
    res = dict(accepted=False, violated=None, line=None, events=n, out=r["outfile"])
    if r["violated"]:
        res["violated"] = r["violated"]
        # find the line recorded by the failing monitor
        name_ = r["violated"][2:] if r["violated"].startswith("M_") else r["violated"]
        txt = open(r["outfile"], errors="replace").read()
        m = re.findall(r'<<"%s", (\d+)>>' % re.escape(name_), txt)
        if m:
            res["line"] = min(int(x) for x in m)
        else:
            m = re.findall(r"/\\ l = (\d+)", txt)
            if m:
                res["line"] = int(m[-1]) - 1
        return res
    if r.get("ok") and r["rc"] == 0:
        res["accepted"] = True
        return res
    raise Undecided("trace validation did not finish (rc=%s): %s\n%s" % (r["rc"], r["error"], r["tail"][-2500:]))


def count_traces(tracefile):
    n = 0
    with open(tracefile) as f:
        for line in f:
            if '"e":"Reset"' in line:
                n += 1
    return n


def load_known_findings():
    p = os.path.join(VERIF, "known_findings.json")
    if not os.path.exists(p):
        return []
    return json.load(open(p))


def write_evidence(prop, tier, seed, coverage, assumptions, wall, violations):
    os.makedirs(EVID, exist_ok=True)
    ev = dict(property_id=prop, tier=tier, seed=seed, level="model_checking", coverage=coverage,
              assumptions=assumptions, wall_s=round(wall, 2), violations=violations)
    with open(os.path.join(EVID, prop + ".json"), "w") as f:
        json.dump(ev, f, indent=1, sort_keys=True)


def sample_behaviours(behs, n, rnd):
    if len(behs) <= n:
        return list(behs)
    return rnd.sample(behs, n)


def validate_all(work, tracefiles, invariants, chunks=4, module="TraceProps.tla"):
    """Concatenates trace files into a few chunks and validates the chunks in parallel.
    Returns (total traces, first violation dict or None)."""
    import concurrent.futures
    d = work.sub("tv")
    files = [t for t in tracefiles if os.path.exists(t) and os.path.getsize(t) > 0]
    if not files:
        return 0, None
    chunks = max(1, min(chunks, len(files)))
    sizes = [0] * chunks
    outs = [os.path.join(d, "chunk_%d.ndjson" % i) for i in range(chunks)]
    handles = [open(o, "w") for o in outs]
    for t in sorted(files, key=os.path.getsize, reverse=True):
        i = sizes.index(min(sizes))
        with open(t) as f:
            data = f.read()
        handles[i].write(data)
        if not data.endswith('{"e":"Reset"}\n'):
            handles[i].write('{"e":"Reset"}\n')
        sizes[i] += len(data)
    for h in handles:
        h.close()
    corrupt_for_selftest(outs, module)
    total = sum(count_traces(o) for o in outs)
    works = []
    # every chunk needs its own scratch spec dir entry names; tlc() is safe to call concurrently
    # because names are numbered under a lock
    import threading
    lock = threading.Lock()

    def one(i):
        with lock:
            work.n += 1
            nm = "trace%d" % work.n
        r = validate_trace(work, outs[i], invariants, module=module, name=nm)
        r["file"] = outs[i]
        return r
    # (at most 6 validations at a time: a TLC that deserialises a large chunk takes 6-12 GB. With twelve at once and other jobs on
    #  the machine, the kernel's GLOBAL out-of-memory killer ended three of them (dmesg: constraint=CONSTRAINT_NONE, global_oom;
    #  62 GB machine) and the check came back undecided. An earlier version of this comment blamed a 16 GB control group; the
    #  kernel log shows no control-group kill at any time.)
    with concurrent.futures.ThreadPoolExecutor(max_workers=min(chunks, 6)) as ex:
        results = list(ex.map(one, range(chunks)))
    for r in results:
        if r["violated"]:
            return total, r
    return total, None


def corrupt_for_selftest(files, module):
    """bin/selftest.py only: KB_CORRUPT='<trace module>::<regex>=><replacement>' rewrites the first matching line of the
    recorded traces before validation, to show that the trace specification rejects a falsified record.
    The registered commands never set it."""
    spec = os.environ.get("KB_CORRUPT")
    if not spec:
        return
    mod, rule = spec.split("::", 1)
    if mod != module:
        return
    pat, repl = rule.split("=>", 1)
    rx = re.compile(pat)
    for f in files:
        lines = open(f).read().split("\n")
        for i, l in enumerate(lines):
            if rx.search(l):
                lines[i] = rx.sub(repl, l, count=1)
                open(f, "w").write("\n".join(lines))
                log("selftest: falsified line %d of %s" % (i + 1, os.path.basename(f)))
                os.environ["KB_CORRUPT"] = ""
                return
    log("selftest: no line matches %s" % pat)


def report_violation(prop, seed, v):
    dest = os.path.join(OUT, "violations", "%s_seed%d_%s.ndjson" % (prop, seed, v["violated"]))
    extract_trace(v["file"], v["line"] or 1, dest)
    print("monitor %s rejected a trace recorded from the real code (line %s)" % (v["violated"], v["line"]))
    print("VIOLATION property=%s replay=%s" % (prop, dest), flush=True)
    return dest
