"""Component properties decided with their own TLA+ modules: C11 (storage contract), C10 (key coder),
C14 / C15 (election, revisions across leader changes)."""
import json, os, time
from kbcheck import *

T_MON = {
    "C11": ["M_ConditionExactly", "M_GetReturnsStored", "M_DelUnconditional", "M_IterOpens", "M_IterYieldsInterval"],
}
T_MON["C10"] = ["M_EncodeIsSpec", "M_RoundTrip", "M_OrderPreserved", "M_PrefixEndIsSpec", "M_PrefixMembership", "M_BoundsEnclose", "M_ParseRevisionIsSpec"]
T_MON["C14"] = ["M_RecordTracked", "M_NeverSilentlyOverwritten", "M_ConditionalLockWrite", "M_GetReturnsRecord", "M_CreateOnlyIfAbsent",
                "M_AtMostOneCreate", "M_UpdateOnlyIfUnchanged", "M_NoTwoFromSameObserved"]
T_MON["C15"] = ["M_NewRevisionsAboveStored", "M_GuardedWritesKeepWorking", "M_OldDataVisible", "M_NoPanic"]
T_MODULE = {"C11": "TraceStorage.tla", "C10": "TraceCoder.tla", "C14": "TraceElection.tla", "C15": "TraceElection.tla"}


def simple_cfg(consts, invariants, view=True, init="Init", nxt="Next"):
    s = cfg_constants(consts) + "INIT %s\nNEXT %s\n" % (init, nxt)
    if view:
        s += "VIEW View\n"
    if invariants:
        s += "INVARIANTS " + " ".join(invariants) + "\n"
    return s + "CHECK_DEADLOCK FALSE\n"


def mc(work, module, consts, invariants, name="mc", timeout=3000, view=True):
    r = tlc(work, module, simple_cfg(consts, invariants, view=view), timeout=timeout, name=name)
    if r["violated"]:
        raise Undecided("TLC found a counterexample to %s in the specification itself:\n%s" % (r["violated"], r["tail"][-3000:]))
    if not r.get("ok"):
        raise Undecided("TLC did not finish (rc=%s): %s\n%s" % (r["rc"], r["error"], r["tail"][-2000:]))
    return r


def gen(work, module, consts, seed, limit, depth, name="gen"):
    r = tlc(work, module, simple_cfg(dict(consts, GenHist=True), ["Dump"], view=False), workers=1, timeout=1800,
            extra=["-simulate", "num=%d" % (limit * 2), "-depth", str(depth), "-seed", str(seed)], name=name)
    behs = parse_behaviours(r["outfile"], limit=limit, seed=seed)
    if not behs:
        raise Undecided("no behaviours generated\n" + r["tail"][-2000:])
    return behs


def run_driver(work, binp, cmd, behs, engines, shards, flags=None, name="drv"):
    import fam_read
    return fam_read.seqrun(work, binp, behs, engines, shards, flags or [], cmd=cmd, name=name)


def check_storage(prop, tier, seed):
    t0 = time.time()
    work = Work(prop)
    violations = 0
    quick = tier == "quick"
    try:
        binp = build_harness(work)
        cov = dict(states=0, transitions=0, traces_validated_against_impl=0, samples=[], evaluations=0,
                   distinct_nontrivial=0, mc_runs=[], replay=[], exhaustive=False)
        base = dict(MaxPos=5, KeyPos={2, 4}, Vals={"a", "b"}, MaxSteps=3 if quick else 4, MaxIters=1, GenHist=False, WholeIters=False)
        r = mc(work, "Storage.tla", base, ["AllOrNothing", "IterSorted", "TypeOK"])
        cov["states"] += r["distinct"]; cov["transitions"] += r["states"]
        cov["mc_runs"].append(dict(module="Storage.tla", config="2 keys, 2 values, all sequences of %d operations (batches of 1-2 ops, get, del, iterators fwd/bwd/limited, compare-and-delete)" % base["MaxSteps"],
                                   distinct_states=r["distinct"], states_generated=r["states"]))
        log("MC Storage.tla: %d distinct states" % r["distinct"])
        n = 1200 if quick else 20000
        behs = gen(work, "Storage.tla", dict(MaxPos=9, KeyPos={2, 4, 6, 8}, Vals={"a", "b"}, MaxSteps=8 if quick else 10, MaxIters=3, GenHist=False, WholeIters=False), seed, n, 14)
        # compare-and-delete of an element that was rewritten / deleted / left alone after the iterator reached it: random sequences
        # almost never get there (1 in 500), so these behaviours of Storage.tla are written out; TraceStorage.tla re-executes them
        # like every other sequence
        A = "<absent>"
        def put(v): return {"e": "SCommit", "ops": [{"k": 4, "o": "put", "v": v, "old": A}], "res": "ok"}
        def dele(): return {"e": "SCommit", "ops": [{"k": 4, "o": "del", "v": A, "old": A}], "res": "ok"}
        def it(s_, e_): return {"e": "SIterOpen", "id": 1, "s": s_, "en": e_, "limit": 0}
        nxt = {"e": "SIterNext", "id": 1, "k": 4, "v": "a"}
        def dc(res): return {"e": "SDelCur", "id": 1, "k": 4, "res": res}
        def get(v): return {"e": "SGet", "k": 4, "v": v}
        scripted = []
        for s_, e_ in ((0, 6), (6, 0)):
            scripted.append([put("a"), it(s_, e_), nxt, put("b"), dc("cas"), get("b")])
            scripted.append([put("a"), it(s_, e_), nxt, dele(), dc("cas"), get(A)])
            scripted.append([put("a"), it(s_, e_), nxt, dc("ok"), get(A)])
            scripted.append([put("a"), it(s_, e_), nxt, put("b"), dc("cas"), put("a"), get("a")])
        behs = behs + [json.dumps({"steps": st}) for st in scripted]
        engines = "memkv,badger,tikv,metrics,metrics-badger,metrics-tikv"
        rep, traces, _ = run_driver(work, binp, "storerun", behs, engines, 16)
        cov["evaluations"] = rep.get("behaviours", 0) * 6
        cov["distinct_nontrivial"] = rep.get("nontrivial", 0)
        cov["replay"].append(dict(engines=engines, sequences=rep.get("behaviours", 0), engine_runs_agreeing_with_spec=rep.get("agreed", 0),
                                  engine_runs_with_mismatch=rep.get("obs_mismatch", 0), operations=rep.get("steps", 0), ops=rep.get("action_count", {}),
                                  notes=(rep.get("mismatch_notes") or [])[:2]))
        cov["samples"] = [json.loads(x) for x in (rep.get("samples") or [])[:2]]
        log("storerun: %d sequences x 6 engine configurations, %d runs agree with the contract, %d mismatch" % (rep.get("behaviours", 0), rep.get("agreed", 0), rep.get("obs_mismatch", 0)))
        # "from one consistent snapshot" at a scale where an engine needs more than one fetch: 700 keys, a batch committed
        # after the iterator was opened
        d = work.sub("iterbulk")
        tr = os.path.join(d, "iterbulk.ndjson"); rp = os.path.join(d, "iterbulk.json")
        rc, out = run([binp, "iterbulk", "-out", tr, "-report", rp, "-engine", engines, "-n", "700" if quick else "3000"], env=GOENV, timeout=600)
        if rc != 0 or not os.path.exists(rp):
            raise Undecided("iterbulk failed (rc=%s): %s" % (rc, (out or "")[-800:]))
        traces.append(tr)
        cov["replay"].append(dict(what="iterators over 700+ keys with a batch committed after they were opened, forward and backward, on every adapter",
                                  runs=json.load(open(rp)).get("behaviours", 0)))
        # "entirely or not at all" at a size beyond what an engine takes in one transaction
        d = work.sub("bigbatch")
        tr = os.path.join(d, "bigbatch.ndjson"); rp = os.path.join(d, "bigbatch.json")
        rc, out = run([binp, "bigbatch", "-out", tr, "-report", rp, "-engine", engines], env=GOENV, timeout=600)
        if rc != 0 or not os.path.exists(rp):
            raise Undecided("bigbatch failed (rc=%s): %s" % (rc, (out or "")[-800:]))
        traces.append(tr)
        cov["replay"].append(dict(what="one batch of 120000 puts, alone and with a failing condition, on every adapter", runs=json.load(open(rp)).get("behaviours", 0)))
        ntr, v = validate_all(work, traces, T_MON[prop] + ["M_IterSnapshotBulk", "M_BigBatchAllOrNothing"], module="TraceStorage.tla", chunks=8)
        cov["traces_validated_against_impl"] = ntr
        if not v:
            # parallel conditional batches on the bare adapters (StorageRace.tla)
            import fam_write
            v = fam_write.race_part(work, binp, cov, quick, seed)
        if v:
            violations += 1
            report_violation(prop, seed, v)
        cov["rule"] = ("operation sequences generated by TLC from spec/Storage.tla (batches with one or two operations incl. several conditions and conditions "
                       "on missing keys, gets, deletes, forward/backward/limited iterators with bounds on, between and outside keys, iterators consumed after "
                       "later commits, compare-and-delete), executed on every adapter and wrapper; non-trivial = at least two operations")
        cov["monitors"] = T_MON[prop]
        write_evidence(prop, tier, seed, cov,
                       ["TiKV is client-go's in-process mock cluster; Badger is the real engine on a temporary directory",
                        "compare-and-delete after a rewrite with identical bytes is outside the generated space (engines compare value or version)"],
                       time.time() - t0, violations)
        return 1 if violations else 0
    finally:
        work.cleanup()


def check_coder(prop, tier, seed):
    t0 = time.time()
    work = Work(prop)
    violations = 0
    quick = tier == "quick"
    try:
        binp = build_harness(work)
        cov = dict(states=0, transitions=0, traces_validated_against_impl=0, samples=[], evaluations=0,
                   distinct_nontrivial=0, mc_runs=[], replay=[], exhaustive=True)
        inv = ["RoundTrip", "OrderPreserved", "IndexFirst", "Contiguous", "RangeBoundsEnclose", "PrefixBoundsEnclose", "PrefixEndSentinel"]
        maxlen = 2 if quick else 3
        cfg = cfg_constants(dict(Alphabet={37, 47, 97, 255}, MaxLen=maxlen, Revs="<- MCRevs")) + "INIT Init\nNEXT Next\nINVARIANTS " + " ".join(inv) + "\nCHECK_DEADLOCK FALSE\n"
        r = tlc(work, "MC_Coder.tla", cfg, timeout=3000, name="mccoder")
        if r["violated"] or not r.get("ok"):
            raise Undecided("TLC on Coder.tla: %s %s\n%s" % (r["violated"], r["error"], r["tail"][-2000:]))
        nkeys = sum(4 ** i for i in range(maxlen + 1))
        cov["states"] = max(1, r["distinct"]); cov["transitions"] = max(1, r["states"])
        cov["mc_runs"].append(dict(module="Coder.tla", config="alphabet {0x25,0x2f,0x61,0xff}, keys of length 0..%d (%d keys), 6 revisions incl. 0 and 2^64-1; the invariants quantify over all pairs/triples" % (maxlen, nkeys),
                                   invariants=inv, quantified_pairs=(nkeys * 6) ** 2))
        log("MC Coder.tla: %d keys x 6 revisions, all invariants hold" % nkeys)
        d = work.sub("coderun")
        tr, rp = os.path.join(d, "coder.ndjson"), os.path.join(d, "coder.json")
        rc, out = run([binp, "coderun", "-out", tr, "-report", rp, "-seed", str(seed), "-maxlen", "3", "-random", "3000" if quick else "40000"], env=GOENV, timeout=600)
        if rc != 0 or not os.path.exists(rp):
            raise Undecided("coderun failed: " + out[-1500:])
        rep = json.load(open(rp))
        cov["evaluations"] = rep["behaviours"]; cov["distinct_nontrivial"] = rep["nontrivial"]
        cov["replay"].append(rep)
        with open(tr) as f:
            cov["samples"] = [json.loads(next(f)) for _ in range(3)][1:]
        corrupt_for_selftest([tr], "TraceCoder.tla")
        v = validate_trace(work, tr, T_MON[prop], module="TraceCoder.tla")
        cov["traces_validated_against_impl"] = 1
        if v["violated"]:
            violations += 1
            v["file"] = tr
            report_violation(prop, seed, v)
        cov["rule"] = ("one trace line per evaluation of the real EncodeObjectKey/EncodeRevisionKey/Decode/PrefixEnd/ParseRevision: exhaustively on the "
                       "model's domain (85 keys x 6 revisions; every (prefix, key, revision) bound check) and on seed-chosen keys over all bytes > '$' with "
                       "random 64-bit revisions; lines are emitted in (key, revision) order so that the logged encodings must ascend strictly")
        cov["monitors"] = T_MON[prop]
        write_evidence(prop, tier, seed, cov, ["exhaustive only for the stated domain; larger domains are sampled"], time.time() - t0, violations)
        return 1 if violations else 0
    finally:
        work.cleanup()


ELEC = dict(Cands={"a", "b", "c"}, MaxSteps=6, ClockKind="fast", MaxAttempts=0, GenHist=False)


def check_election(prop, tier, seed):
    t0 = time.time()
    work = Work(prop)
    violations = 0
    quick = tier == "quick"
    try:
        binp = build_harness(work)
        cov = dict(states=0, transitions=0, traces_validated_against_impl=0, samples=[], evaluations=0,
                   distinct_nontrivial=0, mc_runs=[], replay=[], exhaustive=False)
        inv = ["AtMostOneCreate", "NoTwoFromSameObserved", "NeverSilentlyOverwritten"]
        for title, consts in [("3 candidates, all interleavings of 6 get/create/update steps", dict(ELEC, MaxSteps=6 if quick else 8)),
                              ("2 candidates, 8 steps", dict(ELEC, Cands={"a", "b"}, MaxSteps=8 if quick else 10))]:
            r = mc(work, "Election.tla", consts, inv)
            cov["states"] += r["distinct"]; cov["transitions"] += r["states"]
            cov["mc_runs"].append(dict(module="Election.tla", config=title, distinct_states=r["distinct"], states_generated=r["states"], invariants=inv))
            log("MC Election.tla %s: %d distinct states" % (title, r["distinct"]))
        n = 1500 if quick else 20000
        behs = gen(work, "Election.tla", dict(ELEC, MaxSteps=8 if quick else 10), seed, n, 14)
        engines = "memkv,badger,tikv,metrics"
        rep, traces, _ = run_driver(work, binp, "electrun", behs, engines, 16)
        cov["evaluations"] = rep.get("behaviours", 0) * 4
        cov["distinct_nontrivial"] = rep.get("nontrivial", 0)
        cov["replay"].append(dict(engines=engines, behaviours=rep.get("behaviours", 0), engine_runs_agreeing_with_spec=rep.get("agreed", 0),
                                  engine_runs_with_mismatch=rep.get("obs_mismatch", 0), steps=rep.get("steps", 0), ops=rep.get("action_count", {})))
        cov["samples"] = [json.loads(x) for x in (rep.get("samples") or [])[:2]]
        log("electrun: %d interleavings x 4 engines, %d agree, %d mismatch" % (rep.get("behaviours", 0), rep.get("agreed", 0), rep.get("obs_mismatch", 0)))
        ntr, v = validate_all(work, traces, T_MON[prop], module="TraceElection.tla", chunks=8)
        if not v:
            # the lock's create / update are single conditional batches: their atomicity under real parallelism, on every engine
            import fam_write
            v = fam_write.race_part(work, binp, cov, quick, seed)
        cov["traces_validated_against_impl"] = ntr
        if v:
            violations += 1
            report_violation(prop, seed, v)
        cov["rule"] = ("interleavings of the Get / Create / Update steps of 2-3 candidates chosen by TLC (simulation of Election.tla), executed on the real "
                       "resource lock (election.NewResourceLockManager) over every engine behind the recording wrapper; non-trivial = at least two candidates act")
        cov["monitors"] = T_MON[prop]
        write_evidence(prop, tier, seed, cov, ["each lock operation (one engine call plus a timestamp read) is one step"], time.time() - t0, violations)
        return 1 if violations else 0
    finally:
        work.cleanup()


def check_restart(prop, tier, seed):
    import fam_read
    t0 = time.time()
    work = Work(prop)
    violations = 0
    quick = tier == "quick"
    try:
        binp = build_harness(work)
        cov = dict(states=0, transitions=0, traces_validated_against_impl=0, samples=[], evaluations=0,
                   distinct_nontrivial=0, mc_runs=[], replay=[], exhaustive=False, known_findings=[])
        c15 = dict(ELEC, Cands={"a", "b"}, MaxSteps=4, MaxAttempts=4 if quick else 6)
        r = mc(work, "Election.tla", c15, ["NewRevisionsAboveStored"])
        cov["states"] += r["distinct"]; cov["transitions"] += r["states"]
        cov["mc_runs"].append(dict(module="Election.tla", config="2 candidates, lock steps + leader start + write attempts (failed attempts consume revisions); engine clock advances with every attempt (wall clock / PD)",
                                   distinct_states=r["distinct"], states_generated=r["states"], invariants=["NewRevisionsAboveStored"]))
        log("MC Election.tla (clock at least as fast as attempts): %d distinct states, NewRevisionsAboveStored holds" % r["distinct"])
        # the transaction-counting clock (Badger): TLC is expected to produce the counterexample behind known finding D10
        rb = tlc(work, "Election.tla", simple_cfg(dict(c15, ClockKind="txncount"), ["NewRevisionsAboveStored"]), timeout=1800, name="mctxn")
        cov["mc_runs"].append(dict(module="Election.tla", config="same, engine clock = committed transaction count (Badger)", counterexample_found=bool(rb["violated"]),
                                   note="explains known finding D10; reproduced on the real Badger adapter below"))
        log("MC Election.tla (transaction-count clock): counterexample %s" % ("found (D10)" if rb["violated"] else "NOT found"))
        d = work.sub("leadrun")
        runs = []
        variants = [(50, 3, -1), (0, 3, -1), (5, 2, 4), (120, 1, -1)] if quick else [(f, s, st) for f in (0, 1, 5, 50, 200) for s in (1, 3) for st in (-1, 2, 7)]
        procs = []
        for eng in ("memkv", "tikv", "badger", "metrics"):
            for i, (fails, succ, stop) in enumerate(variants):
                tr = os.path.join(d, "lead_%s_%d.ndjson" % (eng, i)); rp = os.path.join(d, "lead_%s_%d.json" % (eng, i))
                c = [binp, "leadrun", "-engine", eng, "-out", tr, "-report", rp, "-fails", str(fails), "-succ", str(succ), "-stopafter", str(stop)]
                if i % 3 == 0:
                    c.append("-future")     # the old leader also refuses a guarded update naming a revision far in the future
                if i % 2 == 1:
                    c.append("-follower")   # the new leader is a node that served a read as follower before the old leader's last writes
                procs.append((c, eng, tr, rp))
            if eng in ("memkv", "tikv"):
                # one failing answer of the engine's timestamp oracle while the restarted node campaigns (its 1st .. 5th call: the Get and the
                # Update of the acquisition, the Gets and Updates of the first renewals, which run next to OnStartedLeading)
                for n in ((2, 3, 4) if quick else (1, 2, 3, 4, 5, 6)):
                    for rep in range(2 if quick else 4):
                        tr = os.path.join(d, "lead_%s_tso%d_%d.ndjson" % (eng, n, rep)); rp = os.path.join(d, "lead_%s_tso%d_%d.json" % (eng, n, rep))
                        procs.append(([binp, "leadrun", "-engine", eng, "-out", tr, "-report", rp, "-fails", "5", "-succ", "2", "-tsofault", str(n)], eng, tr, rp))
        bytrace = {}
        # at most 16 nodes at a time: every run opens its own engine and waits for real election timers
        for lo in range(0, len(procs), 16):
            batch = [(subprocess.Popen(["timeout", "120"] + c, stdout=subprocess.PIPE, stderr=subprocess.STDOUT, env=GOENV, text=True), eng, tr, rp)
                     for c, eng, tr, rp in procs[lo:lo + 16]]
            for p, eng, tr, rp in batch:
                out, _ = p.communicate()
                complete = os.path.exists(rp) and os.path.exists(tr) and open(tr).read().rstrip().endswith('{"e":"Reset"}')
                if not complete:
                    raise Undecided("leadrun failed on %s (rc=%s): %s" % (eng, p.returncode, (out or "")[-1500:]))
                # (a driver that dies AFTER it has written its complete trace -- a background goroutine of the node under test
                #  panicking during shutdown -- does not take the recorded behaviour with it)
                bytrace.setdefault(eng, []).append(tr)
                runs.append(json.load(open(rp)))
        cov["replay"] = runs[:12]
        cov["evaluations"] = len(runs); cov["distinct_nontrivial"] = len(runs)
        cov["samples"] = [json.loads(l) for l in open(bytrace["memkv"][0])][:4]
        for eng, trs in bytrace.items():
            ntr, v = validate_all(work, trs, T_MON[prop], module="TraceElection.tla", chunks=1)
            cov["traces_validated_against_impl"] += ntr
            if v:
                kf = [k for k in load_known_findings() if k.get("property") == prop and k.get("status") == "open" and k.get("engine") == eng]
                if kf:
                    print("KNOWN-FINDING: property=%s %s (%s)" % (prop, kf[0]["what"], kf[0]["id"]), flush=True)
                    cov["known_findings"].append(dict(id=kf[0]["id"], engine=eng, monitor=v["violated"]))
                else:
                    violations += 1
                    report_violation(prop, seed, v)
        cov["rule"] = ("restart scenarios on the real code: node 1 becomes leader through the real Campaign()/OnStartedLeading, serves N successful and F failed "
                       "writes (stopping after any request), then a restarted node over the same store becomes leader the same way; recorded: stored maximum, "
                       "new seed, first new revisions, a guarded update of an old key, a list at revision 0; every scenario is non-trivial")
        cov["monitors"] = T_MON[prop]
        write_evidence(prop, tier, seed, cov,
                       ["fail-over to a node with a different identity needs the old leader to lose its lease, which ends the process (klog.Fatal); only the restart path, "
                        "which runs the same seeding code, is executed", "the engine clock of memkv / TiKV is assumed to advance at least as fast as write attempts are issued"],
                       time.time() - t0, violations)
        return 1 if violations else 0
    finally:
        work.cleanup()


REGISTRY = {"C11": check_storage, "C10": check_coder, "C14": check_election, "C15": check_restart}
