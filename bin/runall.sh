#!/bin/bash
# runs every registered check (quick tier by default) and summarises
TIER=${1:-quick}
cd /verif
for p in $(python3 -c "import json;print(' '.join(c['property_id'] for c in json.load(open('MANIFEST.json'))['checks']))"); do
  s=$(date +%s)
  out=$(bin/check $p --tier $TIER 2>&1); rc=$?
  e=$(( $(date +%s) - s ))
  echo "$p rc=$rc ${e}s $(echo "$out" | grep -E 'VIOLATION|KNOWN-FINDING|UNDECIDED' | head -2 | cut -c1-160)"
done
