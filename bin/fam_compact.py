"""Compaction family: C07 (compaction never changes reads at or above the compaction revision)."""
import json, os, time
from kbcheck import *
import fam_read
from fam_read import SEQ_CONSTS, seq_mc, seq_gen, seqrun
import fam_write
from fam_write import run_mc, gen_behaviours

# the compactor as a process of the concurrent model: one step per engine deletion, racing writers
CC_CONSTS = dict(fam_write.BASE_CONSTS, Keys={1}, Writers={"c1"}, OpsPer=1,
                 InitStates={"none", "live", "live2", "deleted", "compacted", "recreated"}, ExpSet={0, 1, 2, 3},
                 Compactors={"k1"}, CompactRevs={0, 2}, MaxCompacts=1, CompactDetail=True)
CC_INV = ["IndexAgrees", "Chain", "OneWinner", "FailedLeavesKey", "FailedOnlyIfDiffered", "ReadsPreserved", "StaysWritable",
          "Resolved", "Converged", "CompactClamp", "RepairStillPossible"]

MC_INV = {"C07": ["CompactionSafe", "IndexAgrees", "ScanIsSnapshot", "PointIsSnapshot"]}
T_MON = {"C07": ["M_CompactionPreservesReads", "M_CompactionDeletesLiveIndex", "M_ReadIsSnapshot", "M_MoreFlag", "M_CountIsSnapshot",
                 "M_Writable", "M_WriteCondition", "M_SuccessMeansWritten", "M_FailedOnlyIfDiffered", "M_CompactClampCommitted",
                 "M_CompactionRestartPreservesReads"]}


B_MON = ["M_OnlyConfiguredRanges", "M_AllConfiguredRanges", "M_OnlyConfiguredRangesOddConfig", "M_AllConfiguredRangesOddConfig"]


def ranges_part(work, binp, cov, quick):
    """"Keys outside the configured compaction ranges are not touched": every prefix / skipped-prefix
    configuration of Borders.tla (nested, repeated, sibling prefixes included) on a real backend."""
    import fam_comp
    consts = dict(MaxSkipped=2 if quick else 3, Pairing="cursor", GenHist=False)
    r = tlc(work, "Borders.tla", fam_comp.simple_cfg(consts, ["OnlyConfiguredRanges", "AllConfiguredRanges"], view=False), timeout=900, name="mcborders")
    if r["violated"] or not r.get("ok"):
        raise Undecided("TLC on Borders.tla: %s %s" % (r["violated"], r["error"]))
    cov["states"] += r["distinct"]; cov["transitions"] += r["states"]
    cov["mc_runs"].append(dict(module="Borders.tla", config="main prefix, up to %d skipped prefixes out of a nested family + one sibling, repetitions allowed" % consts["MaxSkipped"],
                               distinct_states=r["distinct"], states_generated=r["states"], invariants=["OnlyConfiguredRanges", "AllConfiguredRanges"]))
    ro = tlc(work, "Borders.tla", fam_comp.simple_cfg(dict(consts, Pairing="sorted-pairs"), ["OnlyConfiguredRanges"], view=False), timeout=900, name="mcborders2")
    cov["mc_runs"].append(dict(module="Borders.tla", config="same, borders sorted and paired two by two (the code before the repair of D22)", counterexample_found=bool(ro["violated"])))
    g = tlc(work, "Borders.tla", fam_comp.simple_cfg(dict(consts, GenHist=True), ["Dump"], view=False), workers=1, timeout=900, name="genborders")
    cfgs = parse_behaviours(g["outfile"])
    if not cfgs:
        raise Undecided("no compaction range configurations generated")
    rep, trs, _ = fam_comp.run_driver(work, binp, "skiprun", cfgs, "memkv,badger,tikv", 8, name="skiprun")
    cov["evaluations"] += rep.get("behaviours", 0); cov["distinct_nontrivial"] += rep.get("nontrivial", 0)
    cov["replay"].append(dict(what="backend configured with a prefix and skipped prefixes, ten keys with two versions each, one compaction: which keys were touched",
                              configurations=len(cfgs), runs=rep.get("behaviours", 0), engines="memkv,badger,tikv"))
    log("skiprun: %d prefix / skipped-prefix configurations x 3 engines" % len(cfgs))
    ntr, v = validate_all(work, trs, B_MON, module="TraceBorders.tla", chunks=4)
    cov["traces_validated_against_impl"] += ntr
    cov["monitors_ranges"] = B_MON
    return v


def check_compact(prop, tier, seed):
    t0 = time.time()
    work = Work(prop)
    violations = 0
    quick = tier == "quick"
    try:
        binp = build_harness(work)
        cov = dict(states=0, transitions=0, traces_validated_against_impl=0, samples=[], evaluations=0,
                   distinct_nontrivial=0, mc_runs=[], replay=[], exhaustive=False)
        faults = {"err", "cas", "die"}
        mcs = [("2 keys, 5 requests, compaction with every crash point / failing deletion checked in every state (CompactionSafe)",
                dict(SEQ_CONSTS, MaxOps=5 if quick else 6)),
               ("2 keys, 4 requests, interrupted / failing compactions as transitions, history continues afterwards",
                dict(SEQ_CONSTS, MaxOps=4 if quick else 5, DelFaultKinds=faults))]
        if not quick:
            mcs.append(("3 keys, 4 requests", dict(SEQ_CONSTS, Keys={1, 2, 3}, MaxOps=4, DelFaultKinds=faults)))
        for title, consts in mcs:
            r = seq_mc(work, consts, MC_INV[prop])
            cov["states"] += r["distinct"]
            cov["transitions"] += r["states"]
            cov["mc_runs"].append(dict(module="KBSeq.tla + Scanner.tla", config=title, distinct_states=r["distinct"], states_generated=r["states"], invariants=MC_INV[prop]))
            log("MC KBSeq %s: %d distinct states" % (title, r["distinct"]))
        n = 200 if quick else 1000   # (3000 histories x 4 engines with full sweeps exhausted memory: the driver was killed)
        gens = [("1 key, multi-version histories, faulty compaction after 4 requests",
                 dict(SEQ_CONSTS, Keys={1}, MaxOps=7, ExpKinds={"cur"}, CompactKinds={"cur", "cur-1", "cur-2"}, CompactAfter=4, DelFaultKinds=faults)),
                ("2 keys, mixed expectations, faulty compactions",
                 dict(SEQ_CONSTS, MaxOps=7, ExpKinds={"zero", "cur"}, CompactKinds={"zero", "cur-1", "cur-2", "old"}, CompactAfter=3, DelFaultKinds=faults))]
        alltraces = []
        flags = ["-seed", str(seed), "-frac", "0.03" if quick else "0.15", "-finalfrac", "0.3" if quick else "1.0", "-streams=false"]
        for i, (title, consts) in enumerate(gens):
            behs = seq_gen(work, consts, seed + i, n, name="gencomp%d" % i)
            rep, traces, _ = seqrun(work, binp, behs, "memkv,badger,tikv,metrics", 16, flags)
            cov["evaluations"] += rep.get("behaviours", 0)
            cov["distinct_nontrivial"] += rep.get("nontrivial", 0)
            nf = sum(1 for b in behs for o in json.loads(b)["ops"] if o["op"] == "compact" and o["ndels"] > 0 and (o["bad"] > 0 or o["crash"] < o["ndels"]))
            cov["replay"].append(dict(histories=title, behaviours=rep.get("behaviours", 0), engines="memkv,badger,tikv,metrics", agreed_with_spec=rep.get("agreed", 0),
                                      observable_mismatch=rep.get("obs_mismatch", 0), reads=rep.get("reads", 0), events=rep.get("events", 0),
                                      faulty_or_interrupted_compactions=nf, notes=(rep.get("mismatch_notes") or [])[:2]))
            if len(cov["samples"]) < 3 and rep.get("samples"):
                cov["samples"].append(json.loads(rep["samples"][0]))
            log("seqrun %s: %d histories x 4 engines (%d faulty/interrupted compactions with work), predicted responses matched in %d" % (
                title, rep.get("behaviours", 0), nf, rep.get("agreed", 0)))
            alltraces += traces
        # the same single-key histories (no faults) on a TiKV cluster that is split into regions in the middle of the key's versions before
        # every compaction: compaction workers whose partitions start and end inside one key
        behs = seq_gen(work, dict(SEQ_CONSTS, Keys={1}, MaxOps=7, ExpKinds={"cur"}, CompactKinds={"cur", "cur-1", "cur-2"}, CompactAfter=4), seed + 5, 64 if quick else 400, name="gencompreg")
        rep, traces, _ = seqrun(work, binp, behs, "tikv-regions", 8, flags, name="seqrun_regions")
        cov["evaluations"] += rep.get("behaviours", 0)
        cov["replay"].append(dict(histories="1 key, multi-version histories, region borders inside the key's versions before each compaction", behaviours=rep.get("behaviours", 0),
                                  engines="tikv-regions", agreed_with_spec=rep.get("agreed", 0), observable_mismatch=rep.get("obs_mismatch", 0)))
        log("seqrun regions: %d histories on tikv-regions, predicted responses matched in %d" % (rep.get("behaviours", 0), rep.get("agreed", 0)))
        alltraces += traces
        # the compactor as a gated process: every interleaving of its deletions with the steps of writers
        ccm = [("concurrent model: 1 writer, stepwise compactor, every initial key state", dict(CC_CONSTS)),
               ("concurrent model: 2 writers on a deleted / re-created key, stepwise compactor",
                dict(CC_CONSTS, Writers={"c1", "c2"}, InitStates={"deleted", "recreated"}, CompactRevs={0, 2, 4}))]
        if not quick:
            ccm.append(("concurrent model: 2 writers, every initial key state, one failing / lost deletion or dying compactor",
                        dict(CC_CONSTS, Writers={"c1", "c2"}, CompactRevs={0, 2, 4}, DelFaults={"err", "cas", "die"}, FaultBudget=1)))
            ccm.append(("concurrent model: 2 writers, conflicts carry no value (TiKV), stepwise compactor",
                        dict(CC_CONSTS, Writers={"c1", "c2"}, CompactRevs={0, 2, 4}, ConflictCarriesValue=False, SnapAtTs=True)))
        if not quick:
            ccm.append(("concurrent model: 1 writer, two stepwise compactors",
                        dict(CC_CONSTS, Compactors={"k1", "k2"}, InitStates={"live2", "deleted", "recreated"})))
        for title, consts in ccm:
            r = run_mc(work, consts, CC_INV, name="mccc")
            cov["states"] += r["distinct"]
            cov["transitions"] += r["states"]
            cov["mc_runs"].append(dict(module="KubeBrain.tla (CStart / CIter / CDel)", config=title, distinct_states=r["distinct"], states_generated=r["states"], invariants=CC_INV))
            log("MC %s: %d distinct states" % (title, r["distinct"]))
        ccg = dict(CC_CONSTS, Writers={"c1", "c2"}, CompactRevs={0, 2, 4}, DelFaults={"err", "cas", "die"}, FaultBudget=1)
        nn = 2500 if quick else 30000
        ccdels = 0
        off_model = None
        for engine, consts, num, shards in [("memkv", ccg, nn, 16), ("tikv", dict(ccg, ConflictCarriesValue=False, SnapAtTs=True), nn // 5, 8), ("badger", ccg, nn // 5, 4)]:
            behs, g = gen_behaviours(work, consts, "simulate", seed + 7, num=num, depth=80, limit=num, name="gencc")
            reports, traces = replay(work, binp, behs, engine, shards, name="replaycc_" + engine)
            rep = merge_reports(reports)
            cov["evaluations"] += rep.get("behaviours", 0)
            cov["distinct_nontrivial"] += rep.get("nontrivial", 0)
            ccdels += (rep.get("action_count") or {}).get("CDel", 0)
            cov["replay"].append(dict(histories="schedules of the concurrent model with a stepwise compactor, replayed gate by gate", engine=engine,
                                      behaviours=rep.get("behaviours", 0), agreed_with_spec=rep.get("agreed", 0), diverged=rep.get("diverged", 0),
                                      observable_mismatch=rep.get("obs_mismatch", 0), actions=rep.get("action_count", {}),
                                      notes=(rep.get("mismatch_notes") or [])[:2]))
            log("replay %s, stepwise compactor: %d behaviours, agreed %d, diverged %d, observable mismatch %d" % (
                engine, rep.get("behaviours", 0), rep.get("agreed", 0), rep.get("diverged", 0), rep.get("obs_mismatch", 0)))
            if rep.get("diverged", 0) + rep.get("obs_mismatch", 0) > max(3, rep.get("behaviours", 0) // 50):
                # the verdict is T's (below); only if T accepts every trace does this make the run undecided
                off_model = "the real compactor does not follow the model on %s: %s" % (engine, (rep.get("mismatch_notes") or [])[:3])
            alltraces += traces
        if ccdels == 0:
            raise Undecided("vacuous: no replayed behaviour contained a compaction deletion")
        # free-running: writers, a compactor and readers at past revisions, concurrently
        d = work.sub("cstress")
        procs = []
        runs = 6 if quick else 40
        for i in range(runs):
            eng = ["memkv", "badger", "tikv"][i % 3]
            tr = os.path.join(d, "c_%d.ndjson" % i)
            rp = os.path.join(d, "c_%d.json" % i)
            c = [binp, "stress", "-out", tr, "-report", rp, "-engine", eng, "-seed", str(seed * 100 + i), "-clients", "4", "-ops", "60",
                 "-keys", "2", "-compactors", "1", "-readers", "3", "-rounds", "2"]
            procs.append((subprocess.Popen(["timeout", "600"] + c, stdout=subprocess.PIPE, stderr=subprocess.STDOUT, env=GOENV, text=True), tr, rp, eng))
        fr = []
        for p, tr, rp, eng in procs:
            out, _ = p.communicate()
            if p.returncode != 0 or not os.path.exists(rp):
                raise Undecided("free-running driver failed (rc=%s): %s\n%s" % (p.returncode, (out or "")[-1500:], crash_tail(work)))
            alltraces.append(tr)
            r = json.load(open(rp)); r["engine"] = eng
            fr.append(r)
        cov["free_running"] = fr
        # at scale: a compaction over 1500 keys whose scan meets a transient iterator error and starts over
        d = work.sub("compactbulk")
        tr = os.path.join(d, "bulk.ndjson"); rp = os.path.join(d, "bulk.json")
        rc, out = run([binp, "streambulk", "-out", tr, "-report", rp, "-engine", "memkv" if quick else "memkv,badger,tikv-regions"], env=GOENV, timeout=900)
        if rc != 0 or not os.path.exists(rp):
            raise Undecided("streambulk failed (rc=%s): %s" % (rc, (out or "")[-800:]))
        alltraces.append(tr)
        cov["replay"].append(dict(what="1500 keys, 100 updated and 100 deleted, a compaction whose scan fails once in the middle and starts over, then a list",
                                  engines="memkv" if quick else "memkv,badger,tikv-regions"))
        ntr, v = validate_all(work, alltraces, T_MON[prop], chunks=8)
        cov["traces_validated_against_impl"] = ntr
        if not v:
            v = ranges_part(work, binp, cov, quick)
        if v:
            violations += 1
            report_violation(prop, seed, v)
        elif off_model:
            raise Undecided(off_model)
        cov["rule"] = ("histories generated by TLC from KBSeq.tla in which a compaction may be interrupted before any deletion or have any one deletion fail "
                       "(certain error / failed compare), injected at the engine boundary of the real scanner, followed by further writes and by reads at every "
                       "revision; plus free-running runs of writers, a compactor and readers; non-trivial = at least two requests")
        cov["monitors"] = T_MON[prop]
        write_evidence(prop, tier, seed, cov,
                       ["faults are injected at the storage interface (Del / DelCurrent), the engines themselves are not made to fail"],
                       time.time() - t0, violations)
        return 1 if violations else 0
    finally:
        work.cleanup()


MC_INV["C17"] = ["OnlyEventsExpire", "NonEventsKeepHistory", "IndexAgrees", "ExpiredAbsent", "FloorMonotone"]
T_MON["C17"] = ["M_NotBeforeTTL", "M_ExpireWholly", "M_CompactionPreservesReads", "M_CompactionDeletesLiveIndex", "M_ReadIsSnapshot", "M_WriteCondition",
                "M_SuccessMeansWritten", "M_DeliveredMatchesWrite", "M_NoSkip", "M_FailedOnlyIfDiffered", "M_Writable", "M_ExpiryExpectation"]
TTL_CONSTS = dict(SEQ_CONSTS, Keys={1, 2, 3}, EventKeys={2}, Expiry=True, MaxOps=5, ExpKinds={"zero", "cur"}, CompactKinds={"zero", "cur-1"})


def check_ttl(prop, tier, seed):
    t0 = time.time()
    work = Work(prop)
    violations = 0
    quick = tier == "quick"
    try:
        binp = build_harness(work)
        cov = dict(states=0, transitions=0, traces_validated_against_impl=0, samples=[], evaluations=0,
                   distinct_nontrivial=0, mc_runs=[], replay=[], exhaustive=False)
        mcs = [("3 keys (1 Event record), 5 requests, compaction marks that age or not", dict(TTL_CONSTS, MaxOps=5 if quick else 6))]
        if not quick:
            mcs.append(("4 keys (2 Event records)", dict(TTL_CONSTS, Keys={1, 2, 3, 4}, EventKeys={2, 3}, MaxOps=5)))
        for title, consts in mcs:
            r = seq_mc(work, consts, MC_INV[prop])
            cov["states"] += r["distinct"]; cov["transitions"] += r["states"]
            cov["mc_runs"].append(dict(module="KBSeq.tla (Expiry)", config=title, distinct_states=r["distinct"], states_generated=r["states"], invariants=MC_INV[prop]))
            log("MC KBSeq expiry %s: %d distinct states" % (title, r["distinct"]))
        # engines without native TTL: expiry inside compaction, real time with a 1 s TTL
        n = 128 if quick else 960
        behs = seq_gen(work, dict(TTL_CONSTS, Keys={1, 2, 3, 4}, EventKeys={2, 3}, MaxOps=6, CompactAfter=2), seed, n // 2, name="genttl")
        # short histories around one Event record with two or three compactions (repeated, decreasing, with marks that age)
        behs += seq_gen(work, dict(TTL_CONSTS, Keys={1, 2}, EventKeys={2}, MaxOps=5, CompactAfter=1, CompactKinds={"zero", "cur-1", "cur-2"},
                                   OpKinds={"create", "update", "compact"}), seed + 1, n // 2, name="genttl2")
        aged = sum(1 for b in behs for o in json.loads(b)["ops"] if o["op"] == "compact" and o["aged"] > 0)
        flags = ["-seed", str(seed), "-frac", "0.0", "-finalfrac", "0.1" if quick else "0.5", "-streams=false", "-ttl", "1", "-keyset", "events"]
        half = len(behs) // 2
        rep, traces, _ = seqrun(work, binp, behs[:half], "tikv", 8, flags, name="seqttl1")
        # the same model, the non-event keys being siblings of the events directory whose names start with "events"
        rep2, traces2, _ = seqrun(work, binp, behs[half:], "tikv", 8, flags[:-1] + ["events2"], name="seqttl2")
        traces += traces2
        for k in ("behaviours", "nontrivial", "agreed", "obs_mismatch"):
            rep[k] = rep.get(k, 0) + rep2.get(k, 0)
        cov["evaluations"] += rep.get("behaviours", 0)
        cov["distinct_nontrivial"] += rep.get("nontrivial", 0)
        cov["replay"].append(dict(what="TiKV mock (no native TTL): Event records, a pod in a namespace called events and a plain key; compactions whose marks age beyond a 1 s TTL (real sleeps)",
                                  histories=rep.get("behaviours", 0), compactions_with_aged_marks=aged, agreed_with_spec=rep.get("agreed", 0),
                                  mismatch_or_inconclusive=rep.get("obs_mismatch", 0), notes=(rep.get("mismatch_notes") or [])[:2]))
        if rep.get("samples"):
            cov["samples"].append(json.loads(rep["samples"][0]))
        log("expiry histories on TiKV mock: %d histories, %d compactions with aged marks, responses matched in %d" % (rep.get("behaviours", 0), aged, rep.get("agreed", 0)))
        # engines with native TTL: scripted scenario with explicit expectations
        d = work.sub("ttlrun")
        procs = []
        for eng in ("memkv", "badger", "metrics", "tikv"):   # tikv: the scripted scenario for engines without native TTL
            for i in range(2 if quick else 6):
                tr = os.path.join(d, "ttl_%s_%d.ndjson" % (eng, i)); rp = os.path.join(d, "ttl_%s_%d.json" % (eng, i))
                procs.append((subprocess.Popen(["timeout", "60", binp, "ttlrun", "-engine", eng, "-out", tr, "-report", rp], stdout=subprocess.PIPE, stderr=subprocess.STDOUT, env=GOENV, text=True), eng, tr, rp))
        for p, eng, tr, rp in procs:
            out, _ = p.communicate()
            if p.returncode != 0 or not os.path.exists(rp):
                log("ttlrun on %s inconclusive (rc=%s): %s" % (eng, p.returncode, (out or "")[-200:]))
                continue
            traces.append(tr)
            cov["replay"].append(json.load(open(rp)))
            cov["evaluations"] += 1
        ntr, v = validate_all(work, traces, T_MON[prop], chunks=8)
        cov["traces_validated_against_impl"] = ntr
        if v:
            violations += 1
            report_violation(prop, seed, v)
        cov["rule"] = ("(a) histories of KBSeq.tla with Event records and look-alike keys in which the marks of earlier compactions age beyond the TTL or not, "
                       "run on the TiKV mock with a 1 s TTL and real sleeps (a history whose measured timing leaves the model's assumption is discarded); "
                       "(b) a scripted scenario with explicit expectations on engines with native TTL (memkv, Badger, metrics wrapper), TTL 2 s")
        cov["monitors"] = T_MON[prop]
        write_evidence(prop, tier, seed, cov,
                       ["real clocks: TTLs of 1-2 s against steps of milliseconds; Badger keeps expiry in whole seconds, so 'younger than the TTL' is checked with 1 s slack",
                        "on engines with native TTL the removal itself is not observable at the storage interface; only its effects are checked"],
                       time.time() - t0, violations)
        return 1 if violations else 0
    finally:
        work.cleanup()


REGISTRY = {"C07": check_compact, "C17": check_ttl}
