"""Server-level properties: C16 (etcd API), C18 (roles), C20 (no request crashes or wedges a node)."""
import collections, json, os, random, time
from kbcheck import *
import fam_read
from fam_read import SEQ_CONSTS, seq_gen, seqrun, known_or_violation
from fam_comp import simple_cfg, mc

ETCD = dict(Keys={1, 2}, CompactKey=9, RevSpace={0, 2, 4}, MaxCmp=1, MaxSucc=2, MaxFail=1, StrictKeys=True)
T_MON = {
    "C16": ["M_UnsupportedRejected", "M_CompactIsNoop", "M_K8sShapeServed", "M_RecognisedIsEtcd", "M_FailureBranchKv", "M_FutureRevisionHasNoEffect"],
}
T_MON_CONC = ["M_FailedReturnsCurrent", "M_WriteCondition", "M_FailedOnlyIfDiffered", "M_SuccessMeansWritten", "M_DeleteReturnsPrev", "M_HeaderCoversData", "M_NoPanic"]
T_MON_HIST = ["M_ReadIsSnapshot", "M_MoreFlag", "M_CountIsSnapshot", "M_EtcdPointCount", "M_HeaderCoversData", "M_WriteCondition", "M_FailedOnlyIfDiffered",
              "M_SuccessMeansWritten", "M_DeleteReturnsPrev", "M_DeliveredMatchesWrite", "M_NoSkip", "M_DeliveredOrdered", "M_CompleteAtQuiescence"]
T_MODULE = {"C16": "TraceEtcd.tla"}


def etcd_cfg(invariants):
    return cfg_constants(ETCD) + "INIT Init\nNEXT Next\nINVARIANTS " + " ".join(invariants) + "\nCHECK_DEADLOCK FALSE\n"


def trace_cfg_etcd(invariants):
    return cfg_constants(ETCD) + "SPECIFICATION TSpec\nCHECK_DEADLOCK FALSE\nINVARIANTS\n  " + "\n  ".join(invariants) + "\nPOSTCONDITION TraceAccepted\n"


def validate_etcd(work, tracefile, invariants, name="tetcd"):
    corrupt_for_selftest([tracefile], "TraceEtcd.tla")
    n = count_lines(tracefile)
    r = tlc(work, "TraceEtcd.tla", trace_cfg_etcd(invariants), workers=1, timeout=3600, env={"KB_TRACE": tracefile}, name=name)
    res = dict(accepted=False, violated=None, line=None, events=n, file=tracefile)
    if r["violated"]:
        res["violated"] = r["violated"]
        txt = open(r["outfile"], errors="replace").read()
        m = re.findall(r'<<"%s", (\d+)>>' % re.escape(r["violated"][2:]), txt)
        res["line"] = min(int(x) for x in m) if m else 1
        return res
    if r.get("ok") and r["rc"] == 0:
        res["accepted"] = True
        return res
    raise Undecided("trace validation (TraceEtcd) did not finish: %s\n%s" % (r["error"], r["tail"][-2000:]))


def check_etcd(prop, tier, seed):
    t0 = time.time()
    work = Work(prop)
    violations = 0
    quick = tier == "quick"
    rnd = random.Random(seed)
    try:
        binp = build_harness(work)
        cov = dict(states=0, transitions=0, traces_validated_against_impl=0, samples=[], evaluations=0,
                   distinct_nontrivial=0, mc_runs=[], replay=[], exhaustive=False, known_findings=[])
        # 1. every transaction of the bounded space x every small store: recognised => executed as etcd would
        r = tlc(work, "Etcd.tla", etcd_cfg(["RecognisedIsEtcd", "UnsupportedRejected", "K8sShapesRecognised"]), timeout=3000, name="mcetcd")
        if r["violated"] or not r.get("ok"):
            raise Undecided("TLC on Etcd.tla: %s %s\n%s" % (r["violated"], r["error"], r["tail"][-2000:]))
        cov["states"] += r["distinct"]; cov["transitions"] += r["states"]
        cov["mc_runs"].append(dict(module="Etcd.tla", config="all transactions with <=1 compare, <=2 success ops, <=1 failure op over 2 keys + compact key x 27 stores",
                                   distinct_states=r["distinct"], states_generated=r["states"], invariants=["RecognisedIsEtcd", "UnsupportedRejected", "K8sShapesRecognised"]))
        log("MC Etcd.tla: %d (transaction, store) pairs" % r["distinct"])
        # 2. the same space on the real Txn handler (stratified by transaction structure)
        g = tlc(work, "Etcd.tla", etcd_cfg(["Dump"]), workers=1, timeout=1800, extra=["-simulate", "num=1", "-depth", "1", "-seed", str(seed)], name="genetcd")
        groups = collections.defaultdict(list)
        for b in parse_behaviours(g["outfile"]):
            t = json.loads(b)["txn"]
            sig = (tuple((x["target"], x["result"]) for x in t["cmp"]), tuple(x["kind"] for x in t["succ"]), tuple(x["kind"] for x in t["fail"]))
            groups[sig].append(b)
        per = 10 if quick else 400
        cases = []
        for sig in sorted(groups):
            ls = groups[sig]
            cases += rnd.sample(ls, min(len(ls), per))
        rnd.shuffle(cases)
        rep, traces, _ = seqrun(work, binp, cases, "memkv" if quick else "memkv,tikv", 16, [], cmd="etcdrun", name="etcdrun")
        cov["evaluations"] += rep.get("behaviours", 0)
        cov["distinct_nontrivial"] += rep.get("behaviours", 0)
        cov["replay"].append(dict(what="transactions sent to the real Txn handler", structures=len(groups), cases=rep.get("behaviours", 0), space=sum(len(v) for v in groups.values())))
        cov["samples"].append(json.loads(cases[0]))
        log("etcdrun: %d transaction structures, %d cases on the real handler" % (len(groups), rep.get("behaviours", 0)))
        merged = os.path.join(work.sub("m"), "etcd_all.ndjson")
        with open(merged, "w") as f:
            for t in traces:
                f.write(open(t).read())
        v = validate_etcd(work, merged, T_MON[prop])
        cov["traces_validated_against_impl"] += 1
        if v["violated"]:
            violations += known_or_violation(prop, seed, v)
        else:
            v2 = validate_etcd(work, merged, ["M_UnguardedDeleteSucceeds"], name="tetcdk")
            if v2["violated"]:
                rc = known_or_violation(prop, seed, v2)
                violations += rc
                if rc == 0:
                    cov["known_findings"].append("D17")
        # 3. histories of the supported shapes through Txn / Range / Watch of the etcd server, on every engine
        if not violations:
            n = 100 if quick else 500     # (1500 histories with complete final sweeps on 4 engines: 2 GB of traces, 20 min per validation pass)
            G = dict(OpKinds={"create", "update", "delete"}, ExpKinds={"zero", "cur", "stale"})
            hist2 = seq_gen(work, dict(SEQ_CONSTS, MaxOps=5 if quick else 7, **G), seed, n, name="genh2")
            hist3 = seq_gen(work, dict(SEQ_CONSTS, Keys={1, 2, 3}, MaxOps=5, **G), seed + 1, n // 2, name="genh3")
            flags = ["-seed", str(seed), "-frac", "0.03" if quick else "0.1", "-finalfrac", "0.3" if quick else "0.6", "-api", "etcd", "-readfaults"]
            alltr = []
            for title, behs in (("2 keys", hist2), ("3 keys", hist3)):
                rp, trs, _ = seqrun(work, binp, behs, "memkv,badger,tikv,metrics", 16, flags)
                cov["evaluations"] += rp.get("behaviours", 0)
                cov["distinct_nontrivial"] += rp.get("nontrivial", 0)
                cov["replay"].append(dict(what="histories through the etcd Txn/Range/Watch handlers, " + title, histories=rp.get("behaviours", 0), engines=4,
                                          responses_matching_spec=rp.get("agreed", 0), reads=rp.get("reads", 0), notes=(rp.get("mismatch_notes") or [])[:2]))
                log("etcd histories %s: %d x 4 engines, %d reads, predicted responses matched in %d" % (title, rp.get("behaviours", 0), rp.get("reads", 0), rp.get("agreed", 0)))
                alltr += trs
            ntr, v = validate_all(work, alltr, T_MON_HIST, chunks=8)
            cov["traces_validated_against_impl"] += ntr
            if v:
                violations += known_or_violation(prop, seed, v)
            else:
                _, v3 = validate_all(work, alltr, ["M_EtcdCountTotal"], chunks=8)
                if v3:
                    rc = known_or_violation(prop, seed, v3)
                    violations += rc
                    if rc == 0:
                        cov["known_findings"].append("D18")
        # 4. the same shapes issued CONCURRENTLY through the etcd Txn handler: schedules of the concurrent model (two writers,
        #    every initial key state) replayed gate by gate; the failure branch must carry a current key-value
        if not violations:
            import fam_write
            cc = dict(fam_write.BASE_CONSTS, InitStates={"none", "live", "deleted", "recreated"}, ExpSet={0, 1, 3, 4})
            behs, _ = fam_write.gen_behaviours(work, cc, "simulate", seed + 5, num=1500 if quick else 20000, depth=80, limit=1500 if quick else 20000, name="gencc16")
            reports, trs = replay(work, binp, behs, "memkv", 16, ["-api", "etcd"], name="replay_etcdapi")
            rp = merge_reports(reports)
            cov["evaluations"] += rp.get("behaviours", 0); cov["distinct_nontrivial"] += rp.get("nontrivial", 0)
            cov["replay"].append(dict(what="two concurrent clients through the etcd Txn handler, schedules of KubeBrain.tla replayed gate by gate",
                                      behaviours=rp.get("behaviours", 0), agreed=rp.get("agreed", 0), diverged=rp.get("diverged", 0), observable_mismatch=rp.get("obs_mismatch", 0),
                                      notes=(rp.get("mismatch_notes") or [])[:2]))
            log("replay through the etcd Txn handler: %d behaviours, agreed %d, diverged %d, observable mismatch %d" % (
                rp.get("behaviours", 0), rp.get("agreed", 0), rp.get("diverged", 0), rp.get("obs_mismatch", 0)))
            ntr, v = validate_all(work, trs, T_MON_CONC, chunks=8)
            cov["traces_validated_against_impl"] += ntr
            if v:
                violations += known_or_violation(prop, seed, v)
        if not violations:
            # "... a prefix watch emits PUT and DELETE events with the previous key-value on deletes"; "one response per batch, header = last
            # event revision": the watch stream as a component, several watches on one stream (WatchMux.tla / TraceWatchMux.tla)
            import fam_watch
            violations += fam_watch.mux_part(work, binp, cov, quick, seed, prop,
                                             ["M_MuxCreatedFresh", "M_MuxEventsKnownWatch", "M_MuxEventsMatch", "M_MuxOrderedOnce", "M_MuxHeaderIsLastEvent",
                                              "M_MuxDeleteCarriesPrevious", "M_MuxCancelAnswered"])
        cov["rule"] = ("(a) (transaction, store) pairs of the bounded space of Etcd.tla, sampled evenly over transaction structures, sent to the real Txn "
                       "handler over a seeded store; (b) TLC-generated histories of the Kubernetes transaction shapes issued through the real etcd Txn / Range / "
                       "Watch handlers on four engines with read sweeps; every case is distinct")
        cov["monitors"] = T_MON[prop] + T_MON_HIST + T_MON_CONC
        write_evidence(prop, tier, seed, cov, ["create_revision / version / lease fields of etcd key-values are outside the property and not compared"],
                       time.time() - t0, violations)
        return 1 if violations else 0
    finally:
        work.cleanup()


ROLES = dict(Readers={"r1", "r2"}, MaxCommits=2, SingleFlight=True, SetRaises=True, Promotes=False, GenHist=False)   # (SetRaises: the code since the repair of D27)
T_MON["C18"] = ["M_LeaderServes", "M_FollowerNeverWrites", "M_FollowerNeverStreamsOwnHistory", "M_FollowerForwards", "M_FollowerRejectsUnavailable",
                "M_FollowerReadsAtLeaderRevision", "M_FollowerReadFailsWithoutLeader", "M_ProtocolReadServed", "M_FollowerAdoptsFetched", "M_LeaderNotDerailedByLateSync"]
T_MODULE["C18"] = "TraceRoles.tla"


def roles_cfg(consts, invariants, view=True):
    s = cfg_constants(consts) + "INIT PInit\nNEXT PNext\n"
    if view:
        s += "VIEW PView\n"
    return s + "INVARIANTS " + " ".join(invariants) + "\nCHECK_DEADLOCK FALSE\n"


PROXY_MON = ["M_ProxyTickAdoptsView", "M_ProxyTxnOutcome", "M_OnlyLeaderApplies", "M_ProxyTxnFaithful", "M_ProxyRefusedNotWritten", "M_FollowerNeverWrites",
             "M_FollowerNeverStreamsOwnHistory", "M_ProxyWatchFaithful", "M_ProxyWatchAnswered", "M_ProxyWatchEndsWithClient", "M_ProxyScript"]


def proxy_cfg(consts, invariants, props=None, view=True):
    s = cfg_constants(consts) + "INIT Init\nNEXT Next\n"
    if view:
        s += "VIEW View\n"
    s += "INVARIANTS " + " ".join(invariants) + "\n"
    if props:
        s += "PROPERTIES " + " ".join(props) + "\n"
    return s + "CHECK_DEADLOCK FALSE\n"


def proxy_part(work, binp, cov, quick, seed, prop):
    """C18 part 3, "... or forwards it to the leader": Proxy.tla model-checked; its behaviours executed on the real etcd proxy of a
    follower against two real etcd gRPC servers (leadership, election view and node deaths scripted, the proxy's loop observed)."""
    base = dict(Nodes={"a", "b"}, MaxSteps=7 if quick else 9, StickyClient=False, GenHist=False)
    r = tlc(work, "Proxy.tla", proxy_cfg(base, ["OnlyLeaderApplies", "WatchFollowsClient"], props=["TickAdoptsView"]), timeout=1800, name="mcproxy")
    if r["violated"] or not r.get("ok"):
        raise Undecided("TLC on Proxy.tla: %s %s\n%s" % (r["violated"], r["error"], r["tail"][-2000:]))
    cov["states"] += r["distinct"]; cov["transitions"] += r["states"]
    cov["mc_runs"].append(dict(module="Proxy.tla", config="follower proxy, 2 serving nodes, behaviours of %d steps" % base["MaxSteps"], distinct_states=r["distinct"],
                               states_generated=r["states"], invariants=["OnlyLeaderApplies", "WatchFollowsClient"], properties=["TickAdoptsView"]))
    rs = tlc(work, "Proxy.tla", proxy_cfg(dict(base, StickyClient=True), ["OnlyLeaderApplies"], props=["TickAdoptsView"]), timeout=900, name="mcproxy2")
    cov["mc_runs"].append(dict(module="Proxy.tla", config="a client that is kept when the view names another node (what the loop must not do)", counterexample_found=bool(rs["violated"])))
    n = 32 if quick else 240
    g = tlc(work, "Proxy.tla", proxy_cfg(dict(base, MaxSteps=6, GenHist=True), ["Dump"], view=False), workers=1, timeout=900,
            extra=["-simulate", "num=%d" % (n * 8), "-depth", "8", "-seed", str(seed)], name="genproxy")
    behs = parse_behaviours(g["outfile"], limit=n, seed=seed)
    if not behs:
        raise Undecided("no behaviours of Proxy.tla generated\n" + g["tail"][-1500:])
    rep, traces, _ = seqrun(work, binp, behs, "memkv", 16, [], cmd="proxyrun", name="proxyrun")
    acts = {}
    for b in behs:
        for st in json.loads(b)["steps"]:
            acts[st["a"]] = acts.get(st["a"], 0) + 1
    if not (acts.get("Tick") and acts.get("Txn") and acts.get("StartWatch")):
        raise Undecided("vacuous: the generated behaviours of Proxy.tla lack a Tick, a Txn or a StartWatch: %s" % acts)
    cov["evaluations"] += rep.get("behaviours", 0); cov["distinct_nontrivial"] += rep.get("nontrivial", 0)
    cov["replay"].append(dict(what="behaviours of Proxy.tla on the real etcd proxy of a follower against two real etcd gRPC servers over one store",
                              behaviours=rep.get("behaviours", 0), actions=acts))
    log("proxyrun: %d behaviours of Proxy.tla on the real etcd proxy (%s)" % (rep.get("behaviours", 0), acts))
    ntr, v = validate_all(work, traces, PROXY_MON, module="TraceProxy.tla", chunks=4)
    cov["traces_validated_against_impl"] += ntr
    if v:
        return known_or_violation(prop, seed, v)
    return 0


def check_roles(prop, tier, seed):
    t0 = time.time()
    work = Work(prop)
    violations = 0
    quick = tier == "quick"
    rnd = random.Random(seed)
    try:
        binp = build_harness(work)
        cov = dict(states=0, transitions=0, traces_validated_against_impl=0, samples=[], evaluations=0,
                   distinct_nontrivial=0, mc_runs=[], replay=[], exhaustive=False, known_findings=[])
        table = ["FollowerNeverWrites", "FollowerNeverStreamsOwnHistory", "FollowerReadsSyncOrFail", "LeaderServes"]
        r = tlc(work, "Roles.tla", roles_cfg(dict(ROLES, SingleFlight=False, SetRaises=True), table + ["ReadNotStale"]), timeout=1800, name="mcroles")
        if r["violated"] or not r.get("ok"):
            raise Undecided("TLC on Roles.tla: %s %s\n%s" % (r["violated"], r["error"], r["tail"][-2000:]))
        cov["states"] += r["distinct"]; cov["transitions"] += r["states"]
        cov["mc_runs"].append(dict(module="Roles.tla", config="decision table (14 methods x 2 roles x proxy x 3 leader states) + read protocol without shared fetches and with a raising store",
                                   distinct_states=r["distinct"], states_generated=r["states"], invariants=table + ["ReadNotStale"]))
        rc = tlc(work, "Roles.tla", roles_cfg(ROLES, ["ReadNotStale"]), timeout=1800, name="mcroles2")
        cov["mc_runs"].append(dict(module="Roles.tla", config="read protocol as implemented (single flight, plain store), 2 reads, 2 leader commits",
                                   counterexample_found=bool(rc["violated"]), note="explains known findings D11a / D11b; reproduced on the real revision syncer below"))
        log("MC Roles.tla: table invariants hold; protocol as implemented: counterexample %s" % ("found (D11)" if rc["violated"] else "NOT found"))
        # a follower that wins the election while reads are under way: its revision must not move back
        rp_ = tlc(work, "Roles.tla", cfg_constants(dict(ROLES, Promotes=True)) + "INIT PInit\nNEXT PNext\nVIEW PView\nPROPERTIES LeaderRevisionMonotone\nCHECK_DEADLOCK FALSE\n", timeout=900, name="mcpromote")
        if rp_["violated"] or not rp_.get("ok"):
            raise Undecided("TLC on Roles.tla (Promotes): %s %s" % (rp_["violated"], rp_["error"]))
        cov["states"] += rp_["distinct"]; cov["transitions"] += rp_["states"]
        rq_ = tlc(work, "Roles.tla", cfg_constants(dict(ROLES, Promotes=True, SetRaises=False)) + "INIT PInit\nNEXT PNext\nVIEW PView\nPROPERTIES LeaderRevisionMonotone\nCHECK_DEADLOCK FALSE\n", timeout=900, name="mcpromote2")
        cov["mc_runs"].append(dict(module="Roles.tla", config="the follower wins the election while reads are under way (Promote, OwnCommit): LeaderRevisionMonotone",
                                   distinct_states=rp_["distinct"], states_generated=rp_["states"], with_a_plain_store_counterexample_found=bool(rq_["violated"])))
        # the table on the real handlers
        d = work.sub("rolerun")
        traces = []
        for eng in (["memkv"] if quick else ["memkv", "tikv", "badger"]):
            tr, rp = os.path.join(d, "roles_%s.ndjson" % eng), os.path.join(d, "roles_%s.json" % eng)
            rcode, out = run([binp, "rolerun", "-engine", eng, "-out", tr, "-report", rp], env=GOENV, timeout=600)
            if rcode != 0 or not os.path.exists(rp):
                raise Undecided("rolerun failed: " + out[-1500:])
            traces.append(tr)
            rr = json.load(open(rp))
            cov["evaluations"] += rr["behaviours"]; cov["distinct_nontrivial"] += rr["nontrivial"]
            cov["replay"].append(dict(what="request handlers: every method x role x proxy x leader state", engine=eng, cases=rr["behaviours"]))
        cov["samples"].append(json.loads(open(traces[0]).readline()))
        # the read protocol on the real revision syncer: the complete behaviour space of the model
        g = tlc(work, "Roles.tla", roles_cfg(dict(ROLES, GenHist=True), ["PDump"], view=False), workers=1, timeout=1800, name="genroles")
        behs = parse_behaviours(g["outfile"])
        if quick and len(behs) > 1500:
            behs = rnd.sample(behs, 1500)
        rep, ptraces, _ = seqrun(work, binp, behs, "memkv", 8, [], cmd="syncrun", name="syncrun")
        cov["evaluations"] += rep.get("behaviours", 0); cov["distinct_nontrivial"] += rep.get("nontrivial", 0)
        cov["exhaustive"] = not quick
        cov["replay"].append(dict(what="follower read protocol on the real revision syncer (leader /status answer and every SetCurrentRevision are gates)",
                                  behaviours=rep.get("behaviours", 0), executed=rep.get("agreed", 0), not_executable=rep.get("obs_mismatch", 0),
                                  predicted_stale=sum(1 for b in behs if json.loads(b)["stale"]), notes=(rep.get("mismatch_notes") or [])[:2]))
        cov["samples"].append(json.loads(behs[0]))
        log("syncrun: %d protocol behaviours, %d executed on the real syncer" % (rep.get("behaviours", 0), rep.get("agreed", 0)))
        not_exec = None
        if rep.get("obs_mismatch", 0) > rep.get("behaviours", 0) // 10:
            not_exec = "more than 10%% of the protocol behaviours could not be executed on the real syncer: %s" % (rep.get("mismatch_notes") or [])[:2]
        # ... and that counterexample on the real syncer and the real backend
        dd = work.sub("derailrun")
        dtr, drp = os.path.join(dd, "derail.ndjson"), os.path.join(dd, "derail.json")
        rcode, out = run([binp, "derailrun", "-out", dtr, "-report", drp], env=GOENV, timeout=120)
        if rcode != 0 or not os.path.exists(drp):
            raise Undecided("derailrun failed: " + (out or "")[-800:])
        traces.append(dtr)
        cov["replay"].append(dict(what="a follower read whose fetch from the old leader returns after the node has taken over and committed writes (real syncer, real backend)", runs=1))
        allt = traces + ptraces
        ntr, v = validate_all(work, allt, T_MON[prop], module="TraceRoles.tla", chunks=4)
        cov["traces_validated_against_impl"] = ntr
        if v:
            violations += known_or_violation(prop, seed, v)
        elif not_exec:
            raise Undecided(not_exec)
        else:
            for mon in ("M_ReadNotStaleSharedFetch", "M_ReadNotStaleLoweredRevision"):
                _, vk = validate_all(work, ptraces, [mon], module="TraceRoles.tla", chunks=4)
                if vk:
                    rc2 = known_or_violation(prop, seed, vk)
                    violations += rc2
                    if rc2 == 0:
                        cov["known_findings"].append(mon)
        if not violations:
            violations += proxy_part(work, binp, cov, quick, seed, prop)
        cov["rule"] = ("(a) every request type of both APIs x {leader, follower} x {proxy on, off} x {leader reachable, unreachable, answering with an error} on the "
                       "real etcd.RPCServer / brain.Server with a recording backend, the real revision syncer and an HTTP /status endpoint; (b) behaviours of the "
                       "follower read protocol (Roles.tla, complete space for 2 reads and 2 leader commits) executed on the real revision syncer; all distinct")
        cov["monitors"] = T_MON[prop] + ["M_ReadNotStaleSharedFetch", "M_ReadNotStaleLoweredRevision"] + PROXY_MON
        write_evidence(prop, tier, seed, cov, ["part 1 and 2: the leader is an HTTP endpoint serving the real /status handlers, the proxy a recording stub; part 3: the real etcd proxy against two real etcd gRPC "
                        "servers on the loopback interface that share one backend (leadership is the servers' election flag)"],
                       time.time() - t0, violations)
        return 1 if violations else 0
    finally:
        work.cleanup()


T_MON["C20"] = ["M_Answered", "M_StillLive", "M_NoMetricPanic", "M_Validated", "M_MetricLabelsConsistent", "M_MetricLookupIsSpec"]
C20_EXTRA_MON = ["M_WatchBulkExactlyOnce"]
T_MODULE["C20"] = "TraceRequests.tla"


def check_requests(prop, tier, seed):
    t0 = time.time()
    work = Work(prop)
    violations = 0
    quick = tier == "quick"
    rnd = random.Random(seed)
    try:
        binp = build_harness(work)
        cov = dict(states=0, transitions=0, traces_validated_against_impl=0, samples=[], evaluations=0,
                   distinct_nontrivial=0, mc_runs=[], replay=[], exhaustive=True)
        r = tlc(work, "Requests.tla", "INIT Init\nNEXT Next\nINVARIANTS EveryHandlerHasAcceptableRequests\nCHECK_DEADLOCK FALSE\n", timeout=1800, name="mcreq")
        if r["violated"] or not r.get("ok"):
            raise Undecided("TLC on Requests.tla: %s %s" % (r["violated"], r["error"]))
        cov["states"] = r["distinct"]; cov["transitions"] = r["states"]
        cov["mc_runs"].append(dict(module="Requests.tla", config="the abstract request space: 17 handlers, one class per field", requests=r["distinct"]))
        g = tlc(work, "Requests.tla", "INIT Init\nNEXT Next\nINVARIANTS Dump\nCHECK_DEADLOCK FALSE\n", workers=1, timeout=1800,
                extra=["-simulate", "num=1", "-depth", "1", "-seed", str(seed)], name="genreq")
        reqs = parse_behaviours(g["outfile"])
        log("Requests.tla: %d abstract requests" % len(reqs))
        traces = []
        d = work.sub("reqrun")
        procs = []
        engines = ["memkv", "tikv", "metrics"] if quick else ["memkv", "tikv", "badger", "metrics", "metrics-tikv"]
        for i, eng in enumerate(engines):
            # one long-lived node per engine; the order of the requests (the sequence the node sees) depends on the seed
            order = list(reqs)
            random.Random(seed * 31 + i).shuffle(order)
            inp = os.path.join(d, "reqs_%s.ndjson" % eng)
            with open(inp, "w") as f:
                f.write("\n".join(order) + "\n")
            tr, rp, pend = os.path.join(d, "req_%s.ndjson" % eng), os.path.join(d, "req_%s.json" % eng), os.path.join(d, "req_%s.pending" % eng)
            c = [binp, "reqrun", "-in", inp, "-out", tr, "-report", rp, "-pending", pend, "-engine", eng]
            procs.append((subprocess.Popen(["timeout", "900"] + c, stdout=subprocess.PIPE, stderr=subprocess.STDOUT, env=GOENV, text=True), eng, tr, rp, pend))
        for p, eng, tr, rp, pend in procs:
            out, _ = p.communicate()
            if p.returncode != 0 or not os.path.exists(rp):
                if os.path.exists(pend) and os.path.exists(tr):
                    # the node died while serving a request: that is an answer the property forbids
                    rq = json.loads(open(pend).read())
                    with open(tr, "a") as f:
                        f.write(json.dumps({"e": "Req", "req": rq, "outcome": "crash", "detail": "process ended (rc=%s)" % p.returncode, "live": False, "metric_panics": 0}) + "\n")
                        f.write('{"e":"Reset"}\n')
                    traces.append(tr)
                    cov["replay"].append(dict(engine=eng, crashed_on=rq))
                    continue
                raise Undecided("reqrun failed on %s (rc=%s): %s" % (eng, p.returncode, (out or "")[-1500:]))
            rr = json.load(open(rp))
            traces.append(tr)
            cov["evaluations"] += rr["behaviours"]; cov["distinct_nontrivial"] += rr["nontrivial"]
            cov["replay"].append(dict(engine=eng, requests=rr["behaviours"], metric_names_emitted=rr["metric_names"]))
        cov["samples"] = [json.loads(x) for x in reqs[:3]]
        log("reqrun: %s" % cov["replay"])
        # the metric registry under concurrent first use: schedules of MetricsReg.tla on the real Prometheus client
        mcfg = dict(Threads={"t1", "t2", "t3"}, DoubleCheck=True, GenHist=False)
        r = tlc(work, "MetricsReg.tla", simple_cfg(mcfg, ["RegisteredOnce"], view=False), timeout=600, name="mcmreg")
        if r["violated"] or not r.get("ok"):
            raise Undecided("TLC on MetricsReg.tla: %s %s" % (r["violated"], r["error"]))
        cov["states"] += r["distinct"]; cov["transitions"] += r["states"]
        cov["mc_runs"].append(dict(module="MetricsReg.tla", config="3 goroutines emit one unknown metric; lookup / create with the second lookup under the write lock",
                                   distinct_states=r["distinct"], states_generated=r["states"], invariants=["RegisteredOnce"]))
        rn = tlc(work, "MetricsReg.tla", simple_cfg(dict(mcfg, DoubleCheck=False), ["RegisteredOnce"], view=False), timeout=600, name="mcmreg2")
        cov["mc_runs"].append(dict(module="MetricsReg.tla", config="same without the second lookup", counterexample_found=bool(rn["violated"])))
        g = tlc(work, "MetricsReg.tla", simple_cfg(dict(mcfg, GenHist=True), ["Dump"], view=False), workers=1, timeout=600, name="genmreg")
        mb = parse_behaviours(g["outfile"])
        if not mb:
            raise Undecided("no metric registry schedules generated")
        mrep, mtr, _ = seqrun(work, binp, mb, "memkv", 1, [], cmd="metricsrun", name="metricsrun")
        cov["evaluations"] += mrep.get("behaviours", 0); cov["distinct_nontrivial"] += mrep.get("nontrivial", 0)
        cov["replay"].append(dict(what="schedules of MetricsReg.tla (counter, gauge, histogram) on the real Prometheus client through the metrics.miss yield point",
                                  runs=mrep.get("behaviours", 0), not_executable=mrep.get("obs_mismatch", 0)))
        traces += mtr
        ntr, v = validate_all(work, traces, T_MON[prop], module="TraceRequests.tla", chunks=len(traces))
        cov["traces_validated_against_impl"] = ntr
        if not v:
            # "... or wedge a node": a watch that has to catch up on more cached events than its result channel takes in batches of
            # 300 (the call must come back), and watchers next to full sequencer batches
            import fam_watch
            wb = fam_watch.bulk_part(work, binp, cov, True)
            n2, v = validate_all(work, wb, ["M_WatchBulkExactlyOnce"], chunks=2)
            cov["traces_validated_against_impl"] += n2
        if v:
            violations += 1
            report_violation(prop, seed, v)
        if not violations:
            # "... keeps serving": the watch handler returns when its client goes and leaves no subscription behind, whatever was
            # cancelled or failed on the stream before (WatchMux.tla / TraceWatchMux.tla)
            import fam_watch
            violations += fam_watch.mux_part(work, binp, cov, quick, seed, prop, ["M_MuxCreatedFresh", "M_MuxCancelAnswered", "M_MuxHandlerReturns", "M_MuxNoSubscriptionLeft"])
        cov["rule"] = ("every request of the abstract space of Requests.tla (17 handlers of both APIs; field classes: empty / normal / 0xff / low bytes / '$' keys, "
                       "empty / normal / marker values, zero / past / current / future / negative / magic revisions, range ends, limits, transaction shapes incl. "
                       "unsupported and nested ones, missing fields), instantiated and sent in a seed-dependent order to ONE long-lived node per engine running with the "
                       "real Prometheus client; a liveness probe (create, wait committed, read, list) runs after every request")
        cov["monitors"] = T_MON[prop]
        write_evidence(prop, tier, seed, cov,
                       ["'all metric emission call sites' is covered for the call sites the generated requests and the background loops reach (the emitted metric names are listed in the trace); call sites on paths these requests do not reach (leader election loss, TLS schema retries) are not exercised",
                        "the metrics client is wrapped so that a panic inside it is recorded instead of ending the process"],
                       time.time() - t0, violations)
        return 1 if violations else 0
    finally:
        work.cleanup()


REGISTRY = {"C16": check_etcd, "C18": check_roles, "C20": check_requests}
