"""Server-level properties: C16 (etcd API), C18 (roles), C20 (no request crashes or wedges a node)."""
import collections, json, os, random, time
from kbcheck import *
import fam_read
from fam_read import SEQ_CONSTS, seq_gen, seqrun, known_or_violation
from fam_comp import simple_cfg, mc

ETCD = dict(Keys={1, 2}, CompactKey=9, RevSpace={0, 2, 4}, MaxCmp=1, MaxSucc=2, MaxFail=1, StrictKeys=True)
T_MON = {
    "C16": ["M_UnsupportedRejected", "M_CompactIsNoop", "M_K8sShapeServed", "M_RecognisedIsEtcd", "M_FailureBranchKv", "M_FutureRevisionHasNoEffect"],
}
T_MON_HIST = ["M_ReadIsSnapshot", "M_MoreFlag", "M_CountIsSnapshot", "M_EtcdPointCount", "M_HeaderCoversData", "M_WriteCondition", "M_FailedOnlyIfDiffered",
              "M_SuccessMeansWritten", "M_DeleteReturnsPrev", "M_DeliveredMatchesWrite", "M_NoSkip", "M_DeliveredOrdered", "M_CompleteAtQuiescence"]
T_MODULE = {"C16": "TraceEtcd.tla"}


def etcd_cfg(invariants):
    return cfg_constants(ETCD) + "INIT Init\nNEXT Next\nINVARIANTS " + " ".join(invariants) + "\nCHECK_DEADLOCK FALSE\n"


def trace_cfg_etcd(invariants):
    return cfg_constants(ETCD) + "SPECIFICATION TSpec\nCHECK_DEADLOCK FALSE\nINVARIANTS\n  " + "\n  ".join(invariants) + "\nPOSTCONDITION TraceAccepted\n"


def validate_etcd(work, tracefile, invariants, name="tetcd"):
    n = count_lines(tracefile)
    r = tlc(work, "TraceEtcd.tla", trace_cfg_etcd(invariants), workers=1, timeout=3600, env={"KB_TRACE": tracefile}, name=name)
    res = dict(accepted=False, violated=None, line=None, events=n, file=tracefile)
    if r["violated"]:
        res["violated"] = r["violated"]
        txt = open(r["outfile"], errors="replace").read()
        m = re.findall(r'<<"%s", (\d+)>>' % re.escape(r["violated"][2:]), txt)
        res["line"] = min(int(x) for x in m) if m else 1
        return res
    if r.get("ok") and r["rc"] == 0:
        res["accepted"] = True
        return res
    raise Undecided("trace validation (TraceEtcd) did not finish: %s\n%s" % (r["error"], r["tail"][-2000:]))


def check_etcd(prop, tier, seed):
    t0 = time.time()
    work = Work(prop)
    violations = 0
    quick = tier == "quick"
    rnd = random.Random(seed)
    try:
        binp = build_harness(work)
        cov = dict(states=0, transitions=0, traces_validated_against_impl=0, samples=[], evaluations=0,
                   distinct_nontrivial=0, mc_runs=[], replay=[], exhaustive=False, known_findings=[])
        # 1. every transaction of the bounded space x every small store: recognised => executed as etcd would
        r = tlc(work, "Etcd.tla", etcd_cfg(["RecognisedIsEtcd", "UnsupportedRejected", "K8sShapesRecognised"]), timeout=3000, name="mcetcd")
        if r["violated"] or not r.get("ok"):
            raise Undecided("TLC on Etcd.tla: %s %s\n%s" % (r["violated"], r["error"], r["tail"][-2000:]))
        cov["states"] += r["distinct"]; cov["transitions"] += r["states"]
        cov["mc_runs"].append(dict(module="Etcd.tla", config="all transactions with <=1 compare, <=2 success ops, <=1 failure op over 2 keys + compact key x 27 stores",
                                   distinct_states=r["distinct"], states_generated=r["states"], invariants=["RecognisedIsEtcd", "UnsupportedRejected", "K8sShapesRecognised"]))
        log("MC Etcd.tla: %d (transaction, store) pairs" % r["distinct"])
        # 2. the same space on the real Txn handler (stratified by transaction structure)
        g = tlc(work, "Etcd.tla", etcd_cfg(["Dump"]), workers=1, timeout=1800, extra=["-simulate", "num=1", "-depth", "1", "-seed", str(seed)], name="genetcd")
        groups = collections.defaultdict(list)
        for b in parse_behaviours(g["outfile"]):
            t = json.loads(b)["txn"]
            sig = (tuple((x["target"], x["result"]) for x in t["cmp"]), tuple(x["kind"] for x in t["succ"]), tuple(x["kind"] for x in t["fail"]))
            groups[sig].append(b)
        per = 10 if quick else 400
        cases = []
        for sig in sorted(groups):
            ls = groups[sig]
            cases += rnd.sample(ls, min(len(ls), per))
        rnd.shuffle(cases)
        rep, traces, _ = seqrun(work, binp, cases, "memkv" if quick else "memkv,tikv", 16, [], cmd="etcdrun", name="etcdrun")
        cov["evaluations"] += rep.get("behaviours", 0)
        cov["distinct_nontrivial"] += rep.get("behaviours", 0)
        cov["replay"].append(dict(what="transactions sent to the real Txn handler", structures=len(groups), cases=rep.get("behaviours", 0), space=sum(len(v) for v in groups.values())))
        cov["samples"].append(json.loads(cases[0]))
        log("etcdrun: %d transaction structures, %d cases on the real handler" % (len(groups), rep.get("behaviours", 0)))
        merged = os.path.join(work.sub("m"), "etcd_all.ndjson")
        with open(merged, "w") as f:
            for t in traces:
                f.write(open(t).read())
        v = validate_etcd(work, merged, T_MON[prop])
        cov["traces_validated_against_impl"] += 1
        if v["violated"]:
            violations += known_or_violation(prop, seed, v)
        else:
            v2 = validate_etcd(work, merged, ["M_UnguardedDeleteSucceeds"], name="tetcdk")
            if v2["violated"]:
                rc = known_or_violation(prop, seed, v2)
                violations += rc
                if rc == 0:
                    cov["known_findings"].append("D17")
        # 3. histories of the supported shapes through Txn / Range / Watch of the etcd server, on every engine
        if not violations:
            n = 100 if quick else 1500
            G = dict(OpKinds={"create", "update", "delete"}, ExpKinds={"zero", "cur", "stale"})
            hist2 = seq_gen(work, dict(SEQ_CONSTS, MaxOps=5 if quick else 7, **G), seed, n, name="genh2")
            hist3 = seq_gen(work, dict(SEQ_CONSTS, Keys={1, 2, 3}, MaxOps=5, **G), seed + 1, n // 2, name="genh3")
            flags = ["-seed", str(seed), "-frac", "0.03" if quick else "0.1", "-finalfrac", "0.3" if quick else "1.0", "-api", "etcd"]
            alltr = []
            for title, behs in (("2 keys", hist2), ("3 keys", hist3)):
                rp, trs, _ = seqrun(work, binp, behs, "memkv,badger,tikv,metrics", 16, flags)
                cov["evaluations"] += rp.get("behaviours", 0)
                cov["distinct_nontrivial"] += rp.get("nontrivial", 0)
                cov["replay"].append(dict(what="histories through the etcd Txn/Range/Watch handlers, " + title, histories=rp.get("behaviours", 0), engines=4,
                                          responses_matching_spec=rp.get("agreed", 0), reads=rp.get("reads", 0), notes=(rp.get("mismatch_notes") or [])[:2]))
                log("etcd histories %s: %d x 4 engines, %d reads, predicted responses matched in %d" % (title, rp.get("behaviours", 0), rp.get("reads", 0), rp.get("agreed", 0)))
                alltr += trs
            ntr, v = validate_all(work, alltr, T_MON_HIST, chunks=8)
            cov["traces_validated_against_impl"] += ntr
            if v:
                violations += known_or_violation(prop, seed, v)
            else:
                _, v3 = validate_all(work, alltr, ["M_EtcdCountTotal"], chunks=8)
                if v3:
                    rc = known_or_violation(prop, seed, v3)
                    violations += rc
                    if rc == 0:
                        cov["known_findings"].append("D18")
        cov["rule"] = ("(a) (transaction, store) pairs of the bounded space of Etcd.tla, sampled evenly over transaction structures, sent to the real Txn "
                       "handler over a seeded store; (b) TLC-generated histories of the Kubernetes transaction shapes issued through the real etcd Txn / Range / "
                       "Watch handlers on four engines with read sweeps; every case is distinct")
        cov["monitors"] = T_MON[prop] + T_MON_HIST
        write_evidence(prop, tier, seed, cov, ["create_revision / version / lease fields of etcd key-values are outside the property and not compared"],
                       time.time() - t0, violations)
        return 1 if violations else 0
    finally:
        work.cleanup()


REGISTRY = {"C16": check_etcd}
