#!/bin/bash
# Offline setup: builds the conformance harness once (warms the Go build cache) and parses every
# TLA+ module. The checks rebuild the harness from /repo's working tree on every run.
set -e
export GOFLAGS=-mod=mod GOPROXY=off GOSUMDB=off GOTOOLCHAIN=local
cd /verif/harness
cp /repo/go.sum go.sum
mkdir -p /verif/build
go build -tags verif -o /verif/build/kbverif ./cmd/kbverif
cd /verif/spec
for m in KBDefs KubeBrain Scanner KBSeq TraceProps TraceAgree; do
  tla-sany $m.tla > /verif/build/sany_$m.log 2>&1 || { echo "SANY failed for $m"; tail -20 /verif/build/sany_$m.log; exit 1; }
done
echo "setup ok"
