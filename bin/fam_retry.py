"""Fault / repair family: C09 (indeterminate storage outcomes are repaired, never mis-reported)."""
import json, os, time
from kbcheck import *
import fam_write
from fam_write import run_mc, gen_behaviours

R_CONSTS = dict(fam_write.BASE_CONSTS, Keys={1}, Writers={"c1", "c2"}, OpsPer=1, InitStates={"none", "live", "deleted"}, ExpSet={0, 1, 4},
                FaultKinds={"err", "unka", "unkn", "rerr"}, FaultBudget=2, Compactors={"k1"}, CompactRevs={0, 4}, MaxCompacts=1)

MC_INV = {"C09": ["IndexAgrees", "Chain", "FailedLeavesKey", "NoOvertake", "NoOvertakeRetry", "Resolved", "AckedDurable",
                  "EventsMatchWrites", "AckedEmitted", "Converged", "CompactClamp", "RepairStillPossible", "UniqueRevision"]}
T_MON = {"C09": ["M_UnknownIsError", "M_RepairCondition", "M_Converged", "M_SuccessMeansWritten", "M_CompactClamp", "M_Resolved", "M_NoOvertake",
                 "M_CompleteAtQuiescence", "M_NoSkip", "M_DeliveredMatchesWrite", "M_CommitAtomic"]}


def check_retry(prop, tier, seed):
    t0 = time.time()
    work = Work(prop)
    violations = 0
    quick = tier == "quick"
    try:
        binp = build_harness(work)
        cov = dict(states=0, transitions=0, traces_validated_against_impl=0, samples=[], evaluations=0,
                   distinct_nontrivial=0, mc_runs=[], replay=[], exhaustive=False)
        mcs = [("2 writers, 1 key, up to 2 faults (certain error / unknown applied / unknown not applied, also on the repair write), 1 compaction request", dict(R_CONSTS))]
        if not quick:
            # (2 writers x 2 requests with 2 faults has > 70 M states and does not finish in an hour; measured instead:
            #  1 writer x 3 requests 1.7 M states / 22 s, 2 writers with 3 faults 1.0 M states / 37 s)
            mcs.append(("1 writer x 3 requests, up to 2 faults", dict(R_CONSTS, Writers={"c1"}, OpsPer=3, InitStates={"none", "live"}, ExpSet={0, 1, 4, 5}, Compactors=set(), MaxCompacts=0)))
            mcs.append(("2 writers, up to 3 faults", dict(R_CONSTS, FaultBudget=3, InitStates={"live"})))
        for title, consts in mcs:
            r = run_mc(work, consts, MC_INV[prop])
            cov["states"] += r["distinct"]
            cov["transitions"] += r["states"]
            cov["mc_runs"].append(dict(config=title, distinct_states=r["distinct"], states_generated=r["states"], invariants=MC_INV[prop]))
            log("MC %s: %d distinct states" % (title, r["distinct"]))
        n = 3000 if quick else 40000
        wc = dict(R_CONSTS, Watchers={"w1"}, WatchStarts={4}, WatchPrefixes={0}, CacheSize=10, SubCap=10)
        plans = [("memkv", "faults on any commit incl. the repair write, compaction request, watcher from the first revision", wc, n, 16),
                 ("memkv", "two requests per writer, 3 faults", dict(wc, OpsPer=2, FaultBudget=3, ExpSet={0, 4, 5}, InitStates={"none", "live"}), n // 2, 16),
                 ("tikv", "faults on TiKV mock", dict(wc, ConflictCarriesValue=False), n // 6, 8),
                 ("badger", "faults on Badger", wc, n // 6, 4),
                 # the engine under the repository's storage metrics wrapper fails: the outcome travels through the wrapper
                 ("metrics", "faults of the engine under the storage metrics wrapper", wc, n // 6, 4)]
        alltraces = []
        okops = 0
        for engine, title, consts, num, shards in plans:
            behs, g = gen_behaviours(work, consts, "simulate", seed + len(alltraces), num=num, depth=200, module="MC_Watch.tla", limit=num)
            reports, traces = replay(work, binp, behs, engine, shards, ["-cache", "10"])
            rep = merge_reports(reports)
            okops += rep.get("ok_ops", 0)
            cov["evaluations"] += rep.get("behaviours", 0)
            cov["distinct_nontrivial"] += rep.get("nontrivial", 0)
            nfault = sum(1 for b in behs for s in json.loads(b)["steps"] if s.get("f") in ("err", "unka", "unkn"))
            cov["replay"].append(dict(engine=engine, what=title, behaviours=rep.get("behaviours", 0), agreed=rep.get("agreed", 0),
                                      diverged=rep.get("diverged", 0), observable_mismatch=rep.get("obs_mismatch", 0), injected_faults=nfault,
                                      ok_ops=rep.get("ok_ops", 0), failed_ops=rep.get("failed_ops", 0), error_ops=rep.get("error_ops", 0),
                                      actions=rep.get("action_count", {}), notes=(rep.get("mismatch_notes") or [])[:3]))
            if len(cov["samples"]) < 3 and rep.get("samples"):
                cov["samples"].append(json.loads(rep["samples"][0]))
            log("replay %s (%s): %d behaviours, %d injected faults, agreed %d, diverged %d, observable mismatch %d" % (
                engine, title, rep.get("behaviours", 0), nfault, rep.get("agreed", 0), rep.get("diverged", 0), rep.get("obs_mismatch", 0)))
            alltraces += traces
        if okops == 0:
            raise Undecided("vacuous: no replayed behaviour contained a successful write")
        ntr, v = validate_all(work, alltraces, T_MON[prop], chunks=8)
        cov["traces_validated_against_impl"] = ntr
        if v:
            violations += 1
            report_violation(prop, seed, v)
        cov["rule"] = ("behaviours of spec/KubeBrain.tla in which the engine answer of any commit (also the repair write) may be a certain error, "
                       "'unknown, applied' or 'unknown, not applied', injected at the storage interface of the real backend; the repair loop is a gated "
                       "process; non-trivial = overlapping clients or a repair step")
        cov["monitors"] = T_MON[prop]
        write_evidence(prop, tier, seed, cov,
                       ["faults are injected at the KvStorage interface (the adapters' own error classification is C11's business)",
                        "retry and check intervals are set to 0 / 1 ms through the verif-tagged setter"],
                       time.time() - t0, violations)
        return 1 if violations else 0
    finally:
        work.cleanup()


REGISTRY = {"C09": check_retry}
