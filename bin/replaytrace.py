"""Re-validates a saved trace (a replay file named in a VIOLATION line) with a property's monitors."""
import os
from kbcheck import *


def monitors_for(prop):
    import fam_write
    tables = [fam_write.T_MON]
    for name in ("fam_read", "fam_watch", "fam_compact", "fam_retry", "fam_comp", "fam_server"):
        try:
            m = __import__(name)
            tables.append(getattr(m, "T_MON", {}))
        except ImportError:
            pass
    for t in tables:
        if prop in t:
            return t[prop]
    raise Undecided("no trace monitors registered for %s" % prop)


def module_for(prop):
    for name in ("fam_read", "fam_watch", "fam_compact", "fam_retry", "fam_comp", "fam_server"):
        try:
            m = __import__(name)
            mm = getattr(m, "T_MODULE", {})
            if prop in mm:
                return mm[prop]
        except ImportError:
            pass
    return "TraceProps.tla"


def replay(prop, path):
    work = Work(prop)
    try:
        v = validate_trace(work, os.path.abspath(path), monitors_for(prop), module=module_for(prop))
        if v["violated"]:
            print("monitor %s rejects the trace at line %s" % (v["violated"], v["line"]))
            print("VIOLATION property=%s replay=%s" % (prop, path))
            return 1
        print("trace accepted by the monitors of %s" % prop)
        return 0
    finally:
        work.cleanup()
