#!/bin/bash
# Runs the repository's pinned test suite with the verif build tag OFF and compares the
# set of passing tests with /root/.vp/BASELINE.json (stable_pass).
export GOFLAGS=-mod=mod GOPROXY=off GOSUMDB=off GOTOOLCHAIN=local
OUT=$(mktemp /tmp/kb_baseline.XXXXXX.json)
(cd "${KB_REPO:-/repo}" && go test -mod=mod -json -vet=off -count=1 -timeout 25m ./... > "$OUT" 2>/dev/null)
python3 - "$OUT" <<'PY'
import json,sys
passed=set(); failed=set()
for l in open(sys.argv[1]):
    try: e=json.loads(l)
    except Exception: continue
    if e.get('Test') and e.get('Action') in('pass','fail'):
        (passed if e['Action']=='pass' else failed).add(e['Package']+'::'+e['Test'])
base=json.load(open('/root/.vp/BASELINE.json'))
stable=set(base['stable_pass'])
missing=sorted(stable-passed)
print('passed',len(passed),'failed',len(failed),'stable',len(stable),'missing',len(missing))
for m in missing: print('  MISSING',m)
sys.exit(1 if missing else 0)
PY
rc=$?
rm -f "$OUT"
exit $rc
