#!/bin/bash
# usage: confirm_mutant.sh <dir with patch.diff [demo_test.go demo_dest]>
# Confirms, in a scratch worktree outside /repo and /verif, that a seeded change applies, builds with and
# without the verif tag, passes the pinned test suite, and that its demonstration passes on the unchanged
# tree and fails on the changed one. The worktree is removed afterwards.
set -u
D=$(realpath "$1"); N=$(basename "$D")
export GOFLAGS=-mod=mod GOPROXY=off GOSUMDB=off GOTOOLCHAIN=local
W=/tmp/cm_$N
git -C /repo worktree remove --force "$W" 2>/dev/null
git -C /repo worktree add --detach "$W" HEAD -q || exit 2
trap 'git -C /repo worktree remove --force "$W" 2>/dev/null; rm -rf "$W"' EXIT
cd "$W" || exit 2
git apply --check "$D/patch.diff" || { echo "RESULT $N patch-does-not-apply"; exit 1; }
demo=none
if [ -f "$D/demo_test.go" ] && [ -f "$D/demo_dest" ]; then
  dest=$(cat "$D/demo_dest"); pkg=$(dirname "$dest")
  tests=$(grep -oE "^func (Test[A-Za-z0-9_]+)" "$D/demo_test.go" | awk '{print $2}' | paste -sd'|')
  tags=""; grep -q "go:build verif" "$D/demo_test.go" && tags="-tags verif"
  grep -q "verifhook" "$D/demo_test.go" && tags="-tags verif"
  mkdir -p "$pkg"; cp "$D/demo_test.go" "$dest"
  if go test $tags -vet=off -count=1 -timeout 10m -run "^($tests)\$" "./$pkg" > /tmp/cm_$N.demo0 2>&1; then d0=pass; else d0=fail; fi
  git apply "$D/patch.diff"
  if go test $tags -vet=off -count=1 -timeout 10m -run "^($tests)\$" "./$pkg" > /tmp/cm_$N.demo1 2>&1; then d1=pass; else d1=fail; fi
  demo="clean:$d0,patched:$d1"
  [ "$d0" = pass ] || tail -15 /tmp/cm_$N.demo0
  [ "$d1" = fail ] || tail -15 /tmp/cm_$N.demo1
  rm -f "$dest" /tmp/cm_$N.demo0 /tmp/cm_$N.demo1
  rmdir "$pkg" 2>/dev/null
else
  git apply "$D/patch.diff"
fi
if git diff --name-only | grep -E '_test\.go$|verifhook|_verif\.go$' ; then echo "RESULT $N touches-forbidden-files"; exit 1; fi
go build ./... || { echo "RESULT $N build-fails demo=$demo"; exit 1; }
go build -tags verif ./... || { echo "RESULT $N build-verif-fails demo=$demo"; exit 1; }
KB_REPO="$W" /verif/bin/baseline_off.sh > /tmp/cm_$N.log 2>&1; rc=$?; tail -3 /tmp/cm_$N.log | grep -v "^passed" ; s=$(grep "^passed" /tmp/cm_$N.log); rm -f /tmp/cm_$N.log
[ $rc -eq 0 ] || { echo "RESULT $N suite-fails demo=$demo [$s]"; exit 1; }
echo "RESULT $N ok demo=$demo [$s]"
