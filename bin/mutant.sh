#!/bin/bash
# usage: mutant.sh <patch.diff> <property> [tier]  -- applies a patch to /repo, runs the check, restores /repo
set -u
P=$1; PROP=$2; TIER=${3:-quick}
cd /repo || exit 2
if ! git diff --quiet; then echo "/repo has uncommitted changes"; exit 2; fi
git apply "$P" || { echo "patch does not apply"; exit 2; }
trap 'git -C /repo checkout -- . ; git -C /repo clean -fdq pkg' EXIT
/verif/bin/check "$PROP" --tier "$TIER"
echo "check exit code: $?"
