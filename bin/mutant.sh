#!/bin/bash
# usage: mutant.sh <patch.diff> <property> [tier]
# Evaluates a seeded change: a scratch worktree of /repo (outside /repo and /verif) gets the patch, the
# check of <property> is rebuilt against that worktree (KB_REPO) and run; evidence and violation traces
# of this run go to the scratch directory, never to /verif/evidence. /repo itself is not touched, so
# several evaluations can run side by side. The worktree is removed afterwards.
# (Equivalent by hand: git -C /repo apply <patch>; bin/check <property>; git -C /repo checkout -- .)
set -u
P=$(realpath "$1"); PROP=$2; TIER=${3:-quick}
W=$(mktemp -d /tmp/kbmut.XXXXXX)
git -C /repo worktree add --detach "$W/repo" HEAD -q || exit 2
trap 'git -C /repo worktree remove --force "$W/repo" 2>/dev/null; rm -rf "$W"' EXIT
git -C "$W/repo" apply "$P" || { echo "patch does not apply"; exit 2; }
KB_REPO="$W/repo" KB_SCRATCH="$W/scratch" /verif/bin/check "$PROP" --tier "$TIER" 2>&1 | grep -E "VIOLATION|KNOWN-FINDING|UNDECIDED|rejects|\[check\]" | sed -e "s#$W#<scratch>#g"
echo "check exit code: ${PIPESTATUS[0]}"
